(* C05 -- pseudo-instructions have exactly the effect the instruction reference documents.
   Statements only; proofs live in Proofs/Pseudo.v (+ PseudoEmit.v, SemLemmas.v).

   What the statements are about:
   * expand_pseudo / pseudo_rule : the hand-written model of asm.transform_pseudo_instructions (Model/Passes.v), tied
     to the real code by the pipeline correspondence that tools/props/C05.py runs on every check;
   * emit_bytes : the model's own resolve_immediates, resolve_instructions (calling the GENERATED encoders of
     Gen/Encoders.v, regenerated from asm.py) and resolve_blobs, applied to the emitted item(s) sitting at position pos
     under the final constants / labels;
   * regnum : how a register operand is read (Spec/Operands.v: x0..x31, ABI names, numbers);
   * loaded / run_n / getr / only_reg / no_reg / wrap / signed and the *_doc tables : the Spec machine and the documented
     effects (Spec/Sem.v), independent of the assembler.  run_n FETCHES the instruction from the byte memory, so the
     statements cover encoding (through the C01 theorem), little-endian packing, decoding and execution.
   Every statement holds for EVERY state s (registers, pc, memory arbitrary) in which the emitted bytes sit at the pc,
   and for every register spelling the assembler accepts (nrd = nrs, x0, sp included: there is no side condition). *)
From Coq Require Import ZArith List String.
From BB Require Import Base.PyBase Gen.Encoders Spec.RV32 Spec.Operands Spec.Sem Model.Items Model.Passes
  Proofs.PseudoEmit Proofs.Pseudo.
From BB Require Gen.Pseudo Proofs.PseudoTable Proofs.LiProgram.
Import ListNotations.
Open Scope Z_scope.
Open Scope list_scope.

(* li rd, e: whatever pseudo_rule emits at expansion time (position pos, labels as they are then) -- one addi or
   lui + addi -- and at whatever final layout (pos', labels') it is resolved, running it leaves the value v that the
   operand has THERE, modulo 2^32, in rd (nothing if rd = x0); no other register, no memory; pc advanced by the length.
   v ranges over all of Z: negative and >= 2^31 / >= 2^32 spellings included (uses C07 hi_lo_rebuild). *)
Theorem C05_li : forall consts l rd rest e pos labels its,
  pseudo_rule consts l (IPseudo "li" (rd :: rest) (POk e)) pos labels = Done its ->
  forall pos' labels' bs, emit_bytes l consts labels' pos' its = Done bs ->
  exists nrd v, regnum (AStr rd) = Some nrd /\ eval_here l pos' consts labels' e = Done v /\
    forall s, loaded s bs ->
      exists s', run_n (List.length its) s = Some s' /\ pc s' = wrap (pc s + 4 * Z.of_nat (List.length its)) /\
                 only_reg s s' nrd (wrap v).
Proof. exact li_effect. Qed.

(* mv not neg seqz snez sltz sgtz: rd <- f (rs) with f the documented function (Spec/Sem.v unary_doc) *)
Theorem C05_unary : forall name f, In (name, f) unary_doc ->
  forall l consts labels pos rd rs pimm,
  exists it, expand_pseudo l name [rd; rs] pimm = Done (One it) /\
  forall bs, emit_bytes l consts labels pos [it] = Done bs ->
  exists nrd nrs, regnum (AStr rd) = Some nrd /\ regnum (AStr rs) = Some nrs /\
    forall s, loaded s bs ->
      exists s', run_n 1 s = Some s' /\ pc s' = wrap (pc s + 4) /\ only_reg s s' nrd (f (getr s nrs)).
Proof. exact unary_effect. Qed.

(* beqz bnez blez bgez bltz bgtz: taken iff the documented condition on rs holds (branchz_doc); the taken target is the
   label (pc + (dest - pos) when the branch sits at pos and the label at dest); no register, no memory changes *)
Theorem C05_branch_zero : forall name c, In (name, c) branchz_doc ->
  forall l consts labels pos rs ref pimm,
  exists it, expand_pseudo l name [rs; ref] pimm = Done (One it) /\
  forall bs, emit_bytes l consts labels pos [it] = Done bs ->
  exists nrs dest, regnum (AStr rs) = Some nrs /\ chain_get consts labels ref = Some dest /\
    forall s, loaded s bs ->
      exists s', run_n 1 s = Some s' /\ no_reg s s' /\
        pc s' = if c (getr s nrs) then wrap (pc s + (dest - pos)) else wrap (pc s + 4).
Proof. exact branchz_effect. Qed.

(* bgt ble bgtu bleu: taken iff the documented signed / unsigned comparison of rs with rt holds (branch2_doc) *)
Theorem C05_branch_two : forall name c, In (name, c) branch2_doc ->
  forall l consts labels pos rs rt ref pimm,
  exists it, expand_pseudo l name [rs; rt; ref] pimm = Done (One it) /\
  forall bs, emit_bytes l consts labels pos [it] = Done bs ->
  exists nrs nrt dest, regnum (AStr rs) = Some nrs /\ regnum (AStr rt) = Some nrt /\
    chain_get consts labels ref = Some dest /\
    forall s, loaded s bs ->
      exists s', run_n 1 s = Some s' /\ no_reg s s' /\
        pc s' = if c (getr s nrs) (getr s nrt) then wrap (pc s + (dest - pos)) else wrap (pc s + 4).
Proof. exact branch2_effect. Qed.

(* j / jal: reach the label; only the documented link register (none / x1) is written, with the return address *)
Theorem C05_j_jal : forall name link, In (name, link) jump_doc ->
  forall l consts labels pos ref pimm,
  exists it, expand_pseudo l name [ref] pimm = Done (One it) /\
  forall bs, emit_bytes l consts labels pos [it] = Done bs ->
  exists dest, chain_get consts labels ref = Some dest /\
    forall s, loaded s bs ->
      exists s', run_n 1 s = Some s' /\ pc s' = wrap (pc s + (dest - pos)) /\ only_reg s s' link (wrap (pc s + 4)).
Proof. exact jump_effect. Qed.

(* jr / jalr: jump to the address in rs (bit 0 cleared), link none / x1 -- also when rs = x1 (target read first) *)
Theorem C05_jr_jalr : forall name link, In (name, link) jumpr_doc ->
  forall l consts labels pos rs pimm,
  exists it, expand_pseudo l name [rs] pimm = Done (One it) /\
  forall bs, emit_bytes l consts labels pos [it] = Done bs ->
  exists nrs, regnum (AStr rs) = Some nrs /\
    forall s, loaded s bs ->
      exists s', run_n 1 s = Some s' /\ pc s' = getr s nrs - getr s nrs mod 2 /\ only_reg s s' link (wrap (pc s + 4)).
Proof. exact jumpr_effect. Qed.

Theorem C05_ret : forall l consts labels pos args pimm,
  exists it, expand_pseudo l "ret" args pimm = Done (One it) /\
  forall bs, emit_bytes l consts labels pos [it] = Done bs ->
  forall s, loaded s bs ->
    exists s', run_n 1 s = Some s' /\ pc s' = getr s 1 - getr s 1 mod 2 /\ no_reg s s'.
Proof. exact ret_effect. Qed.

(* call / tail, one-instruction form chosen by pseudo_rule: reach the label; link x1 / none *)
Theorem C05_call_tail_near : forall name link scratch, In (name, (link, scratch)) calltail_doc ->
  forall consts l ref pimm pos labels it,
  pseudo_rule consts l (IPseudo name [ref] pimm) pos labels = Done [it] ->
  forall pos' labels' bs, emit_bytes l consts labels' pos' [it] = Done bs ->
  exists dest, chain_get consts labels' ref = Some dest /\
    forall s, loaded s bs ->
      exists s', run_n 1 s = Some s' /\ pc s' = wrap (pc s + (dest - pos')) /\ only_reg s s' link (wrap (pc s + 4)).
Proof. exact calltail_near_effect. Qed.

(* call, two-instruction form (auipc x1 + jalr x1): reaches the label (bit 0 cleared, as jalr does) for EVERY distance
   dest - pos' in Z; x1 = return address = pc + 8; nothing else written *)
Theorem C05_call_far : forall consts l ref pimm pos labels it1 it2,
  pseudo_rule consts l (IPseudo "call" [ref] pimm) pos labels = Done [it1; it2] ->
  forall pos' labels' bs, emit_bytes l consts labels' pos' [it1; it2] = Done bs ->
  exists dest, chain_get consts labels' ref = Some dest /\
    forall s, loaded s bs ->
      exists s', run_n 2 s = Some s' /\
        pc s' = wrap (pc s + (dest - pos')) - wrap (pc s + (dest - pos')) mod 2 /\
        only_reg s s' 1 (wrap (pc s + 8)).
Proof. exact call_far_effect. Qed.

(* tail, two-instruction form (auipc x6 + jalr x0, x6): reaches the label; the only register written is the documented
   scratch register x6 (it holds pc + (%hi(offset) << 12)); no link *)
Theorem C05_tail_far : forall consts l ref pimm pos labels it1 it2,
  pseudo_rule consts l (IPseudo "tail" [ref] pimm) pos labels = Done [it1; it2] ->
  forall pos' labels' bs, emit_bytes l consts labels' pos' [it1; it2] = Done bs ->
  exists dest, chain_get consts labels' ref = Some dest /\
    forall s, loaded s bs ->
      exists s', run_n 2 s = Some s' /\
        pc s' = wrap (pc s + (dest - pos')) - wrap (pc s + (dest - pos')) mod 2 /\
        only_reg s s' 6 (wrap (pc s + relocate_hi (dest - pos') * 4096)).
Proof. exact tail_far_effect. Qed.

(* nop, fence: nothing but the pc changes *)
Theorem C05_nop : forall l consts labels pos args pimm,
  exists it, expand_pseudo l "nop" args pimm = Done (One it) /\
  forall bs, emit_bytes l consts labels pos [it] = Done bs ->
  forall s, loaded s bs -> exists s', run_n 1 s = Some s' /\ pc s' = wrap (pc s + 4) /\ no_reg s s'.
Proof. exact nop_effect. Qed.

Theorem C05_fence : forall l consts labels pos args pimm,
  exists it, expand_pseudo l "fence" args pimm = Done (One it) /\
  forall bs, emit_bytes l consts labels pos [it] = Done bs ->
  forall s, loaded s bs -> exists s', run_n 1 s = Some s' /\ pc s' = wrap (pc s + 4) /\ no_reg s s'.
Proof. exact fence_effect. Qed.

(* an instruction writes memory only where [writes] says (none of the instructions above is a store) *)
Theorem C05_memory_writes : forall i len s s' x, step i len s = Some s' -> ~ In x (writes i s) -> mem s' x = mem s x.
Proof. exact SemLemmas.step_writes. Qed.

(* One traversal for all of the above (a separate Print Assumptions per theorem re-walks the C01 proof terms each time
   and costs ~4 s apiece): the assumptions of the tuple are the union of the assumptions of its components. *)
Definition C05_all_theorems := (C05_li, C05_unary, C05_branch_zero, C05_branch_two, C05_j_jal, C05_jr_jalr, C05_ret, C05_call_tail_near, C05_call_far, C05_tail_far, C05_nop, C05_fence, C05_memory_writes).
Print Assumptions C05_all_theorems.

(* ---- the hypotheses are satisfiable: concrete runs, computed in the kernel --------------------------------------- *)
(* expansion by pseudo_rule at position pos, bytes by emit_bytes at the same layout, loaded at address base into a
   machine whose register x_r holds 1000 + r; result: (x_r for the registers asked, pc) *)
Definition ex_line : line := {| lfile := "ex"; lnum := 1 |}.
Definition ex_state (base : Z) (bs : list Z) : state :=
  {| regs := fun r => 1000 + r; pc := base; mem := fun a => nth (Z.to_nat (a - base)) bs 0 |}.
Definition ex_run (name : string) (args : list string) (pimm : pres expr) (labels : envt) (pos base : Z) (ask : list Z)
  : option (list Z * Z * Z) :=
  match pseudo_rule [] ex_line (IPseudo name args pimm) pos labels with
  | Done its =>
      match emit_bytes ex_line [] labels pos its with
      | Done bs => match run_n (List.length its) (ex_state base bs) with
                   | Some s' => Some (map (getr s') ask, pc s', Z.of_nat (List.length bs))
                   | None => None
                   end
      | _ => None
      end
  | _ => None
  end.
Definition lit (v : Z) : pres expr := POk (EArith (ANum v)).
Definition noimm : pres expr := PErr (PRaw OtherExn).

Example C05_ex_li_short : ex_run "li" ["t0"; "-5"] (lit (-5)) [] 0 4096 [5; 6] = Some ([4294967291; 1006], 4100, 4).
Proof. vm_compute. reflexivity. Qed.
Example C05_ex_li_long : ex_run "li" ["t0"; "0xfffff7ff"] (lit 4294965247) [] 0 4096 [5; 6] = Some ([4294965247; 1006], 4104, 8).
Proof. vm_compute. reflexivity. Qed.
Example C05_ex_li_beyond_32_bits : ex_run "li" ["x31"; "0x100000805"] (lit 4294969349) [] 0 4096 [31] = Some ([2053], 4104, 8).
Proof. vm_compute. reflexivity. Qed.
Example C05_ex_li_x0 : ex_run "li" ["zero"; "0x12345678"] (lit 305419896) [] 0 4096 [0; 1] = Some ([0; 1001], 4104, 8).
Proof. vm_compute. reflexivity. Qed.
Example C05_ex_li_offset : ex_run "li" ["t0"; "%offset"; "L"] (POk (EOff "L")) [("L", 6146)] 0 4096 [5] = Some ([6146], 4104, 8).
Proof. vm_compute. reflexivity. Qed.
Example C05_ex_mv_same_register : ex_run "mv" ["sp"; "sp"] noimm [] 8 4096 [2; 3] = Some ([1002; 1003], 4100, 4).
Proof. vm_compute. reflexivity. Qed.
Example C05_ex_not : ex_run "not" ["a0"; "a0"] noimm [] 8 4096 [10] = Some ([4294966285], 4100, 4).
Proof. vm_compute. reflexivity. Qed.
Example C05_ex_neg_x0 : ex_run "neg" ["x0"; "t1"] noimm [] 8 4096 [0; 6] = Some ([0; 1006], 4100, 4).
Proof. vm_compute. reflexivity. Qed.
Example C05_ex_bgtz_taken : ex_run "bgtz" ["t0"; "T"] noimm [("T", 256)] 16 4112 [5] = Some ([1005], 4352, 4).
Proof. vm_compute. reflexivity. Qed.
Example C05_ex_bgtu_not_taken : ex_run "bgtu" ["t0"; "t1"; "T"] noimm [("T", 0)] 16 4112 [5] = Some ([1005], 4116, 4).
Proof. vm_compute. reflexivity. Qed.
Example C05_ex_jalr_x1 : ex_run "jalr" ["ra"] noimm [] 0 4096 [1] = Some ([4100], 1000, 4).
Proof. vm_compute. reflexivity. Qed.
Example C05_ex_call_near : ex_run "call" ["T"] noimm [("T", 4404)] 0 4096 [1; 6] = Some ([4100; 1006], 8500, 4).
Proof. vm_compute. reflexivity. Qed.
Example C05_ex_call_far : ex_run "call" ["T"] noimm [("T", 1050624)] 0 4096 [1; 6] = Some ([4104; 1006], 1054720, 8).
Proof. vm_compute. reflexivity. Qed.
Example C05_ex_tail_far_backwards : ex_run "tail" ["T"] noimm [("T", 0)] 1050624 1054720 [1; 6] = Some ([1001; 6144], 4096, 8).
Proof. vm_compute. reflexivity. Qed.

(* TIE of the templates to the source: the model's expand_pseudo (about which the theorems above speak) equals, for EVERY
   name, argument list and parse result, the instantiation of the table that tools/units_pseudo.py REGENERATES from the AST of
   asm.transform_pseudo_instructions on every run (Gen/Pseudo.v); likewise the 8-byte pessimistic size of li / call / tail.
   An edit of a template in the source (operands swapped, another mnemonic, another threshold) breaks this obligation. *)
Theorem C05_templates_from_source : forall l name args pimm,
  expand_pseudo l name args pimm =
  match assoc_str name Gen.Pseudo.pseudo_table with
  | Some t => PseudoTable.instantiate t args pimm
  | None => Fail (PAsm l)
  end.
Proof. exact PseudoTable.expand_pseudo_table. Qed.
Print Assumptions C05_templates_from_source.
Theorem C05_big_pseudos_from_source : forall name, is_big_pseudo name = mem_str name Gen.Pseudo.big_pseudos.
Proof. exact PseudoTable.big_pseudo_table. Qed.
Print Assumptions C05_big_pseudos_from_source.

(* ... and as a whole PROGRAM: for the one-line program `li rd, e` the 16 passes of the pass model ARE pseudo_rule followed by
   emit_bytes (LiProgram.li_line_pipeline), so: if it assembles, its output bytes, loaded and run for one or two steps, leave the
   value of e (modulo 2^32) in rd and touch nothing else *)
Theorem C05_li_program : forall l rd rest e r,
  assemble_items [(l, IPseudo "li" (rd :: rest) (POk e))] [] [] false = Done r ->
  exists n nrd v, regnum (AStr rd) = Some nrd /\ eval_here l 0 [] [] e = Done v /\ (n = 1 \/ n = 2)%nat /\
    forall s, loaded s (flat_map PseudoEmit.chunk_bytes (r_chunks r)) ->
      exists s', run_n n s = Some s' /\ pc s' = wrap (pc s + 4 * Z.of_nat n) /\ only_reg s s' nrd (wrap v).
Proof. exact LiProgram.li_program. Qed.
Print Assumptions C05_li_program.
Example C05_li_program_example :
  exists r, assemble_items [({| lfile := "f"; lnum := 1 |}, IPseudo "li" ["t0"; "0x12345678"] (POk (EArith (ANum 305419896))))]%string [] [] false = Done r
            /\ flat_map PseudoEmit.chunk_bytes (r_chunks r) = [183; 82; 52; 18; 147; 130; 130; 103].
Proof. eexists. split; vm_compute; reflexivity. Qed.

(* ==== the COMPRESSED rendering (compress = true) ================================================================================
   With compression on, the second compression pass (compress_rule on every instruction the pseudo-instruction expanded to) may
   replace each 32-bit instruction by a 16-bit one (c.li, c.lui, c.addi, c.addi16sp, c.mv, c.nop, c.jr, c.jalr ...).  The theorems
   below take the ONE-LINE program through all 16 passes of assemble_items with compress = true and run the output bytes on the
   fetching Spec machine (which decodes 16-bit parcels by Spec/RVC.v decode16 + expand_c).  Proofs: Proofs/PseudoCompressed.v
   (per instruction shape: whatever compress_rule returns executes like the 32-bit instruction taken with the new length --
   Proofs/RuleStep.v rule_step = the C04 rule sweeps + C02 + halfword fetch), Proofs/CodeLine.v (the pipeline on the one-line
   program).  The effect of a compressed instruction is the documented one WITH ITS OWN LENGTH: the pc advances by 2 and a link
   register receives pc + 2. *)
From BB Require Proofs.PseudoCompressed.

(* li rd, e: mirrors C05_li_program.  The output is 2 (c.li), 4 (addi | c.lui + c.addi / c.mv), 6 or 8 bytes long; running it
   (1 or 2 instructions) leaves value mod 2^32 in rd (x0 stays 0), changes no other register and no memory, pc advances by the
   length of the emitted code. *)
Theorem C05_li_program_compressed : forall l rd rest e r,
  assemble_items [(l, IPseudo "li" (rd :: rest) (POk e))] [] [] true = Done r ->
  exists n nrd v len, regnum (AStr rd) = Some nrd /\ eval_here l 0 [] [] e = Done v /\ (n = 1 \/ n = 2)%nat /\
    In len [2; 4; 6; 8] /\ zlen (flat_map PseudoEmit.chunk_bytes (r_chunks r)) = len /\
    forall s, loaded s (flat_map PseudoEmit.chunk_bytes (r_chunks r)) ->
      exists s', run_n n s = Some s' /\ pc s' = wrap (pc s + len) /\ only_reg s s' nrd (wrap v).
Proof. exact PseudoCompressed.li_program_compressed. Qed.

(* mv not neg seqz snez sltz sgtz (mv may become c.mv; the others have no applicable rule or are kept) *)
Theorem C05_unary_program_compressed : forall name f, In (name, f) unary_doc ->
  forall l rd rs pimm r,
  assemble_items [(l, IPseudo name [rd; rs] pimm)] [] [] true = Done r ->
  exists nrd nrs len, regnum (AStr rd) = Some nrd /\ regnum (AStr rs) = Some nrs /\ (len = 2 \/ len = 4) /\
    zlen (flat_map PseudoEmit.chunk_bytes (r_chunks r)) = len /\
    forall s, loaded s (flat_map PseudoEmit.chunk_bytes (r_chunks r)) ->
      exists s', run_n 1 s = Some s' /\ pc s' = wrap (pc s + len) /\ only_reg s s' nrd (f (getr s nrs)).
Proof. exact PseudoCompressed.unary_program_compressed. Qed.

Theorem C05_nop_program_compressed : forall l args pimm r,
  assemble_items [(l, IPseudo "nop" args pimm)] [] [] true = Done r ->
  exists len, (len = 2 \/ len = 4) /\ zlen (flat_map PseudoEmit.chunk_bytes (r_chunks r)) = len /\
    forall s, loaded s (flat_map PseudoEmit.chunk_bytes (r_chunks r)) ->
      exists s', run_n 1 s = Some s' /\ pc s' = wrap (pc s + len) /\ no_reg s s'.
Proof. exact PseudoCompressed.nop_program_compressed. Qed.

(* jr / jalr (c.jr / c.jalr): jump to the address in rs, bit 0 cleared; link none / x1 <- pc + length *)
Theorem C05_jr_jalr_program_compressed : forall name link, In (name, link) jumpr_doc ->
  forall l rs pimm r,
  assemble_items [(l, IPseudo name [rs] pimm)] [] [] true = Done r ->
  exists nrs len, regnum (AStr rs) = Some nrs /\ (len = 2 \/ len = 4) /\
    zlen (flat_map PseudoEmit.chunk_bytes (r_chunks r)) = len /\
    forall s, loaded s (flat_map PseudoEmit.chunk_bytes (r_chunks r)) ->
      exists s', run_n 1 s = Some s' /\ pc s' = getr s nrs - getr s nrs mod 2 /\ only_reg s s' link (wrap (pc s + len)).
Proof. exact PseudoCompressed.jumpr_program_compressed. Qed.

Theorem C05_ret_program_compressed : forall l args pimm r,
  assemble_items [(l, IPseudo "ret" args pimm)] [] [] true = Done r ->
  exists len, (len = 2 \/ len = 4) /\ zlen (flat_map PseudoEmit.chunk_bytes (r_chunks r)) = len /\
    forall s, loaded s (flat_map PseudoEmit.chunk_bytes (r_chunks r)) ->
      exists s', run_n 1 s = Some s' /\ pc s' = getr s 1 - getr s 1 mod 2 /\ no_reg s s'.
Proof. exact PseudoCompressed.ret_program_compressed. Qed.

Definition C05_compressed_theorems := (C05_li_program_compressed, C05_unary_program_compressed, C05_nop_program_compressed,
  C05_jr_jalr_program_compressed, C05_ret_program_compressed).
Print Assumptions C05_compressed_theorems.

(* concrete runs of the compressed rendering, computed in the kernel: the one-line program through assemble_items with
   compress = true, its bytes loaded at base into a machine whose register x_r holds 1000 + r, n instructions executed;
   result: (output bytes, x_r for the registers asked, pc) *)
Definition ex_run_c (name : string) (args : list string) (pimm : pres expr) (n : nat) (base : Z) (ask : list Z)
  : option (list Z * list Z * Z) :=
  match assemble_items [(ex_line, IPseudo name args pimm)] [] [] true with
  | Done r => let bs := flat_map PseudoEmit.chunk_bytes (r_chunks r) in
              match run_n n (ex_state base bs) with
              | Some s' => Some (bs, map (getr s') ask, pc s')
              | None => None
              end
  | _ => None
  end.
(* li a0, 5 -> c.li a0, 5 *)
Example C05_ex_c_li : ex_run_c "li" ["a0"; "5"] (lit 5) 1 4096 [10; 11] = Some ([21; 69], [5; 1011], 4098).
Proof. vm_compute. reflexivity. Qed.
Example C05_ex_c_li_negative : ex_run_c "li" ["a0"; "-1"] (lit (-1)) 1 4096 [10] = Some ([125; 85], [4294967295], 4098).
Proof. vm_compute. reflexivity. Qed.
(* li a0, 0x12000 -> c.lui a0, 0x12 ; c.mv a0, a0 (the addi a0, a0, 0 is rendered as c.mv) *)
Example C05_ex_c_li_lui_mv : ex_run_c "li" ["a0"; "0x12000"] (lit 73728) 2 4096 [10] = Some ([73; 101; 42; 133], [73728], 4100).
Proof. vm_compute. reflexivity. Qed.
(* li a0, 0x12001 -> c.lui a0, 0x12 ; c.addi a0, 1 *)
Example C05_ex_c_li_lui_addi : ex_run_c "li" ["a0"; "0x12001"] (lit 73729) 2 4096 [10] = Some ([73; 101; 5; 5], [73729], 4100).
Proof. vm_compute. reflexivity. Qed.
(* li a0, 0x12345 -> c.lui a0, 0x12 ; addi a0, a0, 0x345 (6 bytes) *)
Example C05_ex_c_li_lui_addi32 : ex_run_c "li" ["a0"; "0x12345"] (lit 74565) 2 4096 [10] = Some ([73; 101; 19; 5; 85; 52], [74565], 4102).
Proof. vm_compute. reflexivity. Qed.
(* li sp, 0x12010 -> lui sp, 0x12 (c.lui excludes x2) ; c.addi16sp 16 *)
Example C05_ex_c_li_sp : ex_run_c "li" ["sp"; "0x12010"] (lit 73744) 2 4096 [2] = Some ([55; 33; 1; 0; 65; 97], [73744], 4102).
Proof. vm_compute. reflexivity. Qed.
(* li a0, 0x12345678 -> lui ; addi (8 bytes, nothing compressible) *)
Example C05_ex_c_li_long : ex_run_c "li" ["a0"; "0x12345678"] (lit 305419896) 2 4096 [10] = Some ([55; 85; 52; 18; 19; 5; 133; 103], [305419896], 4104).
Proof. vm_compute. reflexivity. Qed.
(* li x0, 0 -> c.nop ; li x0, 0x1000 -> lui x0, 1 ; c.nop *)
Example C05_ex_c_li_x0 : ex_run_c "li" ["x0"; "0"] (lit 0) 1 4096 [0; 1] = Some ([1; 0], [0; 1001], 4098).
Proof. vm_compute. reflexivity. Qed.
Example C05_ex_c_li_x0_long : ex_run_c "li" ["x0"; "0x1000"] (lit 4096) 2 4096 [0; 1] = Some ([55; 16; 0; 0; 1; 0], [0; 1001], 4102).
Proof. vm_compute. reflexivity. Qed.
(* mv a0, a1 -> c.mv ; mv a0, x0 -> c.li a0, 0 ; mv x0, a0 -> addi (kept) *)
Example C05_ex_c_mv : ex_run_c "mv" ["a0"; "a1"] noimm 1 4096 [10; 11] = Some ([46; 133], [1011; 1011], 4098).
Proof. vm_compute. reflexivity. Qed.
Example C05_ex_c_mv_from_x0 : ex_run_c "mv" ["a0"; "x0"] noimm 1 4096 [10] = Some ([1; 69], [0], 4098).
Proof. vm_compute. reflexivity. Qed.
Example C05_ex_c_nop : ex_run_c "nop" [] noimm 1 4096 [1] = Some ([1; 0], [1001], 4098).
Proof. vm_compute. reflexivity. Qed.
(* ret -> c.jr ra ; jalr a0 -> c.jalr a0 (links pc + 2) ; jr x0 cannot be compressed *)
Example C05_ex_c_ret : ex_run_c "ret" [] noimm 1 4096 [1] = Some ([130; 128], [1001], 1000).
Proof. vm_compute. reflexivity. Qed.
Example C05_ex_c_jalr : ex_run_c "jalr" ["a0"] noimm 1 4096 [1; 10] = Some ([2; 149], [4098; 1010], 1010).
Proof. vm_compute. reflexivity. Qed.
Example C05_ex_c_jr_x0 : ex_run_c "jr" ["x0"] noimm 1 4096 [1] = Some ([103; 0; 0; 0], [1001], 0).
Proof. vm_compute. reflexivity. Qed.
Example C05_ex_c_neg : ex_run_c "neg" ["s0"; "s0"] noimm 1 4096 [8] = Some ([51; 4; 128; 64], [4294966288], 4100).
Proof. vm_compute. reflexivity. Qed.

(* ==== the compressed rendering at RULE level, for every final layout (the form of C05_li ... C05_fence above) ====================
   `compress_rule consts l it p ls = Done its'` is what the second compression pass does to an item `it` standing at position p
   under the label table ls (Model/Passes.v transform_compressible = gpass (compress_rule consts));
   `each_compressed consts l its its'` (Proofs/CodeLine.v): every item of its replaced by what compress_rule returns for it, each
   at SOME position / label table.  The result is resolved and encoded (emit_bytes: the model's resolve_immediates,
   resolve_instructions, resolve_blobs) at WHATEVER final position pos' and label table labels', loaded and run.
   For the jumps / branches to a label the rule is selected on the distance seen when compressing, the offset encoded is the
   distance at the final layout -- and that is where the compressed instruction goes. *)
From BB Require Proofs.CodeLine Proofs.PseudoCompressedRule.
Import Proofs.CodeLine.

Theorem C05_li_compressed : forall consts l rd rest e pos labels its,
  pseudo_rule consts l (IPseudo "li" (rd :: rest) (POk e)) pos labels = Done its ->
  forall its', each_compressed consts l its its' ->
  forall pos' labels' bs, emit_bytes l consts labels' pos' its' = Done bs ->
  exists nrd v len, regnum (AStr rd) = Some nrd /\ eval_here l pos' consts labels' e = Done v /\
    In len [2; 4; 6; 8] /\ zlen bs = len /\
    forall s, loaded s bs ->
      exists s', run_n (List.length its) s = Some s' /\ pc s' = wrap (pc s + len) /\ only_reg s s' nrd (wrap v).
Proof. exact PseudoCompressedRule.li_compressed. Qed.

Theorem C05_unary_compressed : forall name f, In (name, f) unary_doc ->
  forall l consts rd rs pimm,
  exists it, expand_pseudo l name [rd; rs] pimm = Done (One it) /\
  forall p ls its', compress_rule consts l it p ls = Done its' ->
  forall pos' labels' bs, emit_bytes l consts labels' pos' its' = Done bs ->
  exists nrd nrs len, regnum (AStr rd) = Some nrd /\ regnum (AStr rs) = Some nrs /\ (len = 2 \/ len = 4) /\ zlen bs = len /\
    forall s, loaded s bs ->
      exists s', run_n 1 s = Some s' /\ pc s' = wrap (pc s + len) /\ only_reg s s' nrd (f (getr s nrs)).
Proof. exact PseudoCompressedRule.unary_compressed. Qed.

(* beqz / bnez may become c.beqz / c.bnez (rs in x8..x15, the label within +-256 bytes when the rule is consulted) *)
Theorem C05_branch_zero_compressed : forall name c, In (name, c) branchz_doc ->
  forall l consts rs ref pimm,
  exists it, expand_pseudo l name [rs; ref] pimm = Done (One it) /\
  forall p ls its', compress_rule consts l it p ls = Done its' ->
  forall pos' labels' bs, emit_bytes l consts labels' pos' its' = Done bs ->
  exists nrs dest len, regnum (AStr rs) = Some nrs /\ chain_get consts labels' ref = Some dest /\ (len = 2 \/ len = 4) /\
    zlen bs = len /\
    forall s, loaded s bs ->
      exists s', run_n 1 s = Some s' /\ no_reg s s' /\
        pc s' = if c (getr s nrs) then wrap (pc s + (dest - pos')) else wrap (pc s + len).
Proof. exact PseudoCompressedRule.branchz_compressed. Qed.

(* bgt ble bgtu bleu are never compressed (no rule for blt / bge / bltu / bgeu): C05_branch_two is their compressed rendering too *)
Theorem C05_branch_two_compressed : forall name c, In (name, c) branch2_doc ->
  forall l consts rs rt ref pimm,
  exists it, expand_pseudo l name [rs; rt; ref] pimm = Done (One it) /\
  forall p ls its', compress_rule consts l it p ls = Done its' -> its' = [it].
Proof. exact PseudoCompressedRule.branch2_compressed. Qed.

(* j -> c.j, jal -> c.jal: reach the label; link none / x1 <- pc + length *)
Theorem C05_j_jal_compressed : forall name link, In (name, link) jump_doc ->
  forall l consts ref pimm,
  exists it, expand_pseudo l name [ref] pimm = Done (One it) /\
  forall p ls its', compress_rule consts l it p ls = Done its' ->
  forall pos' labels' bs, emit_bytes l consts labels' pos' its' = Done bs ->
  exists dest len, chain_get consts labels' ref = Some dest /\ (len = 2 \/ len = 4) /\ zlen bs = len /\
    forall s, loaded s bs ->
      exists s', run_n 1 s = Some s' /\ pc s' = wrap (pc s + (dest - pos')) /\ only_reg s s' link (wrap (pc s + len)).
Proof. exact PseudoCompressedRule.jump_compressed. Qed.

Theorem C05_jr_jalr_compressed : forall name link, In (name, link) jumpr_doc ->
  forall l consts rs pimm,
  exists it, expand_pseudo l name [rs] pimm = Done (One it) /\
  forall p ls its', compress_rule consts l it p ls = Done its' ->
  forall pos' labels' bs, emit_bytes l consts labels' pos' its' = Done bs ->
  exists nrs len, regnum (AStr rs) = Some nrs /\ (len = 2 \/ len = 4) /\ zlen bs = len /\
    forall s, loaded s bs ->
      exists s', run_n 1 s = Some s' /\ pc s' = getr s nrs - getr s nrs mod 2 /\ only_reg s s' link (wrap (pc s + len)).
Proof. exact PseudoCompressedRule.jumpr_compressed. Qed.

Theorem C05_ret_compressed : forall l consts args pimm,
  exists it, expand_pseudo l "ret" args pimm = Done (One it) /\
  forall p ls its', compress_rule consts l it p ls = Done its' ->
  forall pos' labels' bs, emit_bytes l consts labels' pos' its' = Done bs ->
  exists len, (len = 2 \/ len = 4) /\ zlen bs = len /\
    forall s, loaded s bs -> exists s', run_n 1 s = Some s' /\ pc s' = getr s 1 - getr s 1 mod 2 /\ no_reg s s'.
Proof. exact PseudoCompressedRule.ret_compressed. Qed.

(* call / tail, one-instruction form (jal x1 -> c.jal, jal x0 -> c.j) *)
Theorem C05_call_tail_near_compressed : forall name link scratch, In (name, (link, scratch)) calltail_doc ->
  forall consts l ref pimm pos labels it,
  pseudo_rule consts l (IPseudo name [ref] pimm) pos labels = Done [it] ->
  forall p ls its', compress_rule consts l it p ls = Done its' ->
  forall pos' labels' bs, emit_bytes l consts labels' pos' its' = Done bs ->
  exists dest len, chain_get consts labels' ref = Some dest /\ (len = 2 \/ len = 4) /\ zlen bs = len /\
    forall s, loaded s bs ->
      exists s', run_n 1 s = Some s' /\ pc s' = wrap (pc s + (dest - pos')) /\ only_reg s s' link (wrap (pc s + len)).
Proof. exact PseudoCompressedRule.calltail_near_compressed. Qed.

(* call / tail, two-instruction form: x1 <- the address after the pair (pc + length of the pair) *)
Theorem C05_call_far_compressed : forall consts l ref pimm pos labels it1 it2,
  pseudo_rule consts l (IPseudo "call" [ref] pimm) pos labels = Done [it1; it2] ->
  forall its', each_compressed consts l [it1; it2] its' ->
  forall pos' labels' bs, emit_bytes l consts labels' pos' its' = Done bs ->
  exists dest len, chain_get consts labels' ref = Some dest /\ (len = 6 \/ len = 8) /\ zlen bs = len /\
    forall s, loaded s bs ->
      exists s', run_n 2 s = Some s' /\
        pc s' = wrap (pc s + (dest - pos')) - wrap (pc s + (dest - pos')) mod 2 /\
        only_reg s s' 1 (wrap (pc s + len)).
Proof. exact PseudoCompressedRule.call_far_compressed. Qed.

Theorem C05_tail_far_compressed : forall consts l ref pimm pos labels it1 it2,
  pseudo_rule consts l (IPseudo "tail" [ref] pimm) pos labels = Done [it1; it2] ->
  forall its', each_compressed consts l [it1; it2] its' ->
  forall pos' labels' bs, emit_bytes l consts labels' pos' its' = Done bs ->
  exists dest len, chain_get consts labels' ref = Some dest /\ (len = 6 \/ len = 8) /\ zlen bs = len /\
    forall s, loaded s bs ->
      exists s', run_n 2 s = Some s' /\
        pc s' = wrap (pc s + (dest - pos')) - wrap (pc s + (dest - pos')) mod 2 /\
        only_reg s s' 6 (wrap (pc s + relocate_hi (dest - pos') * 4096)).
Proof. exact PseudoCompressedRule.tail_far_compressed. Qed.

Theorem C05_nop_compressed : forall l consts args pimm,
  exists it, expand_pseudo l "nop" args pimm = Done (One it) /\
  forall p ls its', compress_rule consts l it p ls = Done its' ->
  forall pos' labels' bs, emit_bytes l consts labels' pos' its' = Done bs ->
  exists len, (len = 2 \/ len = 4) /\ zlen bs = len /\
    forall s, loaded s bs -> exists s', run_n 1 s = Some s' /\ pc s' = wrap (pc s + len) /\ no_reg s s'.
Proof. exact PseudoCompressedRule.nop_compressed. Qed.

Theorem C05_fence_compressed : forall l consts args pimm,
  exists it, expand_pseudo l "fence" args pimm = Done (One it) /\
  forall p ls its', compress_rule consts l it p ls = Done its' ->
  forall pos' labels' bs, emit_bytes l consts labels' pos' its' = Done bs ->
  zlen bs = 4 /\ forall s, loaded s bs -> exists s', run_n 1 s = Some s' /\ pc s' = wrap (pc s + 4) /\ no_reg s s'.
Proof. exact PseudoCompressedRule.fence_compressed. Qed.

Definition C05_compressed_rule_theorems := (C05_li_compressed, C05_unary_compressed, C05_branch_zero_compressed,
  C05_branch_two_compressed, C05_j_jal_compressed, C05_jr_jalr_compressed, C05_ret_compressed, C05_call_tail_near_compressed,
  C05_call_far_compressed, C05_tail_far_compressed, C05_nop_compressed, C05_fence_compressed).
Print Assumptions C05_compressed_rule_theorems.

(* concrete runs at rule level: expansion by pseudo_rule at (pos, labels); every emitted item through compress_rule at its
   position under the same labels; the result resolved at the FINAL layout (pos', labels'), loaded at base and run;
   result: (bytes, registers asked, pc) *)
Fixpoint ex_compress (its : list item) (p : Z) (labels : envt) : option (list item) :=
  match its with
  | [] => Some []
  | it :: r => match compress_rule [] ex_line it p labels with
               | Done rs => match sizes rs, ex_compress r (p + 4) labels with
                            | Done _, Some r' => Some (rs ++ r')
                            | _, _ => None
                            end
               | _ => None
               end
  end.
Definition ex_run_rule (name : string) (args : list string) (pimm : pres expr) (labels : envt) (pos : Z) (labels' : envt) (pos' : Z)
  (base : Z) (ask : list Z) : option (list Z * list Z * Z) :=
  match pseudo_rule [] ex_line (IPseudo name args pimm) pos labels with
  | Done its =>
      match ex_compress its pos labels with
      | Some its' =>
          match emit_bytes ex_line [] labels' pos' its' with
          | Done bs => match run_n (List.length its) (ex_state base bs) with
                       | Some s' => Some (bs, map (getr s') ask, pc s')
                       | None => None
                       end
          | _ => None
          end
      | None => None
      end
  | _ => None
  end.
(* j T: T is 4 bytes ahead when the rule is consulted, 2 bytes ahead in the final layout (the jump itself shrank): c.j +2 *)
Example C05_ex_c_j : ex_run_rule "j" ["T"] noimm [("T", 4)] 0 [("T", 2)] 0 4096 [1] = Some ([9; 160], [1001], 4098).
Proof. vm_compute. reflexivity. Qed.
(* beqz s0, T backwards, taken or not *)
Example C05_ex_c_beqz_not_taken : ex_run_rule "beqz" ["s0"; "T"] noimm [("T", 0)] 16 [("T", 0)] 12 4108 [8] = Some ([117; 216], [1008], 4110).
Proof. vm_compute. reflexivity. Qed.
Example C05_ex_c_bnez_taken : ex_run_rule "bnez" ["s0"; "T"] noimm [("T", 0)] 16 [("T", 0)] 12 4108 [8] = Some ([117; 248], [1008], 4096).
Proof. vm_compute. reflexivity. Qed.
(* call T, near: c.jal, x1 <- pc + 2 *)
Example C05_ex_c_call_near : ex_run_rule "call" ["T"] noimm [("T", 256)] 0 [("T", 200)] 0 4096 [1; 6] = Some ([225; 32], [4098; 1006], 4296).
Proof. vm_compute. reflexivity. Qed.

(* ... and as whole PROGRAMS with labels:   t0: <pseudo> ref ; t2:   through all 16 passes with compress = true (the pipeline on
   this three-line program: Proofs/CodeLine.v one_instr_between_labels).  ref may be t0 (backwards, distance 0) or t2 (forwards).
   When the instruction is rendered in 16 bits the label t2 moves from 4 to 2 and the offset encoded is the final distance. *)
Theorem C05_j_jal_program_compressed : forall name link, In (name, link) jump_doc ->
  forall l0 l1 l2 t0 t2 ref pimm r,
  assemble_items [(l0, ILabel t0); (l1, IPseudo name [ref] pimm); (l2, ILabel t2)] [] [] true = Done r ->
  exists dest len, chain_get [] (r_labels r) ref = Some dest /\ (len = 2 \/ len = 4) /\
    zlen (flat_map PseudoEmit.chunk_bytes (r_chunks r)) = len /\ r_labels r = [(t0, 0); (t2, len)] /\
    forall s, loaded s (flat_map PseudoEmit.chunk_bytes (r_chunks r)) ->
      exists s', run_n 1 s = Some s' /\ pc s' = wrap (pc s + dest) /\ only_reg s s' link (wrap (pc s + len)).
Proof. exact PseudoCompressedRule.jump_between_labels. Qed.

Theorem C05_branch_zero_program_compressed : forall name c, In (name, c) branchz_doc ->
  forall l0 l1 l2 t0 t2 rs ref pimm r,
  assemble_items [(l0, ILabel t0); (l1, IPseudo name [rs; ref] pimm); (l2, ILabel t2)] [] [] true = Done r ->
  exists nrs dest len, regnum (AStr rs) = Some nrs /\ chain_get [] (r_labels r) ref = Some dest /\ (len = 2 \/ len = 4) /\
    zlen (flat_map PseudoEmit.chunk_bytes (r_chunks r)) = len /\ r_labels r = [(t0, 0); (t2, len)] /\
    forall s, loaded s (flat_map PseudoEmit.chunk_bytes (r_chunks r)) ->
      exists s', run_n 1 s = Some s' /\ no_reg s s' /\
        pc s' = if c (getr s nrs) then wrap (pc s + dest) else wrap (pc s + len).
Proof. exact PseudoCompressedRule.branchz_between_labels. Qed.

Definition C05_compressed_label_programs := (C05_j_jal_program_compressed, C05_branch_zero_program_compressed).
Print Assumptions C05_compressed_label_programs.

Definition ex_prog3 (name : string) (args : list string) : list litem :=
  [(ex_line, ILabel "A"); (ex_line, IPseudo name args noimm); (ex_line, ILabel "B")].
Example C05_ex_c_program_j_forward :
  exists r, assemble_items (ex_prog3 "j" ["B"]) [] [] true = Done r /\ r_labels r = [("A", 0); ("B", 2)]
            /\ flat_map PseudoEmit.chunk_bytes (r_chunks r) = [9; 160].
Proof. eexists. repeat split; vm_compute; reflexivity. Qed.
Example C05_ex_c_program_bnez_backward :
  exists r, assemble_items (ex_prog3 "bnez" ["a5"; "A"]) [] [] true = Done r /\ r_labels r = [("A", 0); ("B", 2)]
            /\ flat_map PseudoEmit.chunk_bytes (r_chunks r) = [129; 227].
Proof. eexists. repeat split; vm_compute; reflexivity. Qed.
Example C05_ex_c_program_bnez_not_compressible :
  exists r, assemble_items (ex_prog3 "bnez" ["t0"; "B"]) [] [] true = Done r /\ r_labels r = [("A", 0); ("B", 4)]
            /\ List.length (flat_map PseudoEmit.chunk_bytes (r_chunks r)) = 4%nat.
Proof. eexists. repeat split; vm_compute; reflexivity. Qed.

(* The generic step behind the label-free theorems above (Proofs/RuleStep.v), for any item view i: when the GENERATED selection
   picks rule r for i and the compressed encoder accepts operands args that READ (Spec/Operands.v operands16: any register
   spelling) as the numeric operands of the rule, the halfword executes -- one step of the fetching machine -- exactly like the
   32-bit instruction ins that the view names, taken with length 2: same pc, same register readings, the same memory
   (ostrong / strong_eq: Proofs/RuleStep.v).  Built from the C04 rule sweeps (C04_rule_sound), C02 and the halfword fetch. *)
From BB Require Gen.Criteria Spec.RVC Proofs.Rules Proofs.RulesMain Proofs.RulesSem Proofs.RuleStep.
Theorem C05_rule_step : forall i r final cls cfs args h,
  select_rule Gen.Criteria.criteria i = Ok (Some r) -> Rules.wf_view (Rules.nview_of i) ->
  assoc_str r Gen.Criteria.construction = Some (final, cls, cfs) ->
  Model.Encode.encode final args [] = Ok h ->
  (forall ops, operands16 final args = Some ops -> operands16 final (RulesMain.pos16_of (Rules.nview_of i) cfs) = Some ops) ->
  exists fs0 o32 ins,
    Rules.orig_fields (iv_name i) = Some fs0 /\ operands32 (iv_name i) (RulesMain.pos32_of (Rules.nview_of i) fs0) [] = Some o32 /\
    denote32 (iv_name i) o32 = Some ins /\
    forall s, loaded s (RulesSem.half_bytes h) -> RuleStep.ostrong (run_n 1 s) (step ins 2 s).
Proof. exact RuleStep.rule_step. Qed.
Print Assumptions C05_rule_step.

(* ---- the model is a FUNCTION of the program and the options, and so is the code it models: the effect summary regenerated from asm.py
   passes summary_ok (no module-level object written by anything reachable from assemble(), no mutable default, no set iteration order
   consumed; Proofs/Effects.v noninterference) -- a memo table or cache that outlives a call makes a pure model unfaithful *)
From BB Require Gen.Effects Proofs.Effects Proofs.EffectsOk.
Theorem C05_assemble_is_a_function_of_its_inputs : Proofs.Effects.summary_ok Gen.Effects.summary = true.
Proof. exact Proofs.EffectsOk.summary_ok_holds. Qed.
Print Assumptions C05_assemble_is_a_function_of_its_inputs.

(* ---- resolve_register_aliases as the source has it (Gen/Guards.v; Proofs/Guards.v): the item is rebuilt from ALL its fields in order,
   only a register field whose value is a constant name changes -- the immediate, is_auipc_jump, aq / rl and the fence sets survive *)
From BB Require Gen.Guards Proofs.Guards.
Theorem C05_register_aliases_from_source : Proofs.Guards.register_aliases_from_source_stmt.
Proof. exact Proofs.Guards.register_aliases_from_source. Qed.
Print Assumptions C05_register_aliases_from_source.
