(* C09 -- the output is the concatenation of the per-item encodings in source order; `align N` pads minimally.
   Statements only; model = Model/Passes.v (assemble_items), tied to asm.assemble by the pipeline correspondence
   (per-item blobs observed at resolve_blobs; real output = concatenation of those blobs is checked there). *)
From Coq Require Import ZArith List String.
From BB Require Import Base.PyBase Model.Items Model.Passes Proofs.Layout Proofs.LayoutInst Proofs.Pipeline Proofs.Examples Gen.Sizes Proofs.SizesTable Gen.PassTable Proofs.PassOrder.
Import ListNotations.
Open Scope Z_scope.

(* Everything the run emits, for programs with `align N`, N >= 1, and unique labels, both modes:
   pa  = the items before alignment: code items stay code of the same source line, every other item is kept as it is,
         constant definitions vanish (grouped Rkeep);
   al  = after resolve_aligns: every item is kept except `align N`, which, standing at OUTPUT offset p, becomes
         exactly (N - p mod N) mod N zero bytes (pgrouped Ralign: 0 <= pad < N, (p + pad) mod N = 0);
   fin = the final items: same line, same label-ness, same SIZE as in al (Forall2 same1) -- so offsets in al are final
         offsets and every size() announced earlier is the size emitted;
   the chunks are exactly the non-label items of fin, in order, chunk length = item size (blobbed);
   nothing else is emitted. *)
Theorem C09_layout :
  forall its consts0 labels0 compress r,
    assemble_items its consts0 labels0 compress = Done r -> nonneg its -> layout_facts its r /\ NoDup (gnames its).
Proof. exact pipeline_layout. Qed.
Print Assumptions C09_layout.

(* the padding is the MINIMAL one: no smaller non-negative count reaches a multiple of N *)
Theorem C09_padding_minimal :
  forall p n k, 1 <= n -> 0 <= k -> (p + k) mod n = 0 -> (n - p mod n) mod n <= k.
Proof. exact pad_minimal. Qed.
Print Assumptions C09_padding_minimal.

(* what resolve_aligns does with one item, spelled out *)
Theorem C09_align_item :
  forall p l n g, 1 <= n -> Ralign p (l, IAlign n) g ->
    let pad := (n - p mod n) mod n in
    g = (if pad =? 0 then [] else [(l, IZeros pad)]) /\ total g = pad /\ 0 <= pad < n /\ (p + pad) mod n = 0.
Proof. intros p l n g Hn H. destruct (H Hn) as (A & B & C & D & E). repeat split; auto. Qed.
Print Assumptions C09_align_item.

(* total output size = sum of the chunk lengths = sum of the final item sizes *)
Theorem C09_total : forall fin cs, blobbed fin cs -> total fin = fold_right (fun c a => chunk_len (snd c) + a) 0 cs.
Proof. exact blobbed_total. Qed.
Print Assumptions C09_total.

Example C09_example :
  nonneg ex_its /\ NoDup (gnames ex_its) /\
  (exists r, assemble_items ex_its [] [] true = Done r /\ r_labels r = [("a", 0); ("b", 8)]%string).
Proof. exact (conj ex_nonneg (conj ex_nodup ex_runs_c)). Qed.

(* the size() the layout statements add up is the size() of the SOURCE: the model's [size] equals the description regenerated
   on every run from the size() methods of asm.py (Gen/Sizes.v; Proofs/SizesTable.v) *)
Theorem C09_size_from_source : forall it,
  size it = match assoc_str (SizesTable.class_of it) Gen.Sizes.size_kinds with
            | Some k => SizesTable.size_by_kind k it | None => None end.
Proof. exact SizesTable.size_table. Qed.
Print Assumptions C09_size_from_source.

(* "in order": the composition of passes the layout theorems are about is the composition the SOURCE performs -- assemble_items
   equals the interpretation of the pass order regenerated on every run from asm.assemble (names, arguments, `if compress:`
   guards; Gen/PassTable.v), so moving a pass (e.g. resolve_aligns in front of the second transform_compressible) breaks this
   proof obligation *)
Theorem C09_pass_order_from_source : forall its consts0 labels0 compress,
  assemble_items its consts0 labels0 compress =
  obind (PassOrder.run Gen.PassTable.pass_order compress
           {| PassOrder.ps_items := its; PassOrder.ps_consts := consts0; PassOrder.ps_labels := labels0; PassOrder.ps_chunks := None |})
        PassOrder.finish.
Proof. exact PassOrder.assemble_is_pass_order. Qed.
Print Assumptions C09_pass_order_from_source.

(* the padding is computed by the SOURCE's own formula: Align.resolution_size is translated on every run (Gen/Sizes.v
   align_resolution_size), it is what the alignment pass of the model applies, and it equals the documented minimal padding
   (N - p mod N) mod N for EVERY N >= 1 and every position -- an edit of the formula (e.g. the bitmask form
   -position & (N - 1), right for powers of two only) breaks this proof *)
Theorem C09_padding_from_source :
  (forall l n pos ls, align_rule l (IAlign n) pos ls =
     if n =? 0 then Fail (PRaw OtherExn)
     else let p := Gen.Sizes.align_resolution_size n pos in if p =? 0 then Done [] else Done [IZeros p]) /\
  (forall n pos, 1 <= n -> Gen.Sizes.align_resolution_size n pos = (n - pos mod n) mod n).
Proof. split. exact SizesTable.align_rule_from_source. exact SizesTable.resolution_size_spec. Qed.
Print Assumptions C09_padding_from_source.

(* ---- the position bookkeeping of the SOURCE, path by path (Gen/Book.v, regenerated on every run; Proofs/Book.v): in resolve_labels,
   both compression passes, the pseudo-instruction pass, resolve_aligns and resolve_immediates every appended item is paired with exactly
   one `position += <its size>` and nothing else advances the position -- what the pass model's running position assumes *)
From BB Require Gen.Book Proofs.Book.
Theorem C09_position_bookkeeping_from_source : Proofs.Book.bookkeeping_ok = true.
Proof. exact Proofs.Book.bookkeeping_from_source. Qed.
Print Assumptions C09_position_bookkeeping_from_source.

(* ---- the model is a FUNCTION of the program and the options, and so is the code it models: the effect summary regenerated from asm.py
   passes summary_ok (no module-level object written by anything reachable from assemble(), no mutable default, no set iteration order
   consumed; Proofs/Effects.v noninterference) -- a memo table or cache that outlives a call makes a pure model unfaithful *)
From BB Require Gen.Effects Proofs.Effects Proofs.EffectsOk.
Theorem C09_assemble_is_a_function_of_its_inputs : Proofs.Effects.summary_ok Gen.Effects.summary = true.
Proof. exact Proofs.EffectsOk.summary_ok_holds. Qed.
Print Assumptions C09_assemble_is_a_function_of_its_inputs.

(* ==== C09 at the level of the TEXT of a file ==========================================================================================
   Proofs/Program.v assemble_text: lines of one file -> lexer model -> parser model -> the 16 passes (Proofs/TextLayout.v). *)
From BB Require Model.Lexer Model.Parser Proofs.Program Proofs.TextGroups Proofs.TextTrack Proofs.TextLayout.
Import Model.Lexer Model.Parser Proofs.Program Proofs.TextGroups Proofs.TextTrack Proofs.TextLayout.
Open Scope list_scope.

(* for a text that assembles (either mode, any initial constants / labels): the chunks are the concatenation, in text order, of ONE
   group per line; group i stands at the total length of the groups in front of it (groups_at) and is what line_layout allows for
   line i at that offset *)
Theorem C09_text_in_order :
  forall ls c0 l0 cmp r,
    assemble_text ls c0 l0 cmp = TDone r ->
    exists gs, r_chunks r = List.concat gs /\ groups_at csz (line_layout r) 0 ls gs.
Proof. exact text_concat. Qed.
Print Assumptions C09_text_in_order.

(* line_layout, spelled out: every chunk of the group carries the line it came from; a blank / comment-only line, a label line and a
   constant definition contribute nothing (the label is bound to the offset the line stands at); `align N` (N >= 1 is enforced by the
   parser) contributes exactly (N - p mod N) mod N zero bytes -- no chunk at all when that is 0; a data line (string, bytes .. longlongs,
   pack, db .. dd) contributes one chunk of the size its item announces; an instruction or pseudo-instruction line contributes chunks
   of that line only, each 2 or 4 bytes long (what they are when the line is a transfer to a label: the C03_text theorems) *)
Theorem C09_line_layout :
  forall r p lt g,
    line_layout r p lt g <->
    (Forall (fun c : line * chunk => fst c = fst lt) g /\
     match front_line (fst lt) (snd lt) with
     | FOk None => g = []
     | FOk (Some it) =>
         match it with
         | ILabel n => g = [] /\ assoc_str n (r_labels r) = Some p
         | IConst _ _ => g = []
         | IAlign n => 1 <= n /\ g = (let pad := (n - p mod n) mod n in if Z.eqb pad 0 then [] else [(fst lt, CZeros pad)])
         | IInstr _ _ _ _ | IPseudo _ _ _ => Forall (fun c : line * chunk => chunk_len (snd c) = 2 \/ chunk_len (snd c) = 4) g
         | _ => exists c, g = [(fst lt, c)] /\ chunk_len c = isz it
         end
     | _ => False
     end).
Proof. intros. reflexivity. Qed.
Print Assumptions C09_line_layout.

(* the same as a relation (one group after the other), used to speak about a line in the middle of the text *)
Theorem C09_text_layout :
  forall ls c0 l0 cmp r, assemble_text ls c0 l0 cmp = TDone r -> text_layout r 0 ls (r_chunks r).
Proof. exact text_in_order. Qed.
Print Assumptions C09_text_layout.

(* an `align N` line of the text: with p = the total length of the chunks of the lines in front of it, it contributes
   pad = (N - p mod N) mod N zero bytes, 0 <= pad < N, p + pad is a multiple of N, and no smaller non-negative count reaches one *)
Theorem C09_text_align :
  forall ls c0 l0 cmp r,
    assemble_text ls c0 l0 cmp = TDone r ->
    forall ls1 l text ls2 n, ls = ls1 ++ (l, text) :: ls2 -> front_line l text = FOk (Some (IAlign n)) ->
      exists cs1 cs2, let p := tot csz cs1 in let pad := (n - p mod n) mod n in
        1 <= n /\ r_chunks r = cs1 ++ (if Z.eqb pad 0 then [] else [(l, CZeros pad)]) ++ cs2 /\
        text_layout r 0 ls1 cs1 /\ text_layout r (p + pad) ls2 cs2 /\
        0 <= pad < n /\ (p + pad) mod n = 0 /\ (forall k, 0 <= k -> (p + k) mod n = 0 -> pad <= k).
Proof. exact text_align. Qed.
Print Assumptions C09_text_align.

(* which lines are `align N` lines *)
Theorem C09_align_lines :
  forall l text t0 a n, lex_tokens text = Some [t0; a] -> lower t0 = "align"%string -> py_int_lit a = Some n -> 1 <= n ->
    front_line l text = FOk (Some (IAlign n)).
Proof. exact align_line. Qed.
Print Assumptions C09_align_lines.

(* non-vacuity: start: / beq x8, zero, done / (blank) / align 8 / dw 0x12345678 / K = 5 / done: / jal x1, start / bnez x9, start / j done
   assembles in both modes; the align line stands at 4 (resp. 2 with compression) and contributes 4 (resp. 6) zero bytes *)
Example C09_text_example :
  (forall cmp, assemble_text ex_text [] [] cmp = TDone (ex_result cmp)) /\
  ex_text = firstn 3 ex_text ++ (exT 4, "    align 8")%string :: skipn 4 ex_text /\
  front_line (exT 4) "    align 8" = FOk (Some (IAlign 8)) /\
  r_chunks (ex_result false) = [(exT 2, CBytes [99; 6; 4; 0])] ++ [(exT 4, CZeros ((8 - 4 mod 8) mod 8))] ++ skipn 2 (r_chunks (ex_result false)) /\
  r_chunks (ex_result true) = [(exT 2, CBytes [17; 196])] ++ [(exT 4, CZeros ((8 - 2 mod 8) mod 8))] ++ skipn 2 (r_chunks (ex_result true)).
Proof. split. exact ex_text_runs. repeat split; reflexivity. Qed.
