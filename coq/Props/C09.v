(* placeholder *)
From Coq Require Import ZArith.
Theorem C09_placeholder : True. Proof. exact I. Qed.
Print Assumptions C09_placeholder.
