(* C12 -- a program that assembles without compression also assembles with it.  Statements only (PARTIAL: see below). *)
From Coq Require Import ZArith List String Lia.
From BB Require Import Base.PyBase Gen.Encoders Gen.Criteria Spec.RV32 Spec.RVC Spec.Operands Spec.Legal
  Model.Items Model.Encode Model.Passes Proofs.Layout Proofs.Rules Proofs.RulesMain Proofs.Stable Proofs.Examples Proofs.Monotone.
Import ListNotations.
Open Scope Z_scope.

(* The FULL statement, for the model of the whole pipeline ... *)
Definition C12_full : Prop :=
  forall its consts labels, (exists r, assemble_items its consts labels false = Done r) ->
                            exists r', assemble_items its consts labels true = Done r'.
(* ... is REFUTED by the faithful model (and, replayed, by the real assembler -- known finding K1): a branch whose
   target lies behind an `align` that absorbs what compression saves in front of the branch ends up FARTHER from its
   target:  add / add / beq L / align 4096 / dw 0 / L:  is 4092 bytes away without compression, 4096 with it. *)
Theorem C12_refuted : ~ C12_full.
Proof.
  intro H. destruct (H ex12 [] [] ex12_uncompressed_ok) as [r' Hr]. rewrite ex12_compressed_fails in Hr. discriminate.
Qed.
Print Assumptions C12_refuted.
(* a second, independent witness (known finding K2): the ABSOLUTE value of a label inside a non-transfer immediate at the edge of
   its range -- add x8, x8, x9 / L: / addi x1, x0, 2050 - L -- is accepted without compression (L = 4) and refused with it (L = 2).
   No align is involved: any option that changes the layout changes what such a program means. *)
Theorem C12_refuted_label_arithmetic :
  (exists r, assemble_items ex13 [] [] false = Done r) /\ assemble_items ex13 [] [] true = Fail (PAsm (exL 3)).
Proof. split. exact ex13_uncompressed_ok. exact ex13_compressed_fails. Qed.
Print Assumptions C12_refuted_label_arithmetic.

(* K1 NEEDS the align.  In a program without align directives (assembled with no labels handed in, below 2 GiB) compression
   never moves two labels APART: for any two labels of the program the distance with -c is at most the distance without, in the
   same direction -- so a transfer that stands at a label and is in range of another label without -c stays in range with -c.
   (Two-run argument of C20: Proofs/Monotone.v labels_never_apart over the pairing of the two layouts.) *)
Theorem C12_no_align_labels_never_apart :
  forall its consts0 rU rC,
    nonneg its -> total its < 2 ^ 31 -> Monotone.no_align its = true ->
    assemble_items its consts0 [] false = Done rU -> assemble_items its consts0 [] true = Done rC ->
    forall L1 L2 a1 a2 b1 b2, In L1 (gnames its) -> In L2 (gnames its) ->
      assoc_str L1 (r_labels rU) = Some a1 -> assoc_str L2 (r_labels rU) = Some a2 ->
      assoc_str L1 (r_labels rC) = Some b1 -> assoc_str L2 (r_labels rC) = Some b2 ->
      Z.abs (b2 - b1) <= Z.abs (a2 - a1) /\ (a1 <= a2 -> b1 <= b2 \/ a1 = a2).
Proof. exact Monotone.compression_labels_never_apart. Qed.
Print Assumptions C12_no_align_labels_never_apart.
Example C12_no_align_example :       (* add / A: / add / add / B: / dw B : hypotheses hold; A..B is 8 bytes without -c, 4 with *)
  let its := [(exL 1, exR3 "add" "x8" "x8" "x9"); (exL 2, ILabel "A"); (exL 3, exR3 "add" "x9" "x9" "x8");
              (exL 4, exR3 "add" "x8" "x8" "x9"); (exL 5, ILabel "B"); (exL 6, IShort "dw" (FExpr (EArith (AName "B"))))]%string in
  nonneg its /\ total its < 2 ^ 31 /\ Monotone.no_align its = true /\
  (exists rU, assemble_items its [] [] false = Done rU /\ r_labels rU = [("A", 4); ("B", 12)]%string) /\
  (exists rC, assemble_items its [] [] true = Done rC /\ r_labels rC = [("A", 2); ("B", 6)]%string).
Proof.
  cbv zeta. split. { repeat constructor; try (unfold isz; simpl; lia); intros ? H; discriminate. }
  split. { vm_compute. reflexivity. } split. { reflexivity. }
  split; eexists; split; vm_compute; reflexivity.
Qed.

(* What IS proved.  The compression pass cannot introduce an encoding failure on a settled immediate: whenever a rule is selected the
   generated c.* encoder ACCEPTS the operands the construction row builds (for every register spelling and every
   integer immediate) ... *)
Theorem C12_selected_rule_is_accepted_partial :
  forall i r, select_rule criteria i = Ok (Some r) -> wf_view (nview_of i) ->
  exists fs final cls cfs h,
    orig_fields (iv_name i) = Some fs /\ assoc_str r construction = Some (final, cls, cfs) /\
    encode final (pos16_of (nview_of i) cfs) [] = Ok h.
Proof.
  intros i r Hs Hw. destruct (rule_encodes _ _ (rule_sound_item i r Hs Hw)) as (fs & final & cls & cfs & h & c & A & B & C & _).
  exists fs, final, cls, cfs, h. auto.
Qed.
Print Assumptions C12_selected_rule_is_accepted_partial.

(* ... and rules are consulted only for immediates that can no longer change, or for the distance of a jump / branch
   to a label.  MISSING for the full statement (not proved; decided by the falsifier only): (a) that such a distance
   only moves towards zero in the later passes, (b) the whole-program induction that every encode-time check passed
   in the uncompressed layout still passes in the compressed layout. *)
Theorem C12_decided_on_settled_partial : forall l pos consts cls fs e,
  field_get "imm" fs = Some (FExpr e) -> imm_unstable l pos consts cls fs = Done false ->
  jump_to_label consts cls e \/ exists v, forall pos' labels, eval_here l pos' consts labels e = Done v.
Proof. exact compress_decides_on_settled. Qed.
Print Assumptions C12_decided_on_settled_partial.

(* the size decisions of li / call / tail are likewise taken on settled values or on distances to labels *)
Theorem C12_li_near_settled_partial : forall consts l pos labels name args pimm e lo hi near f1 f2,
  expand_pseudo l name args pimm = Done (Choice e None lo hi near f1 f2) ->
  pseudo_rule consts l (IPseudo name args pimm) pos labels = Done [near] ->
  exists v, lo <= c_int32 v <= hi /\ forall pos' labels', eval_here l pos' consts labels' e = Done v.
Proof. exact li_near_final. Qed.
Print Assumptions C12_li_near_settled_partial.

Example C12_example : select_num criteria ex_view = Some "c.addi"%string /\ wf_view ex_view /\ regs_ok ex_view.
Proof. exact ex_view_selected. Qed.

(* ---- tie of the guards to the source (Gen/Guards.v, regenerated from asm.py on every run; Proofs/Guards.v) -------------------
   The model's `imm_unstable` (the test in front of the rule selection of transform_compressible), `is_settled` and
   `is_position_relative` ARE the interpretation of what the source says today: which classes are jumps, the class of the
   immediate, the dictionary the reference must not be in, the arguments handed to is_settled and by it to expr.eval. *)
From BB Require Gen.Guards Proofs.Guards.
Theorem C12_guard_from_source : forall l pos consts labels cls fs,
  imm_unstable l pos consts cls fs = Proofs.Guards.gen_imm_unstable l pos consts labels cls fs.
Proof. exact Proofs.Guards.guard_from_source. Qed.
Print Assumptions C12_guard_from_source.
Theorem C12_settled_from_source : forall l pos consts labels e,
  is_settled l pos consts e = Proofs.Guards.gen_is_settled Gen.Guards.cg_env Gen.Guards.cg_settled_args l pos consts labels e.
Proof. exact Proofs.Guards.settled_from_source. Qed.
Print Assumptions C12_settled_from_source.
Theorem C12_position_relative_from_source : forall e, is_position_relative e = Proofs.Guards.gen_posrel e.
Proof. exact Proofs.Guards.posrel_from_source. Qed.
Print Assumptions C12_position_relative_from_source.

(* ---- the order of the passes and the label updates, as the SOURCE has them today (Gen/PassTable.v; Proofs/PassOrder.v) *)
From BB Require Gen.PassTable Proofs.PassOrder.
Theorem C12_pass_order_from_source : forall its consts0 labels0 compress,
  assemble_items its consts0 labels0 compress =
  obind (Proofs.PassOrder.run Gen.PassTable.pass_order compress
           {| Proofs.PassOrder.ps_items := its; Proofs.PassOrder.ps_consts := consts0; Proofs.PassOrder.ps_labels := labels0;
              Proofs.PassOrder.ps_chunks := None |})
        Proofs.PassOrder.finish.
Proof. exact Proofs.PassOrder.assemble_is_pass_order. Qed.
Print Assumptions C12_pass_order_from_source.
Theorem C12_label_updates_from_source :
  forallb Proofs.PassOrder.update_ok Gen.PassTable.label_updates = true /\
  forallb (fun p => existsb (fun u => String.eqb (fst (fst u)) p) Gen.PassTable.label_updates)
          ["transform_compressible"; "transform_pseudo_instructions"; "resolve_aligns"]%string = true.
Proof. exact Proofs.PassOrder.label_updates_ok. Qed.
Print Assumptions C12_label_updates_from_source.

(* ---- the model is a FUNCTION of the program and the options, and so is the code it models: the effect summary regenerated from asm.py
   passes summary_ok (no module-level object written by anything reachable from assemble(), no mutable default, no set iteration order
   consumed; Proofs/Effects.v noninterference) -- a memo table or cache that outlives a call makes a pure model unfaithful *)
From BB Require Gen.Effects Proofs.Effects Proofs.EffectsOk.
Theorem C12_assemble_is_a_function_of_its_inputs : Proofs.Effects.summary_ok Gen.Effects.summary = true.
Proof. exact Proofs.EffectsOk.summary_ok_holds. Qed.
Print Assumptions C12_assemble_is_a_function_of_its_inputs.
From BB Require Import Proofs.AcceptClass Proofs.Accept Proofs.AcceptAll.

(* a third family of counterexamples (found while proving the positive half; the real assembler agrees): `%offset` of a CONSTANT --
   K = 4098 / add x8, x8, x9 / beq x0, x0, K  assembles without -c (K - 4 = 4094) and is refused with it (K - 2 = 4096).
   Like K2 it is position arithmetic on an absolute value, with no label and no align involved. *)
Definition ex14 : list litem :=
  [(exL 1, IConst "K" (EArith (ANum 4098))); (exL 2, exR3 "add" "x8" "x8" "x9");
   (exL 3, IInstr "BTypeInstruction" "beq" [("rs1", FReg (AStr "x0")); ("rs2", FReg (AStr "x0")); ("imm", FExpr (EOff "K"))] false)]%string.
Theorem C12_refuted_offset_of_constant :
  (exists r, assemble_items ex14 [] [] false = Done r) /\ assemble_items ex14 [] [] true = Fail (PAsm (exL 3)).
Proof. split. eexists; vm_compute; reflexivity. vm_compute. reflexivity. Qed.
Print Assumptions C12_refuted_offset_of_constant.

(* THE POSITIVE HALF.  On the class of programs that avoids the refutations the statement holds (Proofs/Accept*.v):
   `accept_class_gen true (names of the given constants) its` (Proofs/AcceptClass.v, a boolean) says
     - every item is parser-shaped (okb 0 of Proofs/NoRaw.v) and has a non-negative size,
     - there is no `align` item,
     - every expression in an item (instruction immediates, li, data values of db..dd / pack) is label-free and not position-relative
       (`lf`: no name in it is a label of the program, no %offset),
       EXCEPT the target `%offset(L)` of a B-type / J-type instruction (which then carries no is_auipc_jump field) and of the
       pseudo-instructions beqz .. bleu, j, jal, call, tail, where L is a label of the program and not a constant,
       and EXCEPT a data value that is exactly the name of such a label (`dw L`: its offset only moves towards 0),
     - a jalr item carries its is_auipc_jump field (every parsed item does).
   Initial labels: none (labels0 = []); initial constants: any; total size below 2 GiB (call / tail wrap the distance to 32 bits). *)
Theorem C12_accepts_without_align_and_label_arithmetic :
  forall its consts0 rU,
    accept_class_gen true (map fst consts0) its = true -> total its < 2 ^ 31 ->
    assemble_items its consts0 [] false = Done rU -> exists rC, assemble_items its consts0 [] true = Done rC.
Proof. exact accept_monotone_calls. Qed.
Print Assumptions C12_accepts_without_align_and_label_arithmetic.
(* without call / tail no bound on the size is needed *)
Theorem C12_accepts_without_calls :
  forall its consts0 rU,
    accept_class_gen false (map fst consts0) its = true ->
    assemble_items its consts0 [] false = Done rU -> exists rC, assemble_items its consts0 [] true = Done rC.
Proof. exact accept_monotone. Qed.
Print Assumptions C12_accepts_without_calls.

(* non-vacuity: top: add x8,x8,x9 / beqz x8, end / li x9, K / lw x10, 8(x8) / jal top / call top / tail end / end: dw 7 / dh end
   is in the class (with a given constant K = 5), assembles in both modes, and -c compresses seven of its instructions (30 bytes -> 14) *)
Example C12_accepts_example :
  let its := [(exL 1, ILabel "top"); (exL 2, exR3 "add" "x8" "x8" "x9");
              (exL 3, IPseudo "beqz" ["x8"; "end"] (PErr (PRaw OtherExn)));
              (exL 4, IPseudo "li" ["x9"; "K"] (POk (EArith (AName "K"))));
              (exL 5, IInstr "ITypeInstruction" "lw" [("rd", FReg (AStr "x10")); ("rs1", FReg (AStr "x8"));
                                                      ("imm", FExpr (EArith (ANum 8))); ("is_auipc_jump", FBool false)] false);
              (exL 6, IPseudo "jal" ["top"] (PErr (PRaw OtherExn)));
              (exL 7, IPseudo "call" ["top"] (PErr (PRaw OtherExn)));
              (exL 8, IPseudo "tail" ["end"] (PErr (PRaw OtherExn)));
              (exL 9, ILabel "end"); (exL 10, IShort "dw" (FExpr (EArith (ANum 7)))); (exL 11, IShort "dh" (FExpr (EArith (AName "end"))))]%string in
  let c0 := [("K", 5)]%string in
  accept_class_gen true (map fst c0) its = true /\ total its < 2 ^ 31 /\
  (exists rU, assemble_items its c0 [] false = Done rU /\ r_labels rU = [("top", 0); ("end", 28)]%string) /\
  (exists rC, assemble_items its c0 [] true = Done rC /\ r_labels rC = [("top", 0); ("end", 14)]%string).
Proof.
  cbv zeta. split. { vm_compute. reflexivity. } split. { vm_compute. reflexivity. }
  split; eexists; split; vm_compute; reflexivity.
Qed.

(* ---- Arithmetic.eval as the source has it (Gen/Guards.v): the expression text goes to the builtin eval as written, with no builtins and the
   environment handed in; the POSITION of the item plays no part (so an arithmetic expression without labels is settled); every
   exception becomes an AssemblerError at the line; the result must be an int *)
From BB Require Gen.Guards Proofs.Guards.
Theorem C12_arithmetic_eval_from_source : Proofs.Guards.arithmetic_eval_from_source_stmt.
Proof. exact Proofs.Guards.arithmetic_eval_from_source. Qed.
Print Assumptions C12_arithmetic_eval_from_source.
