(* placeholder *)
From Coq Require Import ZArith.
Theorem C12_placeholder : True. Proof. exact I. Qed.
Print Assumptions C12_placeholder.
