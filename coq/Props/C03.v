(* C03 -- control transfers land on their label; the label table is exact.  Statements only.
   `assemble_items` is the hand-written model of the 16 passes of asm.assemble (Model/Passes.v, tied to the code by
   the pipeline correspondence); it calls the GENERATED criteria / encoders / relocation functions.
   Quantifier: programs with `align N`, N >= 1 (nonneg); unique label names are ENFORCED: a successful run implies
   NoDup (gnames its) (a duplicate definition is refused). *)
From Coq Require Import ZArith List String.
From BB Require Import Base.PyBase Gen.Encoders Spec.RV32 Spec.RVC Spec.Operands Model.Items Model.Encode Model.Passes
  Proofs.Layout Proofs.Pipeline Proofs.Targets Proofs.Reloc Proofs.Examples.
Import ListNotations.
Open Scope Z_scope.

(* The label table returned by a successful run is EXACT, with compression off and on: there is a final item list
   [fin] in which (grouped Rsrc) every source item owns a contiguous group of items carrying its line and every label
   marker stays where the source put it, (blobbed) whose non-label items are the emitted chunks with
   chunk length = item size, and (exact) the value reported for each label is the total size of what precedes its
   marker -- i.e. the address of the bytes that follow the label in the output. *)
Theorem C03_labels :
  forall its consts0 labels0 compress r,
    assemble_items its consts0 labels0 compress = Done r -> nonneg its ->
    NoDup (gnames its) /\
    exists fin, grouped Rsrc its fin /\ blobbed fin (r_chunks r) /\ exact fin (r_labels r) /\ gnames fin = gnames its.
Proof. intros its c0 l0 cmp r H Hn. destruct (pipeline_layout its c0 l0 cmp r H Hn) as [F D]. split; [exact D|]. apply source_order. exact F. Qed.
Print Assumptions C03_labels.

(* every label of the program is in the table *)
Theorem C03_every_label :
  forall fin labels L, exact fin labels -> In L (gnames fin) -> exists q, goff L fin = Some q /\ assoc_str L labels = Some q.
Proof. intros fin labels L He Hi. destruct (in_goff L fin Hi) as [q Hq]. exists q. split; auto. Qed.
Print Assumptions C03_every_label.

(* The immediate of a transfer to label L, evaluated by resolve_immediates at final offset p with the final label
   table (C08_final), is q - p where q is L's value; pushed through the generated encoder, the Spec decodes the
   distance q - p: the transfer lands on p + (q - p) = q.  Branches, jal (also j / jal L / near call / tail): *)
Theorem C03_branch_lands :
  forall l p consts labels L q name a b z w,
    chain_get consts labels L = Some q -> imm_of l p consts labels (FExpr (EOff L)) = Done z ->
    In name branch_names -> encode name [a; b; AInt z] [] = Ok w ->
    exists c r1 r2, regnum a = Some r1 /\ regnum b = Some r2 /\ decode32 w = Some (Branch c r1 r2 (q - p)).
Proof. intros l p consts labels L q name a b z w Hq Hz Hn He. rewrite <- (eval_offset _ _ _ _ _ _ _ Hq Hz). eapply branch_decodes; eauto. Qed.
Print Assumptions C03_branch_lands.

Theorem C03_jal_lands :
  forall l p consts labels L q a z w,
    chain_get consts labels L = Some q -> imm_of l p consts labels (FExpr (EOff L)) = Done z ->
    encode "jal" [a; AInt z] [] = Ok w ->
    exists rd, regnum a = Some rd /\ decode32 w = Some (Jal rd (q - p)).
Proof. intros l p consts labels L q a z w Hq Hz He. rewrite <- (eval_offset _ _ _ _ _ _ _ Hq Hz). eapply jal_decodes; eauto. Qed.
Print Assumptions C03_jal_lands.

(* far call / tail: auipc at offset p carries %hi(L - p); the jalr that follows is evaluated at the auipc's
   position (is_auipc_jump) and carries %lo(L - p); pc-relative sum = q (mod 2^32) *)
Theorem C03_far_lands :
  forall l p consts labels L q a b c h lo w1 w2,
    chain_get consts labels L = Some q ->
    imm_of l p consts labels (FExpr (EHi (EOff L))) = Done h ->
    imm_of l p consts labels (FExpr (ELo (EOff L))) = Done lo ->
    encode "auipc" [a; AInt h] [] = Ok w1 -> encode "jalr" [b; c; AInt lo] [] = Ok w2 ->
    exists r1 r2 r3 hi', regnum a = Some r1 /\ regnum b = Some r2 /\ regnum c = Some r3 /\
      decode32 w1 = Some (Auipc r1 hi') /\ decode32 w2 = Some (Jalr r2 r3 lo) /\
      (p + hi' * 4096 + lo) mod 2^32 = q mod 2^32.
Proof.
  intros l p consts labels L q a b c h lo w1 w2 Hq Hh Hl H1 H2.
  destruct (auipc_jalr_decodes _ _ _ _ _ _ _ H1 H2) as (r1 & r2 & r3 & A & B & C & D1 & D2).
  exists r1, r2, r3, (upper_norm h). repeat split; auto.
  rewrite (eval_hi_offset _ _ _ _ _ _ _ Hq Hh), (eval_lo_offset _ _ _ _ _ _ _ Hq Hl), upper_norm_hi.
  replace (p + relocate_hi (q - p) * 4096 + relocate_lo (q - p)) with (p + (relocate_hi (q - p) * 4096 + relocate_lo (q - p))) by ring.
  rewrite <- Zplus_mod_idemp_r, hi_lo_rebuild, Zplus_mod_idemp_r. f_equal. ring.
Qed.
Print Assumptions C03_far_lands.

(* the compressed renderings chosen by the compression pass *)
Theorem C03_cj_lands :
  forall l p consts labels L q name z h,
    chain_get consts labels L = Some q -> imm_of l p consts labels (FExpr (EOff L)) = Done z ->
    In name ["c.j"; "c.jal"]%string -> encode name [AInt z] [] = Ok h ->
    exists ci, decode16 h = Some ci /\ expand_c ci = Jal (if String.eqb name "c.j" then 0 else 1) (q - p).
Proof. intros l p consts labels L q name z h Hq Hz Hn He. rewrite <- (eval_offset _ _ _ _ _ _ _ Hq Hz). eapply cj_decodes; eauto. Qed.
Print Assumptions C03_cj_lands.

Theorem C03_cb_lands :
  forall l p consts labels L q name a z h,
    chain_get consts labels L = Some q -> imm_of l p consts labels (FExpr (EOff L)) = Done z ->
    In name ["c.beqz"; "c.bnez"]%string -> encode name [a; AInt z] [] = Ok h ->
    exists ci r1 c, regnum a = Some r1 /\ decode16 h = Some ci /\ expand_c ci = Branch c r1 0 (q - p).
Proof. intros l p consts labels L q name a z h Hq Hz Hn He. rewrite <- (eval_offset _ _ _ _ _ _ _ Hq Hz). eapply cb_decodes; eauto. Qed.
Print Assumptions C03_cb_lands.

(* non-vacuity: a program with a forward jump, a backward call, an alignment and a backward branch assembles in both
   modes and meets the hypotheses *)
Example C03_example :
  nonneg ex_its /\ NoDup (gnames ex_its) /\
  (exists r, assemble_items ex_its [] [] true = Done r /\ r_labels r = [("a", 0); ("b", 8)]%string) /\
  (exists r, assemble_items ex_its [] [] false = Done r /\ r_labels r = [("a", 0); ("b", 8)]%string).
Proof. exact (conj ex_nonneg (conj ex_nodup (conj ex_runs_c ex_runs_u))). Qed.

(* ---- tie of expression evaluation to the source (Gen/Guards.v: the return expressions of Offset / Position / Hi / Lo .eval, translated;
   the position and environment resolve_immediates evaluates with, the second half of an auipc / lui pair at the position of the first) *)
From BB Require Gen.Guards Proofs.Guards.
Theorem C03_eval_from_source : Proofs.Guards.eval_from_source_stmt.
Proof. exact Proofs.Guards.eval_from_source. Qed.
Print Assumptions C03_eval_from_source.
Theorem C03_resolve_immediates_from_source : Proofs.Guards.resolve_immediates_from_source_stmt.
Proof. exact Proofs.Guards.resolve_immediates_from_source. Qed.
Print Assumptions C03_resolve_immediates_from_source.

(* ---- resolve_labels as the source has it (Gen/Guards.v): a label is bound to the running position (from 0, advanced by item.size()),
   a second definition is refused at its line *)
Theorem C03_resolve_labels_from_source : Proofs.Guards.resolve_labels_from_source_stmt.
Proof. exact Proofs.Guards.resolve_labels_from_source. Qed.
Print Assumptions C03_resolve_labels_from_source.

(* ---- the position bookkeeping of the SOURCE, path by path (Gen/Book.v, regenerated on every run; Proofs/Book.v): in resolve_labels,
   both compression passes, the pseudo-instruction pass, resolve_aligns and resolve_immediates every appended item is paired with exactly
   one `position += <its size>` and nothing else advances the position -- what the pass model's running position assumes *)
From BB Require Gen.Book Proofs.Book.
Theorem C03_position_bookkeeping_from_source : Proofs.Book.bookkeeping_ok = true.
Proof. exact Proofs.Book.bookkeeping_from_source. Qed.
Print Assumptions C03_position_bookkeeping_from_source.

(* ---- the order of the passes and the label updates, as the SOURCE has them today (Gen/PassTable.v; Proofs/PassOrder.v) *)
From BB Require Gen.PassTable Proofs.PassOrder.
Theorem C03_pass_order_from_source : forall its consts0 labels0 compress,
  assemble_items its consts0 labels0 compress =
  obind (Proofs.PassOrder.run Gen.PassTable.pass_order compress
           {| Proofs.PassOrder.ps_items := its; Proofs.PassOrder.ps_consts := consts0; Proofs.PassOrder.ps_labels := labels0;
              Proofs.PassOrder.ps_chunks := None |})
        Proofs.PassOrder.finish.
Proof. exact Proofs.PassOrder.assemble_is_pass_order. Qed.
Print Assumptions C03_pass_order_from_source.
Theorem C03_label_updates_from_source :
  forallb Proofs.PassOrder.update_ok Gen.PassTable.label_updates = true /\
  forallb (fun p => existsb (fun u => String.eqb (fst (fst u)) p) Gen.PassTable.label_updates)
          ["transform_compressible"; "transform_pseudo_instructions"; "resolve_aligns"]%string = true.
Proof. exact Proofs.PassOrder.label_updates_ok. Qed.
Print Assumptions C03_label_updates_from_source.

(* ---- the model is a FUNCTION of the program and the options, and so is the code it models: the effect summary regenerated from asm.py
   passes summary_ok (no module-level object written by anything reachable from assemble(), no mutable default, no set iteration order
   consumed; Proofs/Effects.v noninterference) -- a memo table or cache that outlives a call makes a pure model unfaithful *)
From BB Require Gen.Effects Proofs.Effects Proofs.EffectsOk.
Theorem C03_assemble_is_a_function_of_its_inputs : Proofs.Effects.summary_ok Gen.Effects.summary = true.
Proof. exact Proofs.EffectsOk.summary_ok_holds. Qed.
Print Assumptions C03_assemble_is_a_function_of_its_inputs.
