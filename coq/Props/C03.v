(* C03 -- control transfers land on their label; the label table is exact.  Statements only.
   `assemble_items` is the hand-written model of the 16 passes of asm.assemble (Model/Passes.v, tied to the code by
   the pipeline correspondence); it calls the GENERATED criteria / encoders / relocation functions.
   Quantifier: programs with `align N`, N >= 1 (nonneg); unique label names are ENFORCED: a successful run implies
   NoDup (gnames its) (a duplicate definition is refused). *)
From Coq Require Import ZArith List String.
From BB Require Import Base.PyBase Gen.Encoders Spec.RV32 Spec.RVC Spec.Operands Model.Items Model.Encode Model.Passes
  Proofs.Layout Proofs.Pipeline Proofs.Targets Proofs.Reloc Proofs.Examples.
Import ListNotations.
Open Scope Z_scope.

(* The label table returned by a successful run is EXACT, with compression off and on: there is a final item list
   [fin] in which (grouped Rsrc) every source item owns a contiguous group of items carrying its line and every label
   marker stays where the source put it, (blobbed) whose non-label items are the emitted chunks with
   chunk length = item size, and (exact) the value reported for each label is the total size of what precedes its
   marker -- i.e. the address of the bytes that follow the label in the output. *)
Theorem C03_labels :
  forall its consts0 labels0 compress r,
    assemble_items its consts0 labels0 compress = Done r -> nonneg its ->
    NoDup (gnames its) /\
    exists fin, grouped Rsrc its fin /\ blobbed fin (r_chunks r) /\ exact fin (r_labels r) /\ gnames fin = gnames its.
Proof. intros its c0 l0 cmp r H Hn. destruct (pipeline_layout its c0 l0 cmp r H Hn) as [F D]. split; [exact D|]. apply source_order. exact F. Qed.
Print Assumptions C03_labels.

(* every label of the program is in the table *)
Theorem C03_every_label :
  forall fin labels L, exact fin labels -> In L (gnames fin) -> exists q, goff L fin = Some q /\ assoc_str L labels = Some q.
Proof. intros fin labels L He Hi. destruct (in_goff L fin Hi) as [q Hq]. exists q. split; auto. Qed.
Print Assumptions C03_every_label.

(* The immediate of a transfer to label L, evaluated by resolve_immediates at final offset p with the final label
   table (C08_final), is q - p where q is L's value; pushed through the generated encoder, the Spec decodes the
   distance q - p: the transfer lands on p + (q - p) = q.  Branches, jal (also j / jal L / near call / tail): *)
Theorem C03_branch_lands :
  forall l p consts labels L q name a b z w,
    chain_get consts labels L = Some q -> imm_of l p consts labels (FExpr (EOff L)) = Done z ->
    In name branch_names -> encode name [a; b; AInt z] [] = Ok w ->
    exists c r1 r2, regnum a = Some r1 /\ regnum b = Some r2 /\ decode32 w = Some (Branch c r1 r2 (q - p)).
Proof. intros l p consts labels L q name a b z w Hq Hz Hn He. rewrite <- (eval_offset _ _ _ _ _ _ _ Hq Hz). eapply branch_decodes; eauto. Qed.
Print Assumptions C03_branch_lands.

Theorem C03_jal_lands :
  forall l p consts labels L q a z w,
    chain_get consts labels L = Some q -> imm_of l p consts labels (FExpr (EOff L)) = Done z ->
    encode "jal" [a; AInt z] [] = Ok w ->
    exists rd, regnum a = Some rd /\ decode32 w = Some (Jal rd (q - p)).
Proof. intros l p consts labels L q a z w Hq Hz He. rewrite <- (eval_offset _ _ _ _ _ _ _ Hq Hz). eapply jal_decodes; eauto. Qed.
Print Assumptions C03_jal_lands.

(* far call / tail: auipc at offset p carries %hi(L - p); the jalr that follows is evaluated at the auipc's
   position (is_auipc_jump) and carries %lo(L - p); pc-relative sum = q (mod 2^32) *)
Theorem C03_far_lands :
  forall l p consts labels L q a b c h lo w1 w2,
    chain_get consts labels L = Some q ->
    imm_of l p consts labels (FExpr (EHi (EOff L))) = Done h ->
    imm_of l p consts labels (FExpr (ELo (EOff L))) = Done lo ->
    encode "auipc" [a; AInt h] [] = Ok w1 -> encode "jalr" [b; c; AInt lo] [] = Ok w2 ->
    exists r1 r2 r3 hi', regnum a = Some r1 /\ regnum b = Some r2 /\ regnum c = Some r3 /\
      decode32 w1 = Some (Auipc r1 hi') /\ decode32 w2 = Some (Jalr r2 r3 lo) /\
      (p + hi' * 4096 + lo) mod 2^32 = q mod 2^32.
Proof.
  intros l p consts labels L q a b c h lo w1 w2 Hq Hh Hl H1 H2.
  destruct (auipc_jalr_decodes _ _ _ _ _ _ _ H1 H2) as (r1 & r2 & r3 & A & B & C & D1 & D2).
  exists r1, r2, r3, (upper_norm h). repeat split; auto.
  rewrite (eval_hi_offset _ _ _ _ _ _ _ Hq Hh), (eval_lo_offset _ _ _ _ _ _ _ Hq Hl), upper_norm_hi.
  replace (p + relocate_hi (q - p) * 4096 + relocate_lo (q - p)) with (p + (relocate_hi (q - p) * 4096 + relocate_lo (q - p))) by ring.
  rewrite <- Zplus_mod_idemp_r, hi_lo_rebuild, Zplus_mod_idemp_r. f_equal. ring.
Qed.
Print Assumptions C03_far_lands.

(* the compressed renderings chosen by the compression pass *)
Theorem C03_cj_lands :
  forall l p consts labels L q name z h,
    chain_get consts labels L = Some q -> imm_of l p consts labels (FExpr (EOff L)) = Done z ->
    In name ["c.j"; "c.jal"]%string -> encode name [AInt z] [] = Ok h ->
    exists ci, decode16 h = Some ci /\ expand_c ci = Jal (if String.eqb name "c.j" then 0 else 1) (q - p).
Proof. intros l p consts labels L q name z h Hq Hz Hn He. rewrite <- (eval_offset _ _ _ _ _ _ _ Hq Hz). eapply cj_decodes; eauto. Qed.
Print Assumptions C03_cj_lands.

Theorem C03_cb_lands :
  forall l p consts labels L q name a z h,
    chain_get consts labels L = Some q -> imm_of l p consts labels (FExpr (EOff L)) = Done z ->
    In name ["c.beqz"; "c.bnez"]%string -> encode name [a; AInt z] [] = Ok h ->
    exists ci r1 c, regnum a = Some r1 /\ decode16 h = Some ci /\ expand_c ci = Branch c r1 0 (q - p).
Proof. intros l p consts labels L q name a z h Hq Hz Hn He. rewrite <- (eval_offset _ _ _ _ _ _ _ Hq Hz). eapply cb_decodes; eauto. Qed.
Print Assumptions C03_cb_lands.

(* non-vacuity: a program with a forward jump, a backward call, an alignment and a backward branch assembles in both
   modes and meets the hypotheses *)
Example C03_example :
  nonneg ex_its /\ NoDup (gnames ex_its) /\
  (exists r, assemble_items ex_its [] [] true = Done r /\ r_labels r = [("a", 0); ("b", 8)]%string) /\
  (exists r, assemble_items ex_its [] [] false = Done r /\ r_labels r = [("a", 0); ("b", 8)]%string).
Proof. exact (conj ex_nonneg (conj ex_nodup (conj ex_runs_c ex_runs_u))). Qed.

(* ---- tie of expression evaluation to the source (Gen/Guards.v: the return expressions of Offset / Position / Hi / Lo .eval, translated;
   the position and environment resolve_immediates evaluates with, the second half of an auipc / lui pair at the position of the first) *)
From BB Require Gen.Guards Proofs.Guards.
Theorem C03_eval_from_source : Proofs.Guards.eval_from_source_stmt.
Proof. exact Proofs.Guards.eval_from_source. Qed.
Print Assumptions C03_eval_from_source.
Theorem C03_resolve_immediates_from_source : Proofs.Guards.resolve_immediates_from_source_stmt.
Proof. exact Proofs.Guards.resolve_immediates_from_source. Qed.
Print Assumptions C03_resolve_immediates_from_source.

(* ---- resolve_labels as the source has it (Gen/Guards.v): a label is bound to the running position (from 0, advanced by item.size()),
   a second definition is refused at its line *)
Theorem C03_resolve_labels_from_source : Proofs.Guards.resolve_labels_from_source_stmt.
Proof. exact Proofs.Guards.resolve_labels_from_source. Qed.
Print Assumptions C03_resolve_labels_from_source.

(* ---- the position bookkeeping of the SOURCE, path by path (Gen/Book.v, regenerated on every run; Proofs/Book.v): in resolve_labels,
   both compression passes, the pseudo-instruction pass, resolve_aligns and resolve_immediates every appended item is paired with exactly
   one `position += <its size>` and nothing else advances the position -- what the pass model's running position assumes *)
From BB Require Gen.Book Proofs.Book.
Theorem C03_position_bookkeeping_from_source : Proofs.Book.bookkeeping_ok = true.
Proof. exact Proofs.Book.bookkeeping_from_source. Qed.
Print Assumptions C03_position_bookkeeping_from_source.

(* ---- the order of the passes and the label updates, as the SOURCE has them today (Gen/PassTable.v; Proofs/PassOrder.v) *)
From BB Require Gen.PassTable Proofs.PassOrder.
Theorem C03_pass_order_from_source : forall its consts0 labels0 compress,
  assemble_items its consts0 labels0 compress =
  obind (Proofs.PassOrder.run Gen.PassTable.pass_order compress
           {| Proofs.PassOrder.ps_items := its; Proofs.PassOrder.ps_consts := consts0; Proofs.PassOrder.ps_labels := labels0;
              Proofs.PassOrder.ps_chunks := None |})
        Proofs.PassOrder.finish.
Proof. exact Proofs.PassOrder.assemble_is_pass_order. Qed.
Print Assumptions C03_pass_order_from_source.
Theorem C03_label_updates_from_source :
  forallb Proofs.PassOrder.update_ok Gen.PassTable.label_updates = true /\
  forallb (fun p => existsb (fun u => String.eqb (fst (fst u)) p) Gen.PassTable.label_updates)
          ["transform_compressible"; "transform_pseudo_instructions"; "resolve_aligns"]%string = true.
Proof. exact Proofs.PassOrder.label_updates_ok. Qed.
Print Assumptions C03_label_updates_from_source.

(* ---- the model is a FUNCTION of the program and the options, and so is the code it models: the effect summary regenerated from asm.py
   passes summary_ok (no module-level object written by anything reachable from assemble(), no mutable default, no set iteration order
   consumed; Proofs/Effects.v noninterference) -- a memo table or cache that outlives a call makes a pure model unfaithful *)
From BB Require Gen.Effects Proofs.Effects Proofs.EffectsOk.
Theorem C03_assemble_is_a_function_of_its_inputs : Proofs.Effects.summary_ok Gen.Effects.summary = true.
Proof. exact Proofs.EffectsOk.summary_ok_holds. Qed.
Print Assumptions C03_assemble_is_a_function_of_its_inputs.

(* ==== C03 at the level of the TEXT of a file ==========================================================================================
   Proofs/Program.v assemble_text: the lines of one file (after include splicing) -> lexer model -> parser model -> the 16 passes;
   Proofs/TextLayout.v and Proofs/TextLands.v compose the front-end models with the pass theorems above.
   text_layout r p ls cs: the chunks cs are, in order, one group per line of ls, the first line standing at output offset p;
   what one line may contribute is line_layout (Proofs/TextLayout.v, spelled out in Props/C09.v C09_line_layout): nothing for a
   blank / comment / label / constant line, the minimal zero padding for `align N`, one chunk of the announced size for a data
   line, chunks carrying the line for code.
   tot csz cs = total length of the chunks cs.
   NO side condition is needed: unique label names and N >= 1 are enforced (a successful run implies them). *)
From BB Require Model.Lexer Model.Parser Proofs.Program Proofs.TextGroups Proofs.TextTrack Proofs.TextLayout Proofs.TextLands.
Import Model.Lexer Model.Parser Proofs.Program Proofs.TextGroups Proofs.TextTrack Proofs.TextLayout Proofs.TextLands.
Open Scope list_scope.

(* every label line `name:` of the text has in r_labels r EXACTLY the total size of the chunks of the lines in front of it;
   the label names of the text are pairwise distinct *)
Theorem C03_text_labels :
  forall ls c0 l0 cmp r,
    assemble_text ls c0 l0 cmp = TDone r ->
    NoDup (text_label_names ls) /\
    forall ls1 l text ls2 name, ls = ls1 ++ (l, text) :: ls2 -> front_line l text = FOk (Some (ILabel name)) ->
      exists cs1 cs2, r_chunks r = cs1 ++ cs2 /\ text_layout r 0 ls1 cs1 /\ text_layout r (tot csz cs1) ls2 cs2 /\
        assoc_str name (r_labels r) = Some (tot csz cs1).
Proof. exact text_labels. Qed.
Print Assumptions C03_text_labels.

(* which lines those are: exactly the lines whose only token ends in a colon *)
Theorem C03_label_lines :
  (forall l text ts name, lex_tokens text = Some ts -> label_tokens ts name -> front_line l text = FOk (Some (ILabel name))) /\
  (forall l ts name, parse_item l ts = FOk (ILabel name) -> label_tokens ts name).
Proof. split. exact label_line. exact label_line_inv. Qed.
Print Assumptions C03_label_lines.

(* a branch line `beq rs1, rs2, L` .. `bgeu`, its pseudo forms `beqz rs, L` .. `bgtz`, `bgt rs, rt, L` .. `bleu` (transfer_tokens,
   m = the 32-bit mnemonic it stands for) to a label L defined by a label line of the text and not shadowed by a constant:
   the line owns ONE chunk; it decodes (Spec/RV32.v; with compression possibly Spec/RVC.v + expand_c) to the branch of that
   condition whose offset + the offset p the chunk stands at = q, the total size of everything in front of the label line *)
Theorem C03_text_branch_lands :
  forall ls c0 l0 cmp r,
    assemble_text ls c0 l0 cmp = TDone r ->
    forall ls1 l text ls2 ts L m la l' text' lb,
      ls = ls1 ++ (l, text) :: ls2 -> lex_tokens text = Some ts -> transfer_tokens ts L m -> m <> "jal"%string ->
      assoc_str L (r_consts r) = None ->
      ls = la ++ (l', text') :: lb -> front_line l' text' = FOk (Some (ILabel L)) ->
      exists cs1 g cs2 ca cb,
        r_chunks r = cs1 ++ g ++ cs2 /\ text_layout r 0 ls1 cs1 /\
        r_chunks r = ca ++ cb /\ text_layout r 0 la ca /\
        let p := tot csz cs1 in let q := tot csz ca in
        ((exists w c r1 r2, g = [(l, CBytes (le_bytes 4 w))] /\ decode32 w = Some (Branch c r1 r2 (q - p)) /\ bcond_name c = m) \/
         (cmp = true /\ exists h ci c r1, g = [(l, CBytes (le_bytes 2 h))] /\ decode16 h = Some ci /\
                                            expand_c ci = Branch c r1 0 (q - p) /\ bcond_name c = m)).
Proof. exact text_branch_lands. Qed.
Print Assumptions C03_text_branch_lands.

(* `jal rd, L`, `jal L`, `j L` *)
Theorem C03_text_jal_lands :
  forall ls c0 l0 cmp r,
    assemble_text ls c0 l0 cmp = TDone r ->
    forall ls1 l text ls2 ts L la l' text' lb,
      ls = ls1 ++ (l, text) :: ls2 -> lex_tokens text = Some ts -> transfer_tokens ts L "jal"%string ->
      assoc_str L (r_consts r) = None ->
      ls = la ++ (l', text') :: lb -> front_line l' text' = FOk (Some (ILabel L)) ->
      exists cs1 g cs2 ca cb,
        r_chunks r = cs1 ++ g ++ cs2 /\ text_layout r 0 ls1 cs1 /\
        r_chunks r = ca ++ cb /\ text_layout r 0 la ca /\
        let p := tot csz cs1 in let q := tot csz ca in
        ((exists w rd, g = [(l, CBytes (le_bytes 4 w))] /\ decode32 w = Some (Jal rd (q - p))) \/
         (cmp = true /\ exists h ci rd, g = [(l, CBytes (le_bytes 2 h))] /\ decode16 h = Some ci /\ expand_c ci = Jal rd (q - p))).
Proof. exact text_jal_lands. Qed.
Print Assumptions C03_text_jal_lands.

(* `call L` / `tail L` (call_tokens) to a label line of the text: ONE instruction jal landing on it, or the pair
   auipc r1, hi ; jalr r2, r1, lo  (far_at: the jalr reads the register the auipc wrote; two 4-byte chunks of that line) with
   p + hi * 4096 + lo = q modulo 2^32, p the offset of the auipc, q the total size of everything in front of the label line *)
Theorem C03_text_call_lands :
  forall ls c0 l0 cmp r,
    assemble_text ls c0 l0 cmp = TDone r ->
    forall ls1 l text ls2 ts L la l' text' lb,
      ls = ls1 ++ (l, text) :: ls2 -> lex_tokens text = Some ts -> call_tokens ts L ->
      assoc_str L (r_consts r) = None ->
      ls = la ++ (l', text') :: lb -> front_line l' text' = FOk (Some (ILabel L)) ->
      exists cs1 g cs2 ca cb,
        r_chunks r = cs1 ++ g ++ cs2 /\ text_layout r 0 ls1 cs1 /\
        r_chunks r = ca ++ cb /\ text_layout r 0 la ca /\
        let p := tot csz cs1 in let q := tot csz ca in
        ((exists w rd, g = [(l, CBytes (le_bytes 4 w))] /\ decode32 w = Some (Jal rd (q - p))) \/
         (cmp = true /\ exists h ci rd, g = [(l, CBytes (le_bytes 2 h))] /\ decode16 h = Some ci /\ expand_c ci = Jal rd (q - p)) \/
         (exists w1 w2 r1 r2 hi lo, g = [(l, CBytes (le_bytes 4 w1)); (l, CBytes (le_bytes 4 w2))] /\
            decode32 w1 = Some (Auipc r1 hi) /\ decode32 w2 = Some (Jalr r2 r1 lo) /\ (p + hi * 4096 + lo) mod 2^32 = q mod 2^32)).
Proof.
  intros ls c0 l0 cmp r H ls1 l text ls2 ts L la l' text' lb E1 Hx Ht Hc E2 Hf.
  destruct (text_call_lands _ _ _ _ _ H _ _ _ _ _ _ _ _ _ _ E1 Hx Ht Hc E2 Hf) as (cs1 & g & cs2 & ca & cb & A1 & A2 & A3 & A4 & A5).
  exists cs1, g, cs2, ca, cb. repeat split; auto. cbv zeta.
  destruct A5 as [[(w & -> & Hw)|(-> & h & -> & Hh)]|Hfar].
  - left. unfold lands32 in Hw. change (String.eqb "jal" "jal") with true in Hw. cbv iota in Hw. destruct Hw as (rd & Hd). eauto.
  - right; left. split; [reflexivity|]. unfold lands16 in Hh. destruct Hh as (ci & Hd & Hh).
    change (String.eqb "jal" "jal") with true in Hh. cbv iota in Hh. destruct Hh as (rd & He). eauto 6.
  - right; right. exact Hfar.
Qed.
Print Assumptions C03_text_call_lands.

(* (the general form -- the name L bound by the initial labels, or shadowed by a constant: the transfer lands on whatever value the
   name has in ChainMap(constants, labels) at the end -- is Proofs/TextLands.v text_transfer / text_call) *)

(* non-vacuity: start: / beq x8, zero, done / (blank) / align 8 / dw 0x12345678 / K = 5 / done: / jal x1, start / bnez x9, start / j done
   assembles in both modes, and the hypotheses of the theorems above hold of its lines; e.g. without compression the chunk of
   line 2 stands at 0 and decodes to beq x8, x0, +12 = the value of `done` (4 + 4 bytes of padding + 4); with compression it is
   c.beqz x8, +12 (2 + 6 + 4) *)
Example C03_text_example :
  (forall cmp, assemble_text ex_text [] [] cmp = TDone (ex_result cmp)) /\
  r_labels (ex_result true) = [("start", 0); ("done", 12)]%string /\
  decode32 (99 + 6 * 256 + 4 * 65536) = Some (Branch BEQ 8 0 (12 - 0)) /\
  (exists ci, decode16 (17 + 196 * 256) = Some ci /\ expand_c ci = Branch BEQ 8 0 (12 - 0)) /\
  decode32 (239 + 240 * 256 + 95 * 65536 + 255 * 16777216) = Some (Jal 1 (0 - 12)) /\
  (exists ci, decode16 (213 + 63 * 256) = Some ci /\ expand_c ci = Jal 1 (0 - 12)).
Proof.
  split. exact ex_text_runs. split. reflexivity. split. vm_compute; reflexivity. split. eexists; split; vm_compute; reflexivity.
  split. vm_compute; reflexivity. eexists; split; vm_compute; reflexivity.
Qed.
Example C03_text_example_hyps :
  ex_text = [(exT 1, "start:")%string] ++ (exT 2, "    beq x8, zero, done   # forward, over an align and a data line")%string :: skipn 2 ex_text /\
  lex_tokens "    beq x8, zero, done   # forward, over an align and a data line" = Some ["beq"; "x8"; "zero"; "done"]%string /\
  transfer_tokens ["beq"; "x8"; "zero"; "done"]%string "done" "beq" /\
  (forall cmp, assoc_str "done"%string (r_consts (ex_result cmp)) = None) /\
  ex_text = firstn 6 ex_text ++ (exT 7, "done:")%string :: skipn 7 ex_text /\
  front_line (exT 7) "done:" = FOk (Some (ILabel "done")) /\
  ex_text = firstn 7 ex_text ++ (exT 8, "    jal x1, start")%string :: skipn 8 ex_text /\
  lex_tokens "    jal x1, start" = Some ["jal"; "x1"; "start"]%string /\ transfer_tokens ["jal"; "x1"; "start"]%string "start" "jal" /\
  transfer_tokens ["bnez"; "x9"; "start"]%string "start" "bne" /\ transfer_tokens ["j"; "done"]%string "done" "jal" /\
  ex_text = [] ++ (exT 1, "start:")%string :: skipn 1 ex_text /\ front_line (exT 1) "start:" = FOk (Some (ILabel "start")) /\
  ex_text = firstn 3 ex_text ++ (exT 4, "    align 8")%string :: skipn 4 ex_text /\ front_line (exT 4) "    align 8" = FOk (Some (IAlign 8)).
Proof. exact ex_text_hyps. Qed.

(* non-vacuity for call / tail: start: / call far / tail start / align 2097152 / far: / call start  assembles in both modes; the
   first call is the pair auipc x1, 0x200 ; jalr x1, x1, 0 standing at 0 (0 + 0x200 * 4096 + 0 = 2097152 = far), the tail is one jal *)
Example C03_text_call_example :
  (forall cmp, exists r, assemble_text ex_call [] [] cmp = TDone r /\ r_labels r = [("start", 0); ("far", 2097152)]%string /\ r_consts r = []) /\
  ex_call = [(exT 1, "start:")%string] ++ (exT 2, "    call far")%string :: skipn 2 ex_call /\
  lex_tokens "    call far" = Some ["call"; "far"]%string /\ call_tokens ["call"; "far"]%string "far" /\
  ex_call = firstn 4 ex_call ++ (exT 5, "far:")%string :: skipn 5 ex_call /\ front_line (exT 5) "far:" = FOk (Some (ILabel "far")) /\
  decode32 (151 + 0 * 256 + 32 * 65536 + 0 * 16777216) = Some (Auipc 1 512) /\
  decode32 (231 + 128 * 256) = Some (Jalr 1 1 0) /\ (0 + 512 * 4096 + 0) mod 2^32 = 2097152 mod 2^32.
Proof.
  split. exact ex_call_runs. repeat split; try reflexivity. constructor. simpl; tauto.
Qed.

(* ---- EXPLICITLY written compressed transfers `c.j L`, `c.jal L`, `c.beqz rs, L`, `c.bnez rs, L` (ctransfer_tokens: L a single token that
   is no integer literal) to a label line of the text: ONE two-byte chunk in BOTH modes, decoding (Spec/RVC.v) to a compressed
   instruction whose expansion is the jal / the branch of that condition with offset q - p.
   D28: before the repair of parse_item (asm.py: the CB branch for c.beqz / c.bnez and the CJ branch wrap a single non-integer operand
   token as ['%offset', tok], as the B / J branches do) the operand went to parse_immediate as it was, a bare name was Arithmetic and the
   ABSOLUTE value of the label was used as the pc-relative offset: in `addi x0,x0,0 / loop: / c.j loop / c.beqz x8, loop` (loop = 4) the
   c.j standing at 4 carried +4 (landed on 8) and the c.beqz standing at 6 carried +4 (landed on 10); the statements below were false of
   the model of the former parser (replay: findings/D28-C03-explicit-compressed-transfer-to-label.json). *)
Theorem C03_text_cb_lands :
  forall ls c0 l0 cmp r,
    assemble_text ls c0 l0 cmp = TDone r ->
    forall ls1 l text ls2 ts L m la l' text' lb,
      ls = ls1 ++ (l, text) :: ls2 -> lex_tokens text = Some ts -> ctransfer_tokens ts L m -> m <> "jal"%string ->
      assoc_str L (r_consts r) = None ->
      ls = la ++ (l', text') :: lb -> front_line l' text' = FOk (Some (ILabel L)) ->
      exists cs1 g cs2 ca cb,
        r_chunks r = cs1 ++ g ++ cs2 /\ text_layout r 0 ls1 cs1 /\
        r_chunks r = ca ++ cb /\ text_layout r 0 la ca /\
        let p := tot csz cs1 in let q := tot csz ca in
        exists h ci c r1, g = [(l, CBytes (le_bytes 2 h))] /\ decode16 h = Some ci /\ expand_c ci = Branch c r1 0 (q - p) /\ bcond_name c = m.
Proof. exact text_cb_lands. Qed.
Print Assumptions C03_text_cb_lands.
Theorem C03_text_cj_lands :
  forall ls c0 l0 cmp r,
    assemble_text ls c0 l0 cmp = TDone r ->
    forall ls1 l text ls2 ts L la l' text' lb,
      ls = ls1 ++ (l, text) :: ls2 -> lex_tokens text = Some ts -> ctransfer_tokens ts L "jal"%string ->
      assoc_str L (r_consts r) = None ->
      ls = la ++ (l', text') :: lb -> front_line l' text' = FOk (Some (ILabel L)) ->
      exists cs1 g cs2 ca cb,
        r_chunks r = cs1 ++ g ++ cs2 /\ text_layout r 0 ls1 cs1 /\
        r_chunks r = ca ++ cb /\ text_layout r 0 la ca /\
        let p := tot csz cs1 in let q := tot csz ca in
        exists h ci rd, g = [(l, CBytes (le_bytes 2 h))] /\ decode16 h = Some ci /\ expand_c ci = Jal rd (q - p).
Proof. exact text_cj_lands. Qed.
Print Assumptions C03_text_cj_lands.
(* non-vacuity: addi x0,x0,0 / loop: / c.j loop / c.beqz x8, loop  assembles in both modes; the c.j standing on `loop` carries 0, the c.beqz
   two bytes behind it carries -2 *)
Example C03_text_explicit_compressed_example :
  (forall cmp, exists r, assemble_text ex_cj [] [] cmp = TDone r /\
     r_labels r = [("loop", if cmp then 2 else 4)]%string /\ r_consts r = [] /\
     r_chunks r = [(exT 1, CBytes (if cmp then [1; 0] else [19; 0; 0; 0])); (exT 3, CBytes (le_bytes 2 (1 + 160 * 256)));
                   (exT 4, CBytes (le_bytes 2 (125 + 220 * 256)))]) /\
  ex_cj = firstn 2 ex_cj ++ (exT 3, "    c.j loop")%string :: skipn 3 ex_cj /\
  lex_tokens "    c.j loop" = Some ["c.j"; "loop"]%string /\ ctransfer_tokens ["c.j"; "loop"]%string "loop" "jal" /\
  lex_tokens "    c.beqz x8, loop" = Some ["c.beqz"; "x8"; "loop"]%string /\ ctransfer_tokens ["c.beqz"; "x8"; "loop"]%string "loop" "beq" /\
  ex_cj = firstn 1 ex_cj ++ (exT 2, "loop:")%string :: skipn 2 ex_cj /\ front_line (exT 2) "loop:" = FOk (Some (ILabel "loop")) /\
  decode16 (1 + 160 * 256) = Some (CJ (4 - 4)) /\ decode16 (125 + 220 * 256) = Some (CBeqz 8 (4 - 6)).
Proof.
  split. exact ex_cj_runs. repeat split; try reflexivity.
  - apply ct_cj; [simpl; tauto|reflexivity|intro E; discriminate].
  - apply ct_cb; [simpl; tauto|intro E; discriminate|reflexivity|intro E; discriminate].
Qed.

(* ---- what is NOT true, with a witness (reproduces on the real assembler) -------------------------------------------------------------- *)
(* the hypothesis `assoc_str L (r_consts r) = None` is needed: a constant named like a label shadows it (ChainMap(constants, labels)).
       `L = 100 / L: / j L`: the label L is 0, the jump standing at 0 carries +100. *)
Example C03_text_constant_shadows_label :
  exists r, assemble_text ex_shadow [] [] false = TDone r /\
    assoc_str "L"%string (r_labels r) = Some 0 /\ assoc_str "L"%string (r_consts r) = Some 100 /\
    r_chunks r = [(exT 3, CBytes (le_bytes 4 (111 + 0 * 256 + 64 * 65536 + 6 * 16777216)))] /\
    decode32 (111 + 0 * 256 + 64 * 65536 + 6 * 16777216) = Some (Jal 0 100).
Proof. eexists. split. exact ex_shadow_runs. repeat split; reflexivity. Qed.

(* ---- for the WHOLE model of asm.assemble (Proofs/Whole.v: reader with include splicing in front) a successful run IS a successful run
   of assemble_text on the lines the reader delivers (Proofs/TextWhole.v whole_is_text), so every C03_text theorem applies with
   ls := map to_text lns.  Not restated here: Whole.v would pull the no-raw-exception development into the cone of this file. *)
