(* placeholder *)
From Coq Require Import ZArith.
Theorem C03_placeholder : True. Proof. exact I. Qed.
Print Assumptions C03_placeholder.
