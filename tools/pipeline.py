"""Pipeline correspondence: runs the REAL assembler and the Gallina pass model (coq/Model/Passes.v, evaluated by
coqc + vm_compute on generated case files) on the same parsed programs and compares per-item chunks, label table,
constants and errors.  Also provides the observation helpers the falsifiers use."""
import ast
import concurrent.futures
import os
import re
import shutil
import struct
import subprocess
import tempfile

import harness

VERIF = os.path.dirname(os.path.dirname(os.path.abspath(__file__)))
COQ = os.path.join(VERIF, 'coq')


class Unsupported(Exception):
    pass


# ------------------------------------------------------------------------------------------ serialisation
def cstr(s):
    if any(ord(c) < 32 or ord(c) == 127 for c in s):
        raise Unsupported('control character in string')
    return '"' + s.replace('"', '""') + '"'


def cz(v):
    return '({})'.format(v) if v < 0 else str(v)


BINOPS = {ast.Add: 'OAdd', ast.Sub: 'OSub', ast.Mult: 'OMul', ast.FloorDiv: 'OFloorDiv', ast.Mod: 'OMod',
          ast.LShift: 'OLsh', ast.RShift: 'ORsh', ast.BitAnd: 'OAnd', ast.BitOr: 'OOr', ast.BitXor: 'OXor', ast.Pow: 'OPow'}
UNOPS = {ast.USub: 'UNeg', ast.UAdd: 'UPos', ast.Invert: 'UInv'}


def aexp_of_node(n):
    if isinstance(n, ast.Constant):
        if type(n.value) is int:
            if abs(n.value) > (1 << 80):
                raise Unsupported('huge literal')
            return 'ANum {}'.format(cz(n.value))
        if type(n.value) in (float, complex, str, bytes):
            return 'ANotInt'
        raise Unsupported('constant {!r}'.format(n.value))
    if isinstance(n, ast.Name):
        return 'AName {}'.format(cstr(n.id))
    if isinstance(n, ast.BinOp):
        if isinstance(n.op, ast.Div):
            return 'ANotInt'
        if type(n.op) not in BINOPS:
            raise Unsupported('operator')
        if isinstance(n.op, (ast.Pow, ast.LShift)) and not (isinstance(n.right, ast.Constant) and type(n.right.value) is int
                                                             and 0 <= n.right.value <= 64):
            raise Unsupported('pow / shift by a non-small-literal')
        return 'ABin {} ({}) ({})'.format(BINOPS[type(n.op)], aexp_of_node(n.left), aexp_of_node(n.right))
    if isinstance(n, ast.UnaryOp) and type(n.op) in UNOPS:
        return 'AUn {} ({})'.format(UNOPS[type(n.op)], aexp_of_node(n.operand))
    raise Unsupported('expression node {}'.format(type(n).__name__))


def aexp_of_text(s):
    if s.startswith("'") and s.endswith("'"):
        try:
            c = s[1:-1].encode('utf-8').decode('unicode_escape')
        except Exception:
            raise Unsupported('char literal escape')
        return 'AChar [{}]'.format('; '.join(str(ord(x)) for x in c))
    try:
        tree = ast.parse(s, mode='eval')
    except SyntaxError:
        return 'ABadSyntax'
    except Exception:
        raise Unsupported('unparsable text')
    return aexp_of_node(tree.body)


def ser_expr(asm, e):
    if isinstance(e, asm.Arithmetic):
        if isinstance(e.expr, str):
            return 'EArith ({})'.format(aexp_of_text(e.expr))
        if type(e.expr) is int:
            return 'EArithInt {}'.format(cz(e.expr))
        raise Unsupported('Arithmetic of ' + type(e.expr).__name__)
    if isinstance(e, asm.Position):
        return 'EPos {} ({})'.format(cstr(e.reference), ser_expr(asm, e.expr))
    if isinstance(e, asm.Offset):
        return 'EOff {}'.format(cstr(e.reference))
    if isinstance(e, asm.Hi):
        return 'EHi ({})'.format(ser_expr(asm, e.expr))
    if isinstance(e, asm.Lo):
        return 'ELo ({})'.format(ser_expr(asm, e.expr))
    raise Unsupported('expr ' + type(e).__name__)


def ser_line(l):
    return '{{| lfile := {}; lnum := {} |}}'.format(cstr(l.file), l.number)


EXN = {'ValueError': 'ValueError', 'KeyError': 'KeyError', 'TypeError': 'TypeError', 'AttributeError': 'AttributeError',
       'StructError': 'StructError', 'AssertionError': 'AssertionError'}


def exn_model_name(cls):
    return EXN.get(cls, 'OtherExn')


def ser_fval(asm, v):
    if isinstance(v, bool):
        return 'FBool {}'.format('true' if v else 'false')
    if isinstance(v, int):
        return 'FReg (AInt {})'.format(cz(v))
    if isinstance(v, str):
        return 'FReg (AStr {})'.format(cstr(v))
    if isinstance(v, asm.Expr):
        return 'FExpr ({})'.format(ser_expr(asm, v))
    raise Unsupported('field value ' + type(v).__name__)


def ser_item(asm, it, cwd=None):
    l = ser_line(it.line)
    if isinstance(it, asm.Label):
        return '({}, ILabel {})'.format(l, cstr(it.name))
    if isinstance(it, asm.Constant):
        return '({}, IConst {} ({}))'.format(l, cstr(it.name), ser_expr(asm, it.expr))
    if isinstance(it, asm.PseudoInstruction):
        pimm = 'PErr (PRaw OtherExn)'
        if it.name == 'li':
            try:
                e = asm.parse_immediate(list(it.args[1:]), it.line)
                pimm = 'POk ({})'.format(ser_expr(asm, e))
            except asm.AssemblerError:
                pimm = 'PErr (PAsm {})'.format(l)
            except Unsupported:
                raise
            except Exception as ex:
                pimm = 'PErr (PRaw {})'.format(exn_model_name(harness.exc_class(ex)))
        return '({}, IPseudo {} [{}] ({}))'.format(l, cstr(it.name), '; '.join(cstr(a) for a in it.args), pimm)
    if isinstance(it, asm.Instruction):
        fs = []
        for k, v in vars(it).items():
            if k in ('line', 'name'):
                continue
            fs.append('({}, {})'.format(cstr(k), ser_fval(asm, v)))
        if isinstance(it, asm.RTypeInstruction) and isinstance(it.rs2, str):
            fs.append('("#rs2", FExpr (EArith ({})))'.format(aexp_of_text(it.rs2)))
        return '({}, IInstr {} {} [{}] {})'.format(l, cstr(type(it).__name__), cstr(it.name), '; '.join(fs),
                                                   'true' if isinstance(it, asm.CompressedInstruction) else 'false')
    if isinstance(it, asm.Align):
        return '({}, IAlign {})'.format(l, cz(it.alignment))
    if isinstance(it, asm.String):
        b = it.value.encode('utf-8')
        if len(b) > 48 and len(set(b)) == 1:
            return '({}, IFill {} {})'.format(l, b[0], len(b))
        if len(b) > 4096:
            raise Unsupported('long string')
        return '({}, IString [{}])'.format(l, '; '.join(str(x) for x in b))
    if isinstance(it, asm.Sequence):
        return '({}, ISeq {} [{}])'.format(l, cstr(it.name), '; '.join(cstr(v) for v in it.values))
    if isinstance(it, asm.Pack):
        return '({}, IPack {} ({}))'.format(l, cstr(it.fmt), ser_fval(asm, it.imm))
    if isinstance(it, asm.ShorthandPack):
        return '({}, IShort {} ({}))'.format(l, cstr(it.name), ser_fval(asm, it.imm))
    if isinstance(it, asm.IncludeBytes):
        actual = 'None'
        try:
            p = it.path if os.path.isabs(it.path) or cwd is None else os.path.join(cwd, it.path)
            with open(p, 'rb') as f:
                actual = 'Some {}'.format(len(f.read()))
        except Exception:
            pass
        return '({}, IIncBytes {} {} ({}))'.format(l, cstr(it.path), cz(it.fsize), actual)
    raise Unsupported('item ' + type(it).__name__)


def ser_env(d):
    if d is None:
        return '[]'
    return '[' + '; '.join('({}, {})'.format(cstr(k), cz(v)) for k, v in d.items()) + ']'


# ------------------------------------------------------------------------------------------ real runs
def canon_exc(asm, e):
    if isinstance(e, asm.AssemblerError):
        ln = e.line
        return ('ASM', getattr(ln, 'file', None), getattr(ln, 'number', None))
    return ('RAW', exn_model_name(harness.exc_class(e)), harness.exc_class(e))


def front_end(asm, src, include_dirs=None):
    """read_lines / lex / parse exactly as asm.assemble does; returns items or raises."""
    lines = asm.read_lines(src, include_dirs=include_dirs)
    lines = [l for l in lines if len(l) > 0]
    tokens = [asm.lex_tokens(l) for l in lines]
    tokens = [t for t in tokens if len(t) > 0]
    items = [asm.parse_item(t) for t in tokens]
    return [i for i in items if i is not None]


def run_real(asm, src, compress=False, constants=None, labels=None, include_dirs=None):
    """Runs asm.assemble, observing the per-item blobs handed to resolve_blobs.
    Returns dict(status='OK', bytes, chunks=[(file, line, bytes)], labels=[(k,v)], constants=[(k,v)])
         or dict(status='ASM', file, line) / dict(status='RAW', exn, cls)."""
    constants = {} if constants is None else dict(constants)
    labels = {} if labels is None else dict(labels)
    seen = []
    orig = asm.resolve_blobs

    def wrapper(items):
        for it in items:
            seen.append((it.line.file, it.line.number, bytes(getattr(it, 'data', b''))))
        return orig(items)
    asm.resolve_blobs = wrapper
    try:
        out = asm.assemble(src, constants=constants, labels=labels, compress=compress, include_dirs=include_dirs)
        return {'status': 'OK', 'bytes': bytes(out), 'chunks': seen, 'labels': list(labels.items()),
                'constants': list(constants.items())}
    except Exception as e:
        c = canon_exc(asm, e)
        if c[0] == 'ASM':
            return {'status': 'ASM', 'file': c[1], 'line': c[2], 'message': getattr(e, 'message', '')}
        return {'status': 'RAW', 'exn': c[1], 'cls': c[2]}
    finally:
        asm.resolve_blobs = orig


# ------------------------------------------------------------------------------------------ model runs
CASE_HEADER = '''From Coq Require Import ZArith List String.
From BB Require Import Base.PyBase Model.Items Model.Passes Model.Render.
Import ListNotations.
Open Scope Z_scope.
Open Scope string_scope.
'''


def _run_shard(args):
    idx, text, workdir = args
    path = os.path.join(workdir, 'cases{}.v'.format(idx))
    with open(path, 'w') as f:
        f.write(text)
    p = subprocess.run(['timeout', '900', 'coqc', '-Q', COQ, 'BB', '-w', '-all', path], stdout=subprocess.PIPE,
                       stderr=subprocess.STDOUT, text=True, errors='replace')
    return idx, p.returncode, p.stdout


def run_model(cases, shard=150, workers=12):
    """cases: list of Gallina terms of type string (already `render (...)`).  Returns list of result strings
    (None where the evaluation failed)."""
    if not cases:
        return []
    workdir = tempfile.mkdtemp(prefix='bbcases')
    try:
        jobs = []
        for s in range(0, len(cases), shard):
            body = CASE_HEADER
            for k, c in enumerate(cases[s:s + shard]):
                body += 'Eval vm_compute in ({}).\n'.format(c)
            jobs.append((s // shard, body, workdir))
        results = {}
        with concurrent.futures.ThreadPoolExecutor(max_workers=workers) as ex:
            for idx, rc, out in ex.map(_run_shard, jobs):
                results[idx] = (rc, out)
        answers = []
        for s in range(0, len(cases), shard):
            rc, out = results[s // shard]
            n = len(cases[s:s + shard])
            found = re.findall(r'^\s*= "((?:[^"]|"")*)"\s*(?:%string)?\s*\n?\s*: string', out, re.M)
            if rc != 0 or len(found) != n:
                # fall back: mark the whole shard failed, keep the log for diagnosis
                answers += [None] * n
                with open(os.path.join(VERIF, 'build', 'logs', 'model_shard_error.log'), 'w') as f:
                    f.write(out[-20000:])
            else:
                answers += [x.replace('""', '"') for x in found]
        return answers
    finally:
        shutil.rmtree(workdir, ignore_errors=True)


def model_case(asm, items, compress, constants=None, labels=None, cwd=None):
    its = '[' + ';\n '.join(ser_item(asm, it, cwd) for it in items) + ']'
    return 'render (assemble_items {} {} {} {})'.format(its, ser_env(constants), ser_env(labels), 'true' if compress else 'false')


def parse_model(s, files=None):
    """Model result string -> dict comparable with run_real's."""
    if s is None:
        return {'status': 'MODEL-ERROR'}
    parts = s.split('|')
    if parts[0] == 'UNSUP':
        return {'status': 'UNSUP'}
    if parts[0] == 'ASM':
        f, _, n = parts[1].rpartition(':')
        return {'status': 'ASM', 'file': f, 'line': int(n)}
    if parts[0] == 'RAW':
        return {'status': 'RAW', 'exn': parts[1]}
    chunks = []
    if parts[1]:
        for c in parts[1].split(';'):
            loc, _, body = c.partition('=')
            f, _, n = loc.rpartition(':')
            k = body[0]
            if k == 'B':
                b = bytes.fromhex(body[1:])
            elif k == 'Z':
                b = b'\x00' * max(int(body[1:]), 0)
            elif k == 'R':
                bb, _, nn = body[1:].partition('x')
                b = bytes([int(bb)]) * int(nn)
            elif k == 'F':
                p = body[1:]
                b = (files or {}).get(p)
                if b is None:
                    try:
                        with open(p, 'rb') as fh:
                            b = fh.read()
                    except Exception:
                        b = b''
            chunks.append((f, int(n), b))
    def env(t):
        out = []
        if t:
            for kv in t.split(','):
                k, _, v = kv.rpartition('=')
                out.append((k, int(v)))
        return out
    return {'status': 'OK', 'chunks': chunks, 'constants': env(parts[2]), 'labels': env(parts[3]),
            'bytes': b''.join(c[2] for c in chunks)}


def same(real, model):
    if real['status'] != model['status']:
        return False
    if real['status'] == 'OK':
        rc = [c for c in real['chunks']]
        return (rc == model['chunks'] and real['labels'] == model['labels'] and real['constants'] == model['constants'])
    if real['status'] == 'ASM':
        return real['file'] == model['file'] and real['line'] == model['line']
    if real['status'] == 'RAW':
        return real['exn'] == model['exn']
    return False


def brief(r):
    if r['status'] == 'OK':
        return {'status': 'OK', 'bytes': r['bytes'][:64].hex() + ('...' if len(r['bytes']) > 64 else ''), 'len': len(r['bytes']),
                'labels': r['labels'][:12], 'constants': r['constants'][:12]}
    return {k: v for k, v in r.items() if k != 'message'}


def correspond(ctx, asm, programs, unit='Model.Passes'):
    """programs: list of dict(source=..., compress=bool[, constants, labels]).  Runs both sides, records
    disagreements in ctx, returns list of (program, real) for the programs both sides could run."""
    cases, idx = [], []
    reals = []
    for k, p in enumerate(programs):
        real = run_real(asm, p['source'], p.get('compress', False), p.get('constants'), p.get('labels'),
                        p.get('include_dirs'))
        reals.append(real)
        try:
            items = front_end(asm, p['source'], p.get('include_dirs'))
        except Exception:
            continue            # front-end failure: covered by the front-end correspondence, not the pass model
        try:
            cases.append(model_case(asm, items, p.get('compress', False), p.get('constants'), p.get('labels'), p.get('cwd')))
            idx.append(k)
        except Unsupported:
            ctx.unsupported += 1
    answers = run_model(cases)
    for k, a in zip(idx, answers):
        m = parse_model(a)
        if m['status'] == 'UNSUP':
            ctx.unsupported += 1
            continue
        ctx.traces_validated += 1
        if not same(reals[k], m):
            ctx.corr(unit, {'source': programs[k]['source'], 'compress': programs[k].get('compress', False)},
                     brief(reals[k]), brief(m) if m['status'] != 'MODEL-ERROR' else 'model evaluation failed')
    return reals
