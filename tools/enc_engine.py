"""Shared engine of the encoder properties C01 / C02 / C06: enumerates operand tuples, runs the REAL encoders
(asm.INSTRUCTIONS[name]) and the one-line text path (asm.assemble), the generated Gallina encoders (bbmodel)
and the Spec decoders (bbspec), and classifies every disagreement."""
import struct

import harness
import isa

BAD_REGS = [-1, 32, 40, 'x32', 'q0', 'X1', 'zer', 'x-1', 'x01', 'r1', 'a8', 's12', 't7', '32', '-1', '0x20', 'x1 ', '']
ODD_SPELLINGS = ['0x1f', '0b11', '0o17', '0X0a', '1_0', '+5', '00', ' 7', '0x0_f']     # int(s, 0) spellings of registers
REG_CORE = [0, 1, 2, 5, 7, 8, 9, 15, 16, 31]


def reg_values(kind, wide):
    if wide:
        return list(range(32))
    return REG_CORE


def fixed_regs(kinds, pat):
    """A legal register assignment for the register positions (pattern index pat)."""
    out = []
    for j, k in enumerate(kinds):
        if not isinstance(k, str):
            out.append(None)
            continue
        if k == 'rc':
            out.append([8, 15, 10 + j][pat])
        elif k == 'rnz':
            out.append([1, 31, 10 + j][pat])
        elif k == 'rn02':
            out.append([1, 31, 11][pat])
        else:
            out.append([0, 31, 10 + j][pat])
    return out


def legal_imm_sample(k):
    t = k[0]
    if t in ('i', 'inz'):
        _, lo, hi, sc = k
        vals = [lo, hi - (hi % sc), sc, -sc if lo < 0 else 2 * sc, (lo + hi) // 2 // sc * sc, 3 * sc, 5 * sc if 5 * sc <= hi else sc, hi // 3 // sc * sc,
                -2 * sc if lo <= -2 * sc else 4 * sc]
        return [v for v in dict.fromkeys(vals) if isa.kind_legal(k, v) is not None]
    if t == 'upper':
        return [0, 1, -1, 0x7ffff, -0x80000, 0x80000, 0xfffff, 0x12345]
    if t == 'cupper':
        return [1, -1, 31, -32, 0xfffe0, 0xfffff, 5, -7]
    if t == 'set':
        return [0, 1, 15, 10, 5, 3, 12, 8]
    if t == 'csr':
        return [0, 1, 0x300, 0x341, 0x7ff, 0x800, 0xc00, 0xfff]
    raise ValueError(k)


def tuples_for(name, ctx, wide):
    """Yield (ops, aq, rl) operand tuples for one mnemonic."""
    kinds = isa.SPEC_ALL[name]
    regpos = [j for j, k in enumerate(kinds) if isinstance(k, str)]
    immpos = [j for j, k in enumerate(kinds) if not isinstance(k, str)]
    seen = set()

    def emit(ops, aq=None, rl=None):
        key = (tuple(ops), aq, rl)
        if key not in seen:
            seen.add(key)
            return [(list(ops), aq, rl)]
        return []

    base = []
    for pat in range(3):
        b = fixed_regs(kinds, pat)
        for j in immpos:
            b[j] = legal_imm_sample(kinds[j])[pat % len(legal_imm_sample(kinds[j]))]
        base.append(b)
    if not kinds:
        yield from emit([])
        return
    # (1) every immediate position: the whole probe range x 3 register patterns
    for j in immpos:
        vals = isa.imm_probe_values(kinds[j], wide)
        for pat in range(3):
            for v in vals:
                ops = list(base[pat]); ops[j] = v
                yield from emit(ops)
    # (2) all register tuples x sample immediates
    import itertools
    rvals = [list(range(-1, 34)) if (wide or len(regpos) <= 2) else REG_CORE + [-1, 32] for _ in regpos]
    if len(regpos) == 3 and wide:
        rvals = [list(range(32))] * 3
    imm_samples = [legal_imm_sample(kinds[j]) for j in immpos]
    n_imm = 8 if wide else 3
    for regs in itertools.product(*rvals):
        for t in range(n_imm if immpos else 1):
            ops = list(base[0])
            for j, r in zip(regpos, regs):
                ops[j] = r
            for jj, j in enumerate(immpos):
                ops[j] = imm_samples[jj][t % len(imm_samples[jj])]
            yield from emit(ops)
    # (3) register spellings in every register position
    for j in regpos:
        for sp in list(isa.REGNAMES.keys()) + BAD_REGS + ODD_SPELLINGS:
            ops = list(base[2]); ops[j] = sp
            yield from emit(ops)
    # (4) fence sets given as strings
    if name == 'fence':
        for s in ['0', '15', '0b1111', '0xf', '16', '-1', 'iorw', '0x0a', '1_0', '']:
            yield from emit([s, 3]); yield from emit([3, s])
    # (5) aq / rl
    if name in isa.ATOMICS:
        for aq, rl in [(0, 0), (0, 1), (1, 0), (1, 1), (2, 0), (0, -1), ('1', '0'), ('0b1', '0x1'), ('x', 0), (1, 2)]:
            for pat in range(3):
                yield from emit(base[pat], aq, rl)


def run_impl(asm, name, ops, aq, rl):
    f = asm.INSTRUCTIONS[name]
    try:
        if aq is not None or rl is not None:
            w = f(*ops, aq=aq, rl=rl)
        else:
            w = f(*ops)
        return ('ok', w)
    except Exception as e:
        return ('err', harness.exc_class(e))


def model_query(name, ops, aq, rl):
    toks = ['enc', name] + [harness.arg_token(o) for o in ops]
    if aq is not None:
        toks.append('k:aq=' + harness.arg_token(aq))
    if rl is not None:
        toks.append('k:rl=' + harness.arg_token(rl))
    return ' '.join(toks)


def text_line(name, ops, aq=None, rl=None):
    parts = [str(o) for o in ops]
    if aq is not None:
        parts += [str(aq), str(rl)]
    return (name + ' ' + ', '.join(parts)).strip()


def explore(ctx, names, prop):
    """prop in {'C01', 'C02', 'C06'}: which verdicts are raised as counterexamples.  One mnemonic at a time: the thorough tier
    enumerates tens of millions of operand tuples, and nothing in the verdicts crosses mnemonics."""
    for name in names:
        explore_names(ctx, [name], prop)


def explore_names(ctx, names, prop):
    asm = harness.real_asm()
    wide = not ctx.quick()
    compressed = lambda n: n.startswith('c.')
    cases = []
    for name in names:
        for ops, aq, rl in tuples_for(name, ctx, wide):
            cases.append((name, ops, aq, rl))
    ctx.count('tuples', len(cases))
    impl = [run_impl(asm, n, o, a, r) for (n, o, a, r) in cases]
    # (C) correspondence: generated encoders
    if ctx.model.available():
        ans = ctx.model.batch([model_query(n, o, a, r) for (n, o, a, r) in cases])
        for c, i, m in zip(cases, impl, ans):
            ctx.traces_validated += 1
            im = '{} {}'.format(i[0], i[1])
            if im != m:
                ctx.corr('Gen.Encoders.INSTRUCTIONS', {'name': c[0], 'ops': c[1], 'aq': c[2], 'rl': c[3]}, im, m)
    else:
        ctx.corr('bbmodel unavailable', {}, None, None)
    if not ctx.spec.available():
        ctx.corr('bbspec unavailable', {}, None, None)
        return
    # (D) falsifier with the Spec as oracle
    q, idx = [], []
    for k, (c, i) in enumerate(zip(cases, impl)):
        if i[0] == 'ok' and isinstance(i[1], int):
            q.append(('d16 {}' if compressed(c[0]) else 'd32 {}').format(i[1])); idx.append(k)
    dec = dict(zip(idx, ctx.spec.batch(q)))
    seen_words = {}
    for k, (c, i) in enumerate(zip(cases, impl)):
        name, ops, aq, rl = c
        ctx.evaluations += 1
        norm = isa.normalise(name, ops, aq, rl)
        legal = norm is not None
        ctx.count('legal' if legal else 'illegal')
        inp = {'name': name, 'ops': ops, 'aq': aq, 'rl': rl}
        if legal:
            ctx.nontriv((name, tuple(norm)))
        if i[0] == 'ok':
            ctx.count('accepted')
            if not legal and prop == 'C06':
                ctx.cex('{} {} accepted although operand is outside the documented set (word {:#x}, decodes to {})'.format(
                    name, ops, i[1], dec.get(k)), inp, 'accepted {:#x}'.format(i[1]), 'ValueError',
                    {'kind': 'accepts-illegal', 'name': name, 'class': illegal_class(name, ops, aq, rl)})
            if prop in ('C01', 'C02'):
                want_ops = norm if legal else raw_named(name, ops, aq, rl)
                want = (name + ' ' + ' '.join(str(v) for v in want_ops)).strip() if want_ops is not None else None
                if dec.get(k) != want:
                    ctx.cex('{} {} encodes to {:#x} which decodes to "{}", the source named "{}"'.format(
                        name, ops, i[1], dec.get(k), want), inp, {'word': i[1], 'decoded': dec.get(k)}, want,
                        {'kind': 'decode-mismatch', 'name': name, 'class': 'legal' if legal else illegal_class(name, ops, aq, rl)})
                elif legal:
                    key = (name, i[1])
                    if key in seen_words and seen_words[key] != tuple(norm):
                        ctx.cex('{}: operand tuples {} and {} both give {:#x}'.format(name, seen_words[key], norm, i[1]),
                                inp, {'word': i[1]}, 'distinct words', {'kind': 'collision', 'name': name})
                    seen_words[key] = tuple(norm)
        else:
            ctx.count('rejected')
            if legal and prop == 'C06':
                ctx.cex('{} {} refused ({}) although every operand is inside its documented set'.format(name, ops, i[1]),
                        inp, i[1], 'accepted', {'kind': 'rejects-legal', 'name': name, 'class': legal_class(name, ops)})
            if i[1] not in ('ValueError', 'TypeError') and prop == 'C06':
                ctx.cex('{} {} raises {} instead of ValueError'.format(name, ops, i[1]), inp, i[1], 'ValueError',
                        {'kind': 'wrong-exception', 'name': name})
    for c, i in list(zip(cases, impl))[:: max(1, len(cases) // 8)]:
        ctx.sample({'name': c[0], 'ops': c[1], 'aq': c[2], 'rl': c[3], 'impl': list(i)})
    # text front end on a sample of the tuples: same word as the direct call, errors as AssemblerError, no output
    step = 23 if ctx.quick() else 3
    batch = []          # (line, expected bytes) of the sampled lines that assemble alone: assembled again TOGETHER below
    for k in range(0, len(cases), step):
        name, ops, aq, rl = cases[k]
        if any(isinstance(o, str) and (o.strip() != o or o == '' or ' ' in o) for o in ops):
            continue
        if (aq is None) != (rl is None):
            continue
        line = text_line(name, ops, aq, rl)
        ctx.evaluations += 1
        ctx.count('text-lines')
        try:
            b = bytes(asm.assemble(line))
            got = ('ok', b)
        except asm.AssemblerError:
            got = ('err', 'AssemblerError')
        except Exception as e:
            got = ('err', harness.exc_class(e))
        i = impl[k]
        inp = {'source': line}
        if i[0] == 'ok':
            want = struct.pack('<H' if compressed(name) else '<I', i[1])
            if got != ('ok', want):
                ctx.cex('text line "{}" gives {} but the encoder gives {}'.format(line, got[1].hex() if got[0] == 'ok' else got[1], want.hex()),
                        inp, got[1].hex() if got[0] == 'ok' else got[1], want.hex(), {'kind': 'text-mismatch', 'name': name})
            else:
                batch.append((line, want))
            # the same line with every register operand written as a CONSTANT that names it (`R0 = a1`): resolve_register_aliases
            # rebuilds the item, and every other operand (immediate, aq / rl, fence sets, CSR number) must survive that
            kinds = isa.SPEC_ALL[name]
            regpos = [j for j, kd in enumerate(kinds) if isinstance(kd, str) and j < len(ops)]
            if regpos and got == ('ok', want) and (k // step) % 2 == 0:
                defs, aops = [], list(ops)
                for j in regpos:
                    if isa.regnum(ops[j]) is None:
                        defs = None
                        break
                    defs.append('AL{} = {}'.format(j, ops[j]))
                    aops[j] = 'AL{}'.format(j)
                if defs:
                    asrc = '\n'.join(defs) + '\n' + text_line(name, aops, aq, rl) + '\n'
                    ctx.evaluations += 1
                    ctx.count('text-lines-aliased')
                    try:
                        gb = ('ok', bytes(asm.assemble(asrc)))
                    except Exception as e:
                        gb = ('err', harness.exc_class(e))
                    if gb != ('ok', want):
                        ctx.cex('"{}" with its registers written as constant aliases gives {} but the plain line gives {}'.format(
                            line, gb[1].hex() if gb[0] == 'ok' else gb[1], want.hex()), {'source': asrc},
                            gb[1].hex() if gb[0] == 'ok' else gb[1], want.hex(), {'kind': 'text-alias-mismatch', 'name': name})
        else:
            if got[0] == 'ok':
                # pseudo-instruction forms share mnemonics (jal x, jalr x, fence): only flag when the encoder form applies
                ctx.cex('text line "{}" assembles to {} but the encoder refuses the operands'.format(line, got[1].hex()), inp,
                        got[1].hex(), i[1], {'kind': 'text-accepts', 'name': name})
            elif got[1] != 'AssemblerError' and prop == 'C06':
                ctx.cex('text line "{}" fails with {} instead of AssemblerError'.format(line, got[1]), inp, got[1],
                        'AssemblerError', {'kind': 'text-wrong-exception', 'name': name, 'exc': got[1]})
    # ... and, per mnemonic, every accepted operand tuple of up to 40 register assignments (all their immediates: -1 next to -2, the
    # range edges, 0) as ONE program: same mnemonic, same registers, different immediates side by side
    groups = {}
    for c, i in zip(cases, impl):
        name, ops, aq, rl = c
        if i[0] != 'ok' or not isinstance(i[1], int) or (aq is None) != (rl is None):
            continue
        if any(isinstance(o, str) and (o.strip() != o or o == '' or ' ' in o) for o in ops):
            continue
        kinds = isa.SPEC_ALL[name]
        regs = tuple(str(o) for o, kd in zip(ops, kinds) if isinstance(kd, str))
        mag = sum(abs(o) for o, kd in zip(ops, kinds) if not isinstance(kd, str) and isinstance(o, int))
        groups.setdefault((name, regs), []).append((mag, text_line(name, ops, aq, rl), struct.pack('<H' if compressed(name) else '<I', i[1])))
    batch2, seen_names = [], {}
    for (name, regs), lines in groups.items():
        if len(lines) < 2 or seen_names.get(name, 0) >= 40:
            continue
        seen_names[name] = seen_names.get(name, 0) + 1
        # the 16 smallest immediates (0, 1, -1, 2, -2 ...) and the 8 largest
        lines.sort(key=lambda t: t[0])
        batch2 += [(l, w) for _, l, w in lines[:16] + lines[16:][-8:]]
    check_batches(ctx, asm, batch + batch2)


def check_batches(ctx, asm, batch, size=300):
    """The lines that assemble alone, assembled TOGETHER in one program: each line must still give its own word (an instruction's
    encoding may not depend on the other instructions of the program -- a per-program cache, a shared mutable operand ...)."""
    for s0 in range(0, len(batch), size):
        part = batch[s0:s0 + size]
        src = '\n'.join(l for l, _ in part) + '\n'
        want = b''.join(w for _, w in part)
        ctx.evaluations += 1
        ctx.count('text-batches')
        try:
            got = bytes(asm.assemble(src))
        except Exception as e:
            ctx.cex('{} lines that assemble one by one fail together: {}'.format(len(part), harness.exc_class(e)),
                    {'source': src[:2000]}, harness.exc_class(e), 'the concatenation of the single-line outputs', {'kind': 'text-batch'})
            continue
        if got != want:
            off, bad, j = 0, None, 0
            for j, (l, w) in enumerate(part):
                if got[off:off + len(w)] != w:
                    bad = (l, got[off:off + len(w)].hex(), w.hex())
                    break
                off += len(w)
            # shrink: an earlier line that alone disturbs the bad one
            small = None
            if bad:
                for e, we in part[:j]:
                    two = e + '\n' + bad[0] + '\n'
                    try:
                        g2 = bytes(asm.assemble(two))
                    except Exception:
                        continue
                    if g2 != we + part[j][1]:
                        small = (two, g2.hex(), (we + part[j][1]).hex())
                        break
            if small:
                ctx.cex('after "{}" the line "{}" gives {} but alone it gives {}'.format(small[0].split('\n')[0], bad[0], bad[1], bad[2]),
                        {'source': small[0]}, small[1], small[2], {'kind': 'text-batch'})
            else:
                ctx.cex('inside a program of {} lines, line "{}" gives {} but alone it gives {}'.format(len(part), bad[0] if bad else '?',
                        bad[1] if bad else '?', bad[2] if bad else '?'), {'source': src}, got.hex(), want.hex(), {'kind': 'text-batch'})


def raw_named(name, ops, aq, rl):
    out = []
    for k, v in zip(isa.SPEC_ALL[name], ops):
        if isinstance(k, str):
            v = isa.regnum(v)
        elif isinstance(v, str):
            try:
                v = int(v, 0)
            except ValueError:
                return None
        if v is None:
            return None
        out.append(v)
    if name in isa.ATOMICS:
        for b in (aq, rl):
            b = 0 if b is None else b
            if isinstance(b, str):
                try:
                    b = int(b, 0)
                except ValueError:
                    return None
            out.append(b)
    return out


def illegal_class(name, ops, aq, rl):
    """Which operand is illegal and how (used to identify known findings narrowly)."""
    for j, (k, v) in enumerate(zip(isa.SPEC_ALL[name], ops)):
        if isinstance(k, str):
            if isa.kind_legal(k, isa.regnum(v)) is None:
                return 'reg'
        else:
            if isinstance(v, str):
                try:
                    v = int(v, 0)
                except ValueError:
                    return 'imm-text'
            if isa.kind_legal(k, v) is None:
                t = k[0]
                if t in ('i', 'inz'):
                    _, lo, hi, sc = k
                    if v < lo:
                        return 'imm-below'
                    if v > hi:
                        return 'imm-above'
                    if v % sc:
                        return 'imm-misaligned'
                    return 'imm-zero'
                if t == 'csr':
                    return 'csr-negative' if v < 0 else 'csr-above'
                return 'imm-' + t
    return 'aqrl'


def legal_class(name, ops):
    for k, v in zip(isa.SPEC_ALL[name], ops):
        if not isinstance(k, str) and k[0] == 'csr' and v >= 2048:
            return 'csr-upper-half'
    return 'other'
