"""Shared engine of the DFU properties C18 / C19.

  * real_dfu(): imports the REAL bronzebeard/dfu.py (honours VERIF_REPO) with the fake `usb` package of tools/fakeusb
    in sys.modules, and points the module's `time` and `print` at recorders (module globals set from outside: no hook
    in the source).
  * DevSession: a live bbdfudev process = the extracted Spec device (coq/Spec/DfuDev.v).  The fake usb device forwards
    every ctrl_transfer and every time.sleep of the real cli_main() to it and returns ITS answers.
  * run_real(case): one in-process run of dfu.cli_main() -> canonical event trace + what the Spec device saw
    (monitors, operation counts, final flash).
  * run_model(cases): the extracted Gallina host model (bbdfu) on the same cases -> the same canonical text.
  * correspondence / verdict helpers used by props/C18.py and props/C19.py.

A case is a dict: size (flash bytes of the device), sn (character sn[2]), init ('idle' | 'error:N'),
sched (list of [busy time-outs, final time-out, error status] per DNLOAD request), fw (hex of the firmware)."""
import importlib
import os
import re
import struct
import subprocess
import sys
import tempfile
import types

VERIF = os.path.dirname(os.path.dirname(os.path.abspath(__file__)))
BUILD = os.path.join(VERIF, 'build')
REPO = os.environ.get('VERIF_REPO', '/repo')
FAKE = os.path.join(VERIF, 'tools', 'fakeusb')
FLASH_BASE = 0x08000000
PAGE = 1024
FUEL = 64

# DFU 1.1 p. 21 status names (my transcription, independent of dfu.py) -- accepted as "naming the failure"
STATUS_NAMES = {1: 'errTARGET', 2: 'errFILE', 3: 'errWRITE', 4: 'errERASE', 5: 'errCHECK_ERASED', 6: 'errPROG',
                7: 'errVERIFY', 8: 'errADDRESS', 9: 'errNOTDONE', 10: 'errFIRMWARE', 11: 'errVENDOR', 12: 'errUSBR',
                13: 'errPOR', 14: 'errUNKNOWN', 15: 'errSTALLEDPKT'}
# GD32VF103 data sheet: third character of the part / serial number -> flash bytes (same table as Spec.spec_variants)
VARIANTS = {'B': 131072, '8': 65536, '6': 32768, '4': 16384}


def flash0(a):
    """initial flash pattern; mirrored in ocaml/dfuio.ml"""
    return ((a * 7 + 13) ^ (a >> 8)) & 255


def hexs(s):
    return s.encode('utf-8').hex() or '-'


# ------------------------------------------------------------------------------------------ the real module
def real_dfu():
    """bronzebeard.dfu of REPO, freshly imported against the fake usb package."""
    for m in list(sys.modules):
        if m == 'usb' or m.startswith('usb.'):
            if not getattr(sys.modules[m], '__file__', '').startswith(FAKE):
                del sys.modules[m]
    if FAKE not in sys.path:
        sys.path.insert(0, FAKE)
    import usb.core            # noqa: F401  (the fake)
    import usb.backend.libusb1  # noqa: F401
    assert sys.modules['usb'].__file__.startswith(FAKE)
    if REPO not in sys.path:
        sys.path.insert(0, REPO)
    for m in list(sys.modules):
        if m == 'bronzebeard' or m.startswith('bronzebeard.'):
            f = getattr(sys.modules[m], '__file__', '') or ''
            if m == 'bronzebeard.dfu' or not f.startswith(REPO):
                del sys.modules[m]
    dfu = importlib.import_module('bronzebeard.dfu')
    assert os.path.abspath(dfu.__file__).startswith(os.path.abspath(REPO)), dfu.__file__
    return dfu


# ------------------------------------------------------------------------------------------ executables
class DevSession:
    """interactive bbdfudev (Spec device)"""
    def __init__(self):
        self.path = os.path.join(BUILD, 'bbdfudev')
        self.p = subprocess.Popen([self.path], stdin=subprocess.PIPE, stdout=subprocess.PIPE, text=True, bufsize=1,
                                  preexec_fn=_big_stack)

    def cmd(self, line):
        self.p.stdin.write(line + '\n')
        self.p.stdin.flush()
        out = self.p.stdout.readline()
        if not out:
            raise RuntimeError('bbdfudev died on: ' + line[:100])
        out = out.rstrip('\n')
        if out.startswith('driver-error'):
            raise RuntimeError('bbdfudev: {} on {}'.format(out, line[:100]))
        return out

    def close(self):
        try:
            self.p.stdin.close()
            self.p.wait(timeout=10)
        except Exception:
            self.p.kill()


def available(name):
    return os.path.exists(os.path.join(BUILD, name))


def _big_stack():
    """the extracted code recurses over lists (a 1 MiB firmware is a 1M-element list): lift the stack limit of the child"""
    import resource
    soft, hard = resource.getrlimit(resource.RLIMIT_STACK)
    try:
        resource.setrlimit(resource.RLIMIT_STACK, (hard, hard))
    except (ValueError, OSError):
        pass


def batch(name, lines, timeout=1800):
    if not lines:
        return []
    p = subprocess.run([os.path.join(BUILD, name)], input='\n'.join(lines) + '\n', stdout=subprocess.PIPE,
                       stderr=subprocess.PIPE, text=True, timeout=timeout, preexec_fn=_big_stack)
    out = p.stdout.split('\n')
    if out and out[-1] == '':
        out.pop()
    if len(out) != len(lines):
        raise RuntimeError('{}: {} answers for {} queries: {}'.format(name, len(out), len(lines), p.stderr[-300:]))
    return out


def sched_text(sched):
    if not sched:
        return '-'
    return '|'.join('{}/{}/{}'.format(','.join(str(t) for t in b), f, e) for b, f, e in sched)


# ------------------------------------------------------------------------------------------ one real run
class _Time:
    """stands in for the `time` module inside dfu.py"""
    def __init__(self, rec):
        self._rec = rec

    def sleep(self, seconds):
        self._rec.sleep(seconds)

    def __getattr__(self, name):
        import time
        return getattr(time, name)


class Recorder:
    def __init__(self, dfu, sess):
        self.dfu, self.sess = dfu, sess
        self.events = []
        self.status_desc = {v: k for k, v in dfu.STATUS_DESCRIPTION.items()}
        self.state_desc = {v: k for k, v in dfu.STATE_DESCRIPTION.items()}

    def link(self, bm, breq, wvalue, windex, data, rlen, timeout):
        if data is None:
            tail = 'in {}'.format(rlen)
        else:
            tail = 'out {}'.format(data.hex() or '-')
        line = 'req {} {} {} {} {}'.format(bm, breq, wvalue, windex, tail)
        self.events.append(line)
        ans = self.sess.cmd(line)
        if ans == 'stall':
            return 'stall', None
        kind, val = ans.split(' ')
        if kind == 'bytes':
            return 'bytes', bytes.fromhex('' if val == '-' else val)
        return 'count', int(val)

    def sleep(self, seconds):
        us = int(round(seconds * 1000000))
        self.events.append('sleep {}'.format(us))
        self.sess.cmd('sleep {}'.format(us))

    def print(self, *args, **kw):
        end = kw.get('end', '\n')
        bad = set(kw) - {'end', 'flush'} or kw.get('sep', ' ') != ' '
        ev = None
        if not bad and len(args) == 0 and end == '\n':
            ev = 'print nl'
        elif not bad and len(args) == 1 and isinstance(args[0], str) and end == '':
            m = re.fullmatch(r'\r(\w+): 0x([0-9a-f]{8})', args[0])
            if m:
                ev = 'print progress {} {}'.format(hexs(m.group(1)), int(m.group(2), 16))
        elif not bad and len(args) == 1 and isinstance(args[0], str) and end == '\n':
            if args[0] in self.status_desc:
                ev = 'print statusdesc {}'.format(self.status_desc[args[0]])
            elif args[0] in self.state_desc:
                ev = 'print statedesc {}'.format(self.state_desc[args[0]])
            else:
                ev = 'print lit ' + hexs(args[0])
        elif not bad and len(args) == 2 and isinstance(args[0], str) and type(args[1]) is int and end == '\n':
            ev = 'print kv {} {}'.format(hexs(args[0]), args[1])
        if ev is None:
            ev = 'print other ' + hexs(repr((args, sorted(kw.items()))))
        self.events.append(ev)


def named_status(dfu, msg):
    """status the exit message names: contains the program's own description of it or the DFU 1.1 name"""
    for k in sorted(STATUS_NAMES):
        desc = dfu.STATUS_DESCRIPTION.get(k)
        if (desc and desc in msg) or re.search(r'\b{}\b'.format(STATUS_NAMES[k]), msg, re.I) \
                or re.search(r'\bSTATUS_{}\b'.format(STATUS_NAMES[k][:3].upper() + '_' + STATUS_NAMES[k][3:]), msg):
            return k
    return None


def run_real(dfu, case, dump=True):
    """run dfu.cli_main() against a fresh Spec device; returns dict(trace, mons, counts, state, flash, exit_msg)"""
    import usb.core
    sess = DevSession()
    try:
        sess.cmd('init {} {} {}'.format(case['size'], case['init'], sched_text(case['sched'])))
        rec = Recorder(dfu, sess)
        # serial number as pyusb would hand it over: the UTF-8 bytes of the text, read as UTF-16-LE
        sn_text = 'GD' + case['sn'] + 'J'
        usb.core.CURRENT = usb.core.FakeDevice(sn_text.encode('utf-8').decode('utf-16-le'), rec.link)
        fw = bytes.fromhex('' if case['fw'] == '-' else case['fw'])
        old_argv, old_time, had_print = sys.argv, dfu.time, 'print' in dfu.__dict__
        exit_msg = None
        with tempfile.TemporaryDirectory(prefix='dfu_') as tmp:
            path = os.path.join(tmp, 'firmware.bin')
            with open(path, 'wb') as f:
                f.write(fw)
            sys.argv = ['bronzebeard-dfu', '{:04x}:{:04x}'.format(case.get('vendor', 0x28e9), case.get('product', 0x0189)), path]
            dfu.time = _Time(rec)
            dfu.print = rec.print
            try:
                dfu.cli_main()
                rec.events.append('exit 0 -')
            except SystemExit as e:
                c = e.code
                if c is None:
                    rec.events.append('exit 0 -')
                elif type(c) is int:
                    rec.events.append('exit {} -'.format(c))
                else:
                    exit_msg = str(c)
                    k = named_status(dfu, exit_msg)
                    rec.events.append('exit 1 {}'.format('-' if k is None else k))
            except AssertionError:
                rec.events.append('crash assert')
            except usb.core.USBError:
                rec.events.append('crash usb')
            except struct.error:
                rec.events.append('crash struct')
            except KeyError:
                rec.events.append('crash key')
            except TypeError:
                rec.events.append('crash type')
            except Exception as e:      # anything else: reported, never equal to a model event
                rec.events.append('crash other:' + type(e).__name__)
            finally:
                sys.argv = old_argv
                dfu.time = old_time
                if not had_print:
                    del dfu.__dict__['print']
        res = {'trace': rec.events, 'mons': sess.cmd('mons'), 'counts': sess.cmd('counts'), 'state': sess.cmd('state'),
               'exit_msg': exit_msg}
        if dump:
            lo = FLASH_BASE - 16
            n = case['size'] + 32
            h = sess.cmd('flash {} {}'.format(lo, n))
            res['flash_lo'] = lo
            res['flash'] = bytes.fromhex(h)
        return res
    finally:
        sess.close()


# ------------------------------------------------------------------------------------------ the model
def model_line(case):
    return 'run {} {} {} {} {} {}'.format(FUEL, case['size'], case['init'], sched_text(case['sched']), ord(case['sn']),
                                          case['fw'] or '-')


def run_model(cases):
    out = []
    for a in batch('bbdfu', [model_line(c) for c in cases]):
        if a.startswith('driver-error'):
            out.append({'trace': [a], 'mons': '?', 'counts': '?', 'state': '?'})
            continue
        tr, mons, counts, state = a.split('|')
        out.append({'trace': tr.split(';'), 'mons': mons, 'counts': counts, 'state': state})
    return out


def brief_trace(tr, n=14):
    def short(e):
        return e if len(e) < 70 else e[:60] + '...({} chars)'.format(len(e))
    if len(tr) <= n:
        return [short(e) for e in tr]
    return [short(e) for e in tr[:4]] + ['... {} events ...'.format(len(tr) - n + 2)] + [short(e) for e in tr[-(n - 6):]]


def first_diff(a, b):
    for i, (x, y) in enumerate(zip(a, b)):
        if x != y:
            return i
    return min(len(a), len(b)) if len(a) != len(b) else None


def brief_case(case):
    c = dict(case)
    if len(c['fw']) > 64:
        c['fw_len'] = len(c['fw']) // 2
    return c


def correspond(ctx, cases, reals, unit='Model.DfuHost'):
    """real trace == model trace, event by event; and the model's device ends where the real run's device ended"""
    if not available('bbdfu'):
        ctx.corr('bbdfu unavailable', {}, None, None)
        return
    models = run_model(cases)
    for case, r, m in zip(cases, reals, models):
        ctx.traces_validated += 1
        i = first_diff(r['trace'], m['trace'])
        if i is not None:
            ctx.corr(unit, case_input(case), {'at': i, 'event': (r['trace'][i:i + 1] or ['<end>'])[0][:200],
                                              'trace': brief_trace(r['trace'])},
                     {'at': i, 'event': (m['trace'][i:i + 1] or ['<end>'])[0][:200], 'trace': brief_trace(m['trace'])})
        elif (r['mons'], r['counts'], r['state']) != (m['mons'], m['counts'], m['state']):
            ctx.corr(unit + ' (device after the run)', case_input(case), [r['mons'], r['counts'], r['state']],
                     [m['mons'], m['counts'], m['state']])


def case_input(case):
    """what goes into a replay file (firmware kept as hex so that the run can be repeated exactly)"""
    return {'kind': 'dfu-run', 'size': case['size'], 'sn': case['sn'], 'init': case['init'], 'sched': case['sched'],
            'fw': case['fw'], 'fw_len': len(case['fw']) // 2 if case['fw'] != '-' else 0}


def case_of_input(inp):
    return {'size': inp['size'], 'sn': inp['sn'], 'init': inp['init'], 'sched': [tuple(e) for e in inp['sched']],
            'fw': inp['fw']}


def pages_of(n):
    return (n + PAGE - 1) // PAGE


def expected_flash(case):
    """[flash_lo, flash_lo + size + 32): firmware, zero padding to the page boundary, everything else untouched"""
    fw = bytes.fromhex('' if case['fw'] == '-' else case['fw'])
    lo = FLASH_BASE - 16
    exp = bytearray(flash0(lo + i) for i in range(case['size'] + 32))
    img = fw + bytes(pages_of(len(fw)) * PAGE - len(fw))
    exp[16:16 + len(img)] = img
    return bytes(exp)


def dnload_requests(trace):
    return [e for e in trace if e.startswith('req ') and e.split(' ')[2] == '1']


def done_announced(trace):
    return ('print lit ' + hexs('done!')) in trace


# ------------------------------------------------------------------------------------------ generators
TIMEOUTS = [0, 1, 10, 255, 65536, 16777215]


def rand_entry(rng, maxbusy=3, err=0):
    k = rng.randrange(0, maxbusy + 1)
    return ([rng.choice(TIMEOUTS) if rng.random() < 0.7 else rng.randrange(0, 300) for _ in range(k)],
            rng.choice([0, 0, 0, 1, 10]), err)


def rand_fw(rng, n):
    if n == 0:
        return '-'
    return rng.randbytes(n).hex()


# ------------------------------------------------------------------------------------------ extraction cross-check
def coq_crosscheck(ctx, cases, reals, limit=3):
    """Guards the extraction step: a few small cases are re-evaluated INSIDE Coq (vm_compute on Model.DfuHost.cli_main against
    the Spec device) and compared with the extracted model (trace length, operation counts, monitors) and with the flash the
    real run left in the extracted Spec device."""
    picked = [(c, r) for c, r in zip(cases, reals) if c['fw'] != '-' and len(c['fw']) // 2 <= 2048 and len(c['sched']) <= 8][:limit]
    if not picked or not available('bbdfu'):
        return
    models = run_model([c for c, _ in picked])
    coq = os.path.join(VERIF, 'coq')
    lines = ['From Coq Require Import ZArith List String.', 'From BB Require Import Spec.DfuDev Gen.Dfu Model.DfuHost.',
             'Import ListNotations.', 'Open Scope Z_scope.',
             'Definition f0 (a : Z) : Z := Z.land (Z.lxor (a * 7 + 13) (Z.shiftr a 8)) 255.']
    probes = []
    for i, (c, r) in enumerate(picked):
        n = len(c['fw']) // 2
        addrs = [FLASH_BASE - 1, FLASH_BASE, FLASH_BASE + n - 1, FLASH_BASE + n, FLASH_BASE + pages_of(n) * PAGE - 1,
                 FLASH_BASE + pages_of(n) * PAGE]
        probes.append(addrs)
        fw = '; '.join(str(b) for b in bytes.fromhex(c['fw']))
        sched = '; '.join('mkEntry [{}] {} {}'.format('; '.join(map(str, b)), f, e) for b, f, e in c['sched'])
        st0 = 'Idle' if c['init'] == 'idle' else 'Error {}'.format(c['init'].split(':')[1])
        lines.append('Definition r{} := cli_main {} [{}] {} (init_dev {} f0 [{}] ({})).'.format(i, FUEL, fw, ord(c['sn']), c['size'], sched, st0))
        lines.append('Eval vm_compute in (Z.of_nat (List.length (snd r{0})), m_nerase (d_mem (fst r{0})), m_nset (d_mem (fst r{0})), '
                     'm_nwrite (d_mem (fst r{0})), Z.of_nat (List.length (m_mons (d_mem (fst r{0})))), map (m_flash (d_mem (fst r{0}))) [{1}]).'
                     .format(i, '; '.join(map(str, addrs))))
    os.makedirs(os.path.join(BUILD, 'dfu_x'), exist_ok=True)
    path = os.path.join(BUILD, 'dfu_x', 'crosscheck.v')
    with open(path, 'w') as f:
        f.write('\n'.join(lines) + '\n')
    p = subprocess.run(['timeout', '300', 'coqc', '-Q', coq, 'BB', '-w', '-all', path], cwd=os.path.join(BUILD, 'dfu_x'),
                       stdout=subprocess.PIPE, stderr=subprocess.STDOUT, text=True)
    answers = re.findall(r'=\s*\(([^:]*?)\)\s*:', p.stdout.replace('\n', ' '))
    if p.returncode != 0 or len(answers) != len(picked):
        ctx.corr('extraction cross-check (coqc)', {'cases': len(picked)}, None, p.stdout[-400:])
        return
    for (c, r), m, addrs, a in zip(picked, models, probes, answers):
        nums = [int(x) for x in re.findall(r'-?\d+', a)]
        coq_view = {'events': nums[0], 'counts': '{} {} {}'.format(*nums[1:4]), 'monitors': nums[4], 'flash': nums[5:]}
        exe_view = {'events': len(m['trace']), 'counts': m['counts'], 'monitors': 0 if m['mons'] == '-' else len(m['mons'].split(',')),
                    'flash': [r['flash'][x - r['flash_lo']] for x in addrs]}
        ctx.count('extraction-crosscheck')
        if coq_view != exe_view:
            ctx.corr('extraction cross-check (vm_compute vs extracted)', case_input(c), exe_view, coq_view)
