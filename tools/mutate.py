#!/venv/bin/python
"""Mutation campaign: does some check report a small change of the code that the repo's own tests let through?

  tools/mutate.py list                  -> mutation/mutants.json  (all candidate mutants of the anchored functions)
  tools/mutate.py run  <verif copy> [--sample N] [--seed S] [--only asm|dfu]
        for each sampled mutant: scratch copy of /repo with the edit; the repo's tests must pass (else: killed by tests,
        not interesting); then the quick checks of the properties anchored at the mutated function are run FROM <verif copy>
        (a private copy of /verif, so that the Gen/*.v of the working tree are not touched) with VERIF_REPO=<scratch>.
        Results: mutation/results.jsonl (one line per surviving mutant: caught by which check / missed).

Operators (applied at exact AST positions, one per mutant): comparison flips (< <=, > >=, == !=), `and`/`or` swap, integer
constants +-1, removal of `not`, `+`/`-` swap, `x in y` -> `y.get(x)` style truthiness is NOT automated (see seeded C11-r4).
A missed mutant is not by itself a hole: it may be equivalent, or change something no property speaks about (a message).
The triage of the missed ones is recorded by hand in mutation/TRIAGE.md.
"""
import ast
import json
import os
import random
import shutil
import subprocess
import sys
import time

VERIF = os.path.dirname(os.path.dirname(os.path.abspath(__file__)))
REPO = '/repo'
BASE = '3c2487f'          # the commit the anchors' line numbers refer to
PY = '/venv/bin/python'


def sh(cmd, cwd=None, env=None, timeout=3600):
    p = subprocess.run(cmd, cwd=cwd, env=env, stdout=subprocess.PIPE, stderr=subprocess.STDOUT, text=True, timeout=timeout,
                       errors='replace')
    return p.returncode, p.stdout


def functions(src):
    """[(first line, last line, qualified name)] of every def (methods as Class.name), innermost last."""
    out = []

    def walk(node, prefix):
        for ch in ast.iter_child_nodes(node):
            if isinstance(ch, (ast.FunctionDef, ast.ClassDef)):
                q = prefix + ch.name
                first = min([ch.lineno] + [d.lineno for d in ch.decorator_list])
                out.append((first, ch.end_lineno, q))
                walk(ch, q + '.')
            else:
                walk(ch, prefix)
    walk(ast.parse(src), '')
    return out


def anchor_map():
    """qualified function name -> set of property ids (from the anchors' line ranges at BASE)."""
    m = {}
    srcs = {}
    for l in open(os.path.join(VERIF, 'properties.jsonl')):
        d = json.loads(l)
        for mech in d['anchors']['mechanism']:
            w = mech['where']
            f, _, ranges = w.partition(':')
            if f not in srcs:
                rc, s = sh(['git', '-C', REPO, 'show', '{}:{}'.format(BASE, f)])
                srcs[f] = functions(s)
            for r in ranges.split(','):
                a, _, b = r.strip().partition('-')
                a, b = int(a), int(b or a)
                # the innermost functions overlapping the range; top-level statements (tables) are keyed by '<module>'
                hit = [q for (x, y, q) in srcs[f] if not (y < a or x > b)]
                inner = [q for q in hit if not any(o != q and o.startswith(q + '.') for o in hit)]
                for q in (inner or ['<module>']):
                    m.setdefault((f, q), set()).add(d['id'])
    return m


class Collector(ast.NodeVisitor):
    def __init__(self, lines):
        self.lines = lines
        self.out = []      # (lineno, col, end_col, new text, description) -- single-line edits only

    def seg(self, node):
        if node.lineno != node.end_lineno:
            return None
        return self.lines[node.lineno - 1][node.col_offset:node.end_col_offset]

    def visit_Compare(self, node):
        if len(node.ops) == 1 and node.lineno == node.end_lineno:
            l, r = node.left, node.comparators[0]
            if l.end_lineno == r.lineno == node.lineno:
                between = self.lines[node.lineno - 1][l.end_col_offset:r.col_offset]
                flips = {'<=': '<', '<': '<=', '>=': '>', '>': '>=', '==': '!=', '!=': '=='}
                op = between.strip()
                if op in flips:
                    new = between.replace(op, flips[op])
                    self.out.append((node.lineno, l.end_col_offset, r.col_offset, new, 'cmp {} -> {}'.format(op, flips[op])))
        self.generic_visit(node)

    def visit_BoolOp(self, node):
        if node.lineno == node.end_lineno and len(node.values) == 2:
            a, b = node.values
            between = self.lines[node.lineno - 1][a.end_col_offset:b.col_offset]
            op = between.strip()
            if op in ('and', 'or'):
                new = between.replace(op, 'or' if op == 'and' else 'and')
                self.out.append((node.lineno, a.end_col_offset, b.col_offset, new, 'bool {} swapped'.format(op)))
        self.generic_visit(node)

    def visit_UnaryOp(self, node):
        if isinstance(node.op, ast.Not) and node.lineno == node.end_lineno:
            inner = self.seg(node.operand)
            if inner is not None:
                self.out.append((node.lineno, node.col_offset, node.end_col_offset, '(' + inner + ')', 'not removed'))
        self.generic_visit(node)

    def visit_BinOp(self, node):
        if isinstance(node.op, (ast.Add, ast.Sub)) and node.lineno == node.end_lineno:
            a, b = node.left, node.right
            if a.end_lineno == b.lineno == node.lineno:
                between = self.lines[node.lineno - 1][a.end_col_offset:b.col_offset]
                op = between.strip()
                if op in ('+', '-'):
                    self.out.append((node.lineno, a.end_col_offset, b.col_offset, between.replace(op, '-' if op == '+' else '+'),
                                     'arith {} swapped'.format(op)))
        self.generic_visit(node)

    def visit_Constant(self, node):
        if type(node.value) is int and node.lineno == node.end_lineno:
            text = self.seg(node)
            if text is not None and text.isdigit() and 0 <= node.value <= 4096:
                for d in (1, -1):
                    if node.value + d >= 0:
                        self.out.append((node.lineno, node.col_offset, node.end_col_offset, str(node.value + d),
                                         'const {} -> {}'.format(node.value, node.value + d)))


def candidates():
    amap = anchor_map()
    muts = []
    for f in ('bronzebeard/asm.py', 'bronzebeard/dfu.py'):
        src = open(os.path.join(REPO, f)).read()
        lines = src.split('\n')
        funs = functions(src)
        col = Collector(lines)
        col.visit(ast.parse(src))
        for (ln, c0, c1, new, desc) in col.out:
            encl = [q for (a, b, q) in funs if a <= ln <= b]
            props = set()
            for q in encl:
                props |= amap.get((f, q), set())
            if not encl:
                props |= amap.get((f, '<module>'), set())
            if not props:
                continue
            muts.append({'file': f, 'line': ln, 'c0': c0, 'c1': c1, 'new': new, 'desc': desc,
                         'function': encl[-1] if encl else '<module>', 'props': sorted(props),
                         'old_line': lines[ln - 1].strip()})
    return muts


def apply_mut(root, m):
    p = os.path.join(root, m['file'])
    lines = open(p).read().split('\n')
    l = lines[m['line'] - 1]
    lines[m['line'] - 1] = l[:m['c0']] + m['new'] + l[m['c1']:]
    open(p, 'w').write('\n'.join(lines))
    return lines[m['line'] - 1].strip()


def main():
    os.makedirs(os.path.join(VERIF, 'mutation'), exist_ok=True)
    if sys.argv[1] == 'list':
        muts = candidates()
        json.dump(muts, open(os.path.join(VERIF, 'mutation', 'mutants.json'), 'w'), indent=0)
        by = {}
        for m in muts:
            for p in m['props']:
                by[p] = by.get(p, 0) + 1
        print(len(muts), 'candidate mutants;', sorted(by.items()))
        return
    copy = os.path.abspath(sys.argv[2])
    n = int(sys.argv[sys.argv.index('--sample') + 1]) if '--sample' in sys.argv else 40
    seed = int(sys.argv[sys.argv.index('--seed') + 1]) if '--seed' in sys.argv else 1
    only = sys.argv[sys.argv.index('--only') + 1] if '--only' in sys.argv else None
    funcs = sys.argv[sys.argv.index('--functions') + 1].split(',') if '--functions' in sys.argv else None
    maxprops = int(sys.argv[sys.argv.index('--maxprops') + 1]) if '--maxprops' in sys.argv else 99
    muts = candidates()
    if only:
        muts = [m for m in muts if only in m['file']]
    if funcs:
        muts = [m for m in muts if m['function'].split('.')[0] in funcs or m['function'] in funcs]
    rng = random.Random(seed)
    rng.shuffle(muts)
    # the constant mutants are four fifths of the candidates: take the others first in equal measure
    muts = [m for pair in zip([m for m in muts if not m['desc'].startswith('const')] * 5, [m for m in muts if m['desc'].startswith('const')])
            for m in pair]
    seen, uniq = set(), []
    for m in muts:
        k = (m['file'], m['line'], m['c0'], m['new'])
        if k not in seen:
            seen.add(k); uniq.append(m)
    muts = uniq
    res_path = os.path.join(VERIF, 'mutation', 'results.jsonl')
    done = 0
    for m in muts:
        if done >= n:
            break
        scratch = '/tmp/mutant_{}'.format(os.getpid())
        shutil.rmtree(scratch, ignore_errors=True)
        os.makedirs(scratch)
        for d in ('bronzebeard', 'tests', 'docs', 'examples'):
            if os.path.exists(os.path.join(REPO, d)):
                shutil.copytree(os.path.join(REPO, d), os.path.join(scratch, d))
        for fn in os.listdir(REPO):
            if os.path.isfile(os.path.join(REPO, fn)):
                shutil.copy(os.path.join(REPO, fn), scratch)
        new_line = apply_mut(scratch, m)
        env = dict(os.environ, PYTHONPATH=scratch, PYTHONHASHSEED='0')
        rc, o = sh([PY, '-m', 'pytest', '-q', '-p', 'no:cacheprovider', '-x'], cwd=scratch, env=env)
        if rc != 0:
            shutil.rmtree(scratch, ignore_errors=True)
            continue                                  # killed by the repo's own tests (or does not import)
        done += 1
        rec = dict(m, new_line=new_line, seed=seed, checks={})
        caught = False
        for p in m['props'][:maxprops]:
            t0 = time.time()
            rc, o = sh([PY, 'tools/check.py', p, '--tier', 'quick'], cwd=copy,
                       env=dict(os.environ, VERIF_REPO=scratch, VERIF_SEED='1'), timeout=3000)
            lines = [l for l in o.split('\n') if l.startswith('VIOLATION') or l.startswith(p + ':')]
            rec['checks'][p] = {'rc': rc, 'lines': [l[:300] for l in lines], 'wall_s': round(time.time() - t0, 1)}
            if rc != 0:
                caught = True
                break                                  # reported by one check: enough
        rec['caught'] = caught
        with open(res_path, 'a') as f:
            f.write(json.dumps(rec) + '\n')
        print('{} {}:{} [{}] {} | {}  -> {}'.format('CAUGHT' if caught else 'MISSED', m['file'].split('/')[-1], m['line'], m['function'],
                                                   m['desc'], new_line[:90], {p: c['rc'] for p, c in rec['checks'].items()}), flush=True)
        shutil.rmtree(scratch, ignore_errors=True)
    print('ALLDONE')


if __name__ == '__main__':
    main()
