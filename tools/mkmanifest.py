#!/usr/bin/env python3
"""Writes MANIFEST.json from the table below (kept in one place so it stays valid)."""
import json, os
VERIF = os.path.dirname(os.path.dirname(os.path.abspath(__file__)))
ALL = ['C%02d' % i for i in range(1, 21)]
CLAIMED = {
 'C07': dict(
   text='Theorems C07_hi_fits / C07_lo_fits / C07_rebuild are proved for EVERY integer v about the Gallina translation of '
        'asm.relocate_hi / relocate_lo / sign_extend that tools/py2coq.py regenerates from /repo on every run; the generated '
        'functions are additionally run against the Python originals, and %hi/%lo pairs assembled by the real assembler are '
        'decoded by the extracted Spec decoder and recombined.',
   note='Trusted: Coq kernel, the py2coq translation of Python int operators to Z operators, extraction + OCaml drivers, the '
        'Spec decoder (decode32). Zero axioms (Print Assumptions: closed under the global context).',
   technique='Coq proof over a model regenerated from source by a translator; differential run of the generated functions; Spec-decoded falsifier',
   design='6/C07'),
}
def main():
    checks = []
    for pid in ALL:
        if pid not in CLAIMED: continue
        c = CLAIMED[pid]
        checks.append({
            'property_id': pid,
            'quick_cmd': '/venv/bin/python tools/check.py {} --tier quick'.format(pid),
            'thorough_cmd': '/venv/bin/python tools/check.py {} --tier thorough'.format(pid),
            'evidence_file': 'evidence/{}.json'.format(pid),
            'replay_cmd_template': '/venv/bin/python tools/check.py replay {path}',
            'engine': c.get('engine', 'coq+py2coq'),
            'level_claimed': {'category': 'proof', 'text': c['text'], 'design_ref': 'DESIGN.md section ' + c['design']},
            'level_note': c['note'],
            'technique': c['technique'],
        })
    na = [{'property_id': p, 'reason': 'machinery for this property is not built yet (work in progress; see DESIGN.md section 6 for the plan)'}
          for p in ALL if p not in CLAIMED]
    m = {
        'version': 1,
        'setup_cmd': '/venv/bin/python tools/check.py setup',
        'hooks': {'guard': 'BRONZEBEARD_VERIF', 'enable': 'no source hooks are needed: the harness wraps functions from outside the package (BRONZEBEARD_VERIF=1 is exported by tools/check.py for completeness)',
                  'baseline_off_cmd': 'cd /repo && /venv/bin/python -m pytest -ra -q -p no:cacheprovider --timeout=900 --continue-on-collection-errors',
                  'source_commits': [], 'add_only': True},
        'engines': [
            {'name': 'py2coq', 'path': 'tools/py2coq.py', 'serves_properties': sorted(CLAIMED), 'kind_free_text': 'fail-closed Python-ast to Gallina translator (regenerates coq/Gen on every run)'},
            {'name': 'coq', 'path': 'coq/', 'serves_properties': sorted(CLAIMED), 'kind_free_text': 'Coq 8.16.1 theories: Base, Gen (generated), Spec, Model, Proofs, Props'},
            {'name': 'bbmodel/bbspec', 'path': 'ocaml/', 'serves_properties': sorted(CLAIMED), 'kind_free_text': 'extracted executable model and specification with line-oriented OCaml drivers'},
            {'name': 'check', 'path': 'tools/check.py', 'serves_properties': sorted(CLAIMED), 'kind_free_text': 'orchestrator: regenerate, make, correspondence, falsifier, verdict, evidence'},
        ],
        'checks': checks,
        'not_applicable': na,
        'notes': 'All checks share one Coq development; each check rebuilds only the cone of its Props/<id>.v. See DESIGN.md.',
    }
    if not na: del m['not_applicable']
    json.dump(m, open(os.path.join(VERIF, 'MANIFEST.json'), 'w'), indent=1)
if __name__ == '__main__':
    main()
