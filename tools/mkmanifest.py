#!/usr/bin/env python3
"""Writes MANIFEST.json from the table below (kept in one place so it stays valid)."""
import json, os
VERIF = os.path.dirname(os.path.dirname(os.path.abspath(__file__)))
ALL = ['C%02d' % i for i in range(1, 21)]
CLAIMED = {
 'C01': dict(
   text='C01_decode_encode: for each of the 66 base mnemonics and ALL operands (any register spelling, any integer), a word returned by the '
        'generated encoder (py2coq translation of the format functions, partial() table and INSTRUCTIONS dictionary, regenerated per run) is '
        '< 2^32 and decode32 (hand-written Spec from the ISA manual) yields exactly the instruction the operands name; C01_injective: equal '
        'words imply equal normalised operand tuples; C01_registers: lookup_register accepts exactly the documented spellings. The 9 format '
        'encoders are proved equal to arithmetic normal forms symbolically (no sweep). C01_line_end_to_end: for every three-register mnemonic of '
        'the R-type table and any operand tokens, the parser model and all 16 passes of the pass model turn the token line into exactly the '
        'four little-endian bytes of the generated encoder\'s word (front end, passes and encoders composed inside Coq); C01_imm_line_end_to_end / C01_transfer_line_end_to_end: the same for the I-, S-, U-type tables and for branches / jal with a literal immediate; C01_text_line_end_to_end: from the TEXT of the line in any separator style (C13_line) through lexer, parser and passes to those bytes. Falsifier: real encoders + one-line text path over full '
        'immediate ranges, decoded by the extracted Spec. MORE LINES (Proofs/EndToEndMore.v, sub-agent): C01_atomic_line_end_to_end (lr.w / sc.w / amo*.w with and without the two ordering operands: the aq / rl BITS written on the line), '
        'C01_fence_line_end_to_end (fence succ, pred; fence alone; fence.i), C01_system_line_end_to_end (ecall; ebreak, c.ebreak with -c), C01_csr_line_end_to_end (six csr mnemonics, CSR number 0..4095), C01_imm_reg_line_end_to_end (loads / stores / jalr in the imm(reg) spelling): '
        'token line or text -> lexer model -> parser model -> 16 passes -> the four little-endian bytes of the generated encoder\'s word, which decode32 reads back as the instruction the line names, in both modes (lw / sw / jalr head compression rules: stated for compress = false); '
        'C01_more_line_exact (legal operands: that word; otherwise refused at the line); C01_tables_cover (the parser\'s ten 32-bit tables are exactly the Spec\'s 66 mnemonics).',
   note='Trusted: Coq kernel, py2coq, Spec decoder + operand reading (Spec/RV32.v, Spec/Operands.v), hand model of int(s,0) (PyBase.py_int_lit, differentially tested), '
        'extraction/drivers. The little-endian packing and the text front end are covered by the falsifier (text path) and by C09/C13, not by these theorems. Zero axioms.',
   technique='Coq proof over translator-regenerated encoders (symbolic bit-field lemmas) + differential run of generated code + Spec-decoding falsifier',
   design='6/C01'),
 'C02': dict(
   text='C02_forward: any halfword a generated c.* encoder returns (all operand spellings, ALL integers) is a legal non-hint non-reserved RV32C encoding '
        'whose decode16 names the operands; C02_converse: each of the 65 536 halfwords that decode16 accepts is produced from its canonical operands; '
        'C02_injective; C02_line_end_to_end: an explicitly written compressed instruction (two registers, or register + literal) goes through the parser model and all 16 passes to exactly the two little-endian bytes of the encoder\'s halfword. Proof: symbolic guard extraction per mnemonic + in-kernel sweep (vm_compute) over the complete guard box of every mnemonic and over all halfwords. '
        'FROM THE TEXT (Spec/Print16.v, Proofs/TextConverse*.v, sub-agent): C02_text_converse -- for EVERY halfword h that decode16 accepts, its canonical text (mnemonic, xN registers, decimal immediates; written from the instruction reference, independent of the assembler) '
        'lexes to its tokens and goes through the parser model and all 16 passes -- compression off and on, in any separator style -- to exactly the two bytes of h; C02_text_injective -- canonical texts and legal halfwords correspond one-to-one; C02_text_paren / C02_text_lui_hex for the documented second spellings. '
        'Falsifier: all tuples in and around the legal sets on the real encoders; all 65 536 halfwords re-assembled from canonical text by the real assembler.',
   note='Trusted: as C01 plus the vm_compute machine for the finite sweeps; Spec/RVC.v decode16 (cross-checked: accepts 28 461 halfwords).',
   technique='Coq proof: symbolic guard lemmas + exhaustive in-kernel sweeps over generated encoders; exhaustive falsifier',
   design='6/C02'),
 'C06': dict(
   text='C06_exact_base / C06_exact_compressed: for all 93 mnemonics the generated encoder accepts an operand tuple IF AND ONLY IF every operand is readable and inside '
        'the documented set (Spec/Legal.v: interval, scale, register class, non-zero, shamt<32, CSR 0..4095), for all integers; C06_no_truncation_*: what is accepted decodes to the operands named. '
        'AT THE TEXT LEVEL (Proofs/Legal*.v, sub-agent; whole-pipeline model assemble_text = lexer model -> parser model -> 16 passes): C06_line_refused -- a line of the R-, I-, S-, U-type tables or a branch / jal with a literal offset '
        '(any case, any register spelling, any closed immediate expression) whose operands are outside the documented set makes the one-line program fail with the assembler\'s own error AT THAT LINE, in both modes -- no result, no bytes; '
        'C06_line_accepted(_with_compression) -- legal operands give the encoder\'s word; C06_line_refused_in_any_program -- a file containing such a line never assembles, whatever the other lines, constants and labels are (side condition: the register tokens of the line are not constants); '
        'C06_c_line_* the same for explicitly written compressed instructions; C06_any_instruction_line_* for any line the parser turns into a non-atomic instruction (fence, imm(reg) form); C06_rules_fire_on_legal_operands_only (in-kernel sweep of the 29 rules). '
        'Falsifier: every bound +-, all residues, far-out values, all register numbers/names on real encoders and on one-line programs (AssemblerError, no output).',
   note='Trusted: as C01/C02; the documented operand sets are my reading of the manuals (tools/isa.py is an independent second transcription used by the falsifier). '
        'The ValueError->AssemblerError conversion of resolve_instructions is exercised by the falsifier text path and modelled in C15.',
   technique='Coq proof (iff) over translator-regenerated encoders; boundary-enumerating falsifier with independent operand-set table',
   design='6/C06'),
 'C07': dict(
   text='Theorems C07_hi_fits / C07_lo_fits / C07_rebuild are proved for EVERY integer v about the Gallina translation of '
        'asm.relocate_hi / relocate_lo / sign_extend that tools/py2coq.py regenerates from /repo on every run; the generated '
        'functions are additionally run against the Python originals, and %hi/%lo pairs assembled by the real assembler are '
        'decoded by the extracted Spec decoder and recombined. THE CONSUMING PAIRS ON THE MACHINE (Proofs/RelocPairs*.v, sub-agent; pass model + generated encoders + Spec/Sem.v): '
        'C07_lui_addi_pair -- `lui rd,%hi(e)` / `addi rd,rd,%lo(e)` leaves e mod 2^32 in rd and nothing else, for every expression that is not position-relative (literals, constants, bare labels, %position) and every integer value; '
        'C07_lui_load_pair / C07_lui_store_pair (lb..lhu / sb..sw access exactly address v); the two-line programs through all 16 passes, also with compression; C07_pair_anywhere -- the pair anywhere in any program (compress = false) comes out as two adjacent 4-byte chunks with these bytes; '
        'C07_auipc_jalr_pair / C07_auipc_addi_pair -- the TRUE theorem for hand-written auipc pairs: the second %offset is evaluated 4 bytes later (documented: relative to the current item), so the same label in both halves reaches L - 4 (C07_auipc_jalr_same_label_misses) and naming a label 4 bytes behind the target lands (C07_auipc_jalr_next_label_lands); call / tail set the pairing flag themselves (C05_call_far).',
   note='Trusted: Coq kernel, the py2coq translation of Python int operators to Z operators, extraction + OCaml drivers, the '
        'Spec decoder (decode32). Zero axioms (Print Assumptions: closed under the global context).',
   technique='Coq proof over a model regenerated from source by a translator; differential run of the generated functions; Spec-decoded falsifier',
   design='6/C07'),
}
NA_REASON = {}   # property id -> reason, for properties not claimed


def collect():
    """props modules may carry their own CLAIM = dict(text, note, technique, design[, category])."""
    import importlib, sys
    sys.path.insert(0, os.path.join(VERIF, 'tools'))
    for pid in ALL:
        if os.path.exists(os.path.join(VERIF, 'tools', 'props', pid + '.py')):
            try:
                mod = importlib.import_module('props.' + pid)
            except Exception as e:
                print('cannot import props.' + pid, e)
                raise SystemExit(1)
            c = getattr(mod, 'CLAIM', None)
            if c:
                CLAIMED[pid] = c
            if getattr(mod, 'NOT_APPLICABLE', None):
                NA_REASON[pid] = mod.NOT_APPLICABLE
                CLAIMED.pop(pid, None)


def main():
    collect()
    checks = []
    for pid in ALL:
        if pid not in CLAIMED: continue
        c = CLAIMED[pid]
        checks.append({
            'property_id': pid,
            'quick_cmd': '/venv/bin/python tools/check.py {} --tier quick'.format(pid),
            'thorough_cmd': '/venv/bin/python tools/check.py {} --tier thorough'.format(pid),
            'evidence_file': 'evidence/{}.json'.format(pid),
            'replay_cmd_template': '/venv/bin/python tools/check.py replay {path}',
            'engine': c.get('engine', 'coq+py2coq'),
            'level_claimed': {'category': c.get('category', 'proof'), 'text': c['text'], 'design_ref': 'DESIGN.md section ' + c['design']},
            'level_note': c['note'],
            'technique': c['technique'],
        })
    na = [{'property_id': p, 'reason': NA_REASON.get(p) or 'machinery for this property is not built yet (work in progress; see DESIGN.md section 6 for the plan)'}
          for p in ALL if p not in CLAIMED]
    m = {
        'version': 1,
        'setup_cmd': '/venv/bin/python tools/check.py setup',
        'hooks': {'guard': 'BRONZEBEARD_VERIF', 'enable': 'no source hooks are needed: the harness wraps functions from outside the package (BRONZEBEARD_VERIF=1 is exported by tools/check.py for completeness)',
                  'baseline_off_cmd': 'cd /repo && /venv/bin/python -m pytest -ra -q -p no:cacheprovider --timeout=900 --continue-on-collection-errors',
                  'source_commits': [], 'add_only': True},
        'engines': [
            {'name': 'py2coq', 'path': 'tools/py2coq.py', 'serves_properties': sorted(CLAIMED), 'kind_free_text': 'fail-closed Python-ast to Gallina translator (regenerates coq/Gen on every run)'},
            {'name': 'coq', 'path': 'coq/', 'serves_properties': sorted(CLAIMED), 'kind_free_text': 'Coq 8.16.1 theories: Base, Gen (generated), Spec, Model, Proofs, Props'},
            {'name': 'bbmodel/bbspec', 'path': 'ocaml/', 'serves_properties': sorted(CLAIMED), 'kind_free_text': 'extracted executable model and specification with line-oriented OCaml drivers'},
            {'name': 'check', 'path': 'tools/check.py', 'serves_properties': sorted(CLAIMED), 'kind_free_text': 'orchestrator: regenerate, make, correspondence, falsifier, verdict, evidence'},
        ],
        'checks': checks,
        'not_applicable': na,
        'notes': 'All checks share one Coq development; each check rebuilds only the cone of its Props/<id>.v. See DESIGN.md.',
    }
    if not na: del m['not_applicable']
    json.dump(m, open(os.path.join(VERIF, 'MANIFEST.json'), 'w'), indent=1)
if __name__ == '__main__':
    main()
