"""Shared helpers: access to the REAL implementation under /repo and small utilities."""
import importlib
import os
import struct
import sys

REPO = os.environ.get('VERIF_REPO', '/repo')


def real_asm():
    """Import bronzebeard.asm from /repo's working tree (fresh module object per process)."""
    if REPO not in sys.path:
        sys.path.insert(0, REPO)
    for m in list(sys.modules):
        if m == 'bronzebeard' or m.startswith('bronzebeard.'):
            f = getattr(sys.modules[m], '__file__', '') or ''
            if not f.startswith(REPO):
                del sys.modules[m]
    return importlib.import_module('bronzebeard.asm')


def hexs(s):
    return s.encode('utf-8').hex()


def arg_token(a):
    """Operand for the bbmodel `enc` command."""
    if isinstance(a, bool):
        raise ValueError('bool operand')
    if isinstance(a, int):
        return 'i:{}'.format(a)
    return 's:' + hexs(a)


def exc_class(e):
    n = type(e).__name__
    if n == 'error' and type(e).__module__ == 'struct':
        return 'StructError'
    return n


def words32(b):
    return [struct.unpack_from('<I', b, i)[0] for i in range(0, len(b) - 3, 4)]
