#!/venv/bin/python
"""Behavioural half of property C16 (history / hash-seed independence of `assemble` and the command line).

Evaluated directly on the REAL code (harness.real_asm()):

* a POOL of call specs (valid programs, programs failing in every stage, programs that share constant / label
  NAMES with different values, caller-supplied dictionaries);
* a FRESH-PROCESS ORACLE: every call spec run alone in a brand-new interpreter (PYTHONHASHSEED=0);
* HISTORIES: interleavings of pool calls executed sequentially in ONE interpreter (worker processes with a FIXED
  hash seed, so that the check is reproducible: the hash seed of the check.py process itself is random); after
  each call the canonical result must equal the oracle's, and the dictionaries handed to earlier calls must stay
  untouched;
* HASH SEEDS: the same calls under several PYTHONHASHSEED values, through the API and through the command line.

Public interface:  explore(ctx), replay(ctx, rec).
Worker mode (only under __main__):  history_engine.py --worker
  stdin  {"pool": [spec, ...], "histories": [[pool index, ...], ...]}
  stdout {"runs": [{"results": [...], "changes": [...]}, ...], "file": ..., "hashseed": ...}
All histories of one request run one after the other in the same interpreter on the same module object.
"""
import concurrent.futures
import copy
import json
import logging
import os
import shutil
import subprocess
import sys
import tempfile
import threading

import harness

PY = '/venv/bin/python'
TMP_BASE = os.environ.get('VERIF_TMP', os.path.join(os.path.dirname(os.path.dirname(os.path.abspath(__file__))), 'build',
                                                     'tmp_c16'))
PLACEHOLDER = '<TMP>'
ROOT_PLACEHOLDER = '<TMPROOT>'
SEEDS = [0, 1, 2, 12345, 4294967295]
TIMEOUT = 900
MAX_CEX = 5
MAIN_FILE = 'main.asm'
THREADS = 8

RULE = ('distinct non-trivial case = a distinct ORDERED adjacent pair (previous pool program, pool program) inside a '
        'history executed in one interpreter whose second call was compared with the fresh-process result of the '
        'same call spec, plus every distinct (call spec, PYTHONHASHSEED, api|cli) triple compared with the seed-0 '
        'fresh-process result')


# ------------------------------------------------------------------------------------------------ pool
def build_pool():
    """The call specs.  Every entry is JSON-serialisable; every call gets deep copies of its dictionaries."""
    pool = []

    def add(name, source=None, compress=False, constants=None, labels=None, **extra):
        spec = {'name': name, 'source': source, 'compress': compress, 'constants': constants, 'labels': labels}
        spec.update(extra)
        pool.append(spec)

    # ---- valid programs
    add('const-basic', "FOO = 42\nBAR = FOO * 2\nBAZ = (BAR >> 1) & 0b11111\nQMARK = '?'\n"
                       "addi zero zero BAR\naddi t0 zero BAZ\naddi x0 x0 QMARK\n")
    add('reg-alias', "W = s0\nIP = gp\nTMP = t0\naddi W IP 4\nlw TMP 0(IP)\nsw TMP 4(W)\nadd TMP W IP\n")
    add('reg-alias-c', "W = s0\nIP = gp\nTMP = t0\naddi W IP 4\nlw TMP 0(IP)\nsw TMP 4(W)\nadd TMP W IP\n",
        compress=True)
    add('labels-jumps', "start:\n    addi t0 zero 42\n    jal zero end\nmiddle:\n    beq t0 zero main\n"
                        "    addi t0 t0 -1\nend:\n    jal zero middle\nmain:\n    addi zero zero 0\n")
    add('loop-def', "loop:\n    addi t0 t0 1\n    j loop\n")
    add('loop-def-far', "nop\nnop\nnop\nloop:\n    addi t0 t0 1\n    j loop\n")
    add('loop-def-c', "nop\nloop:\n    addi s0 s0 1\n    j loop\n", compress=True)
    add('X-def-5', "X = 5\naddi t0 zero X\n")
    add('X-def-9', "X = 9\naddi t0 zero X\n")
    add('X-label', "nop\nX:\n    addi t0 zero X\n")
    add('name-clash', "X = 8\nnop\nX:\n    addi t0 zero X\nloop = 3\naddi t1 zero loop\n")
    add('li-near', "li t0 42\nli t1 -2048\nli t2 2047\nli t3 0\nend:\n")
    add('li-far', "li t0 0x20000000\nli t1 0x12345678\nli t2 -2049\nli t3 0xfffff800\nli t4 2048\nend:\n")
    add('li-label', "li t0 target\nnop\ntarget:\n    addi t0 t0 1\n")
    add('call-near', "start:\n    call func\n    tail func\n    j start\nfunc:\n    ret\nafter:\n")
    add('call-far', "call far\ntail far\ncall near\ntail near\nhere:\n    j near\n",
        labels={'far': 0x20000000, 'near': 0})
    add('call-far-c', "call far\ntail far\ncall near\ntail near\nhere:\n    j near\n", compress=True,
        labels={'far': 0x20000000, 'near': 0})
    add('align', "bytes 0x42\nalign 4\nafter:\n    addi x0 x0 0\nshorts 1\nalign 8\nend:\n")
    add('string', "string hello\\nworld\nstring \"quoted\"  # not a comment\nalign 4\ndone:\n")
    add('seq', "bytes 1 2 0x03 0b100 -1 0xff\nshorts 0x1234 -2\nints 1 2 3 4\nlongs 0xffffffff\n"
               "longlongs 0x1122334455667788 -1\n")
    add('pack', "ADDR = 0x08000000\nfoo:\npack <B 255\npack <h -1234\npack >H 0x1234\npack <I ADDR\n"
                "pack <I %position(foo, ADDR)\npack <q -5\n")
    add('shorthand', "some_label:\ndb -1\ndb 0xff\ndh 0x2000\ndw 0x20000000\ndw some_label\n"
                     "dd 0x2000000000000000\nlast:\ndw last\n")
    add('modifiers', "ADDR = 0x20000000\naddi zero zero 0\naddi zero zero 0\naddi zero zero 0\nmain:\n"
                     "    lui t0 %hi ADDR\n    addi t0 t0 %lo(ADDR)\n    addi t0 t0 main\n"
                     "    lui t0 %hi %position main ADDR\n    addi t0 t0 %lo(%position(main, ADDR))\n"
                     "    addi t1 zero %offset(main)\n    addi t1 zero %offset main\n")
    cmix = ("SAVED = s0\nstart:\n    addi sp sp -16\n    sw ra 12(sp)\n    sw SAVED 8(sp)\n    li a0 5\n"
            "    mv a1 a0\n    add a0 a0 a1\n    lw a2 0(a0)\n    beqz a0 done\n    jal helper\n    j start\n"
            "helper:\n    addi a0 a0 1\n    slli a0 a0 2\n    and a0 a0 a1\n    lui a3 3\n    ret\n"
            "done:\n    lw ra 12(sp)\n    addi sp sp 16\n    ebreak\n    ret\n")
    add('cmix-nc', cmix, compress=False)
    add('cmix-c', cmix, compress=True)
    add('c-explicit', "c.nop\nc.addi s0 1\nc.li a0 -3\nc.mv a0 a1\nc.add a0 a1\nc.lw a0 4(a1)\nc.sw a0 4(a1)\n"
                      "c.jr ra\nc.ebreak\ntop:\nc.j top\nc.beqz a0 top\n")
    add('misc-isa', "top:\nlr.w t0 t1\nsc.w t2 t1 t0\namoadd.w t0 t1 t2 1 1\nfence\nfence.i\nfence 0b0011 0b1100\n"
                    "csrrw t0 t1 0x300\ncsrrwi t0 5 0x300\necall\nebreak\nmul t0 t1 t2\nlui t0 0x12345\n"
                    "auipc t1 1\nneg t0 t1\nnot t0 t1\nseqz t0 t1\nbgt t0 t1 top\nbleu t0 t1 top\n")
    add('many-labels', "alpha:\n    nop\nbravo:\n    j hotel\ncharlie:\n    nop\ndelta:\n    li t0 1\necho:\n"
                       "    beq t0 t1 alpha\nfoxtrot:\n    nop\ngolf:\n    call india\nhotel:\n    nop\nindia:\n"
                       "    align 8\njuliet:\n    ret\nkilo:\nlima:\n    dw kilo\n")
    add('many-labels-c', "alpha:\n    nop\nbravo:\n    j hotel\ncharlie:\n    nop\ndelta:\n    li t0 1\necho:\n"
                         "    beq t0 t1 alpha\nfoxtrot:\n    nop\ngolf:\n    call india\nhotel:\n    nop\nindia:\n"
                         "    align 8\njuliet:\n    ret\nkilo:\nlima:\n    dw kilo\n", compress=True)
    add('many-consts', "ZULU = 1\nYANKEE = ZULU + 1\nXRAY = YANKEE * 2\nWHISKEY = XRAY << 2\nVICTOR = t0\n"
                       "UNIFORM = a0\nTANGO = 'T'\nSIERRA = WHISKEY - 1\nROMEO = s1\nQUEBEC = 0x7ff\n"
                       "addi VICTOR UNIFORM SIERRA\naddi ROMEO ROMEO QUEBEC\naddi UNIFORM zero TANGO\n")
    add('mnemonic-label', "add:\n    addi t0 t0 1\n    j add\nnop:\n    beq t0 t1 nop\n")
    add('mnemonic-const', "addi = 4\nalign = 8\naddi t0 t0 addi\naddi t0 t0 align\n")
    add('string-eq', "string = 3\n")
    add('empty', "\n# nothing here\n")

    # ---- programs that use names other programs define (must fail identically whatever ran before)
    add('X-use', "addi t0 zero X\n")
    add('X-use-c', "addi t0 zero X\n", compress=True)
    add('X-use-const', "Y = X + 1\naddi t0 zero Y\n")
    add('loop-use', "addi t0 t0 1\nj loop\n")
    add('loop-use-c', "addi s0 s0 1\nj loop\n", compress=True)
    add('FOO-use', "addi t0 zero FOO\nj main\n")
    add('W-use', "addi W W 1\n")
    add('li-X', "li t0 X\n")

    # ---- caller-supplied dictionaries
    add('X-use-given7', "addi t0 zero X\n", constants={'X': 7})
    add('X-def5-given7', "X = 5\naddi t0 zero X\n", constants={'X': 7})
    add('X-use-empty', "addi t0 zero X\n", constants={}, labels={})
    add('X-def5-empty', "X = 5\naddi t0 zero X\n", constants={}, labels={})
    add('loop-use-given', "addi t0 t0 1\nj loop\n", labels={'loop': 64})
    add('loop-def-given', "loop:\n    li t0 1\n    j loop\n", labels={'loop': 64, 'other': 100})
    add('loop-use-empty', "addi t0 t0 1\nj loop\n", constants={}, labels={})
    add('loop-def-empty', "loop:\n    addi t0 t0 1\n    j loop\n", constants={}, labels={})
    add('alias-given', "addi W W 1\nlw W 0(IP)\n", constants={'W': 8, 'IP': 'gp'})
    add('given-then-fail', "Y = X * 2\nhere:\nbytes 300\n", constants={'X': 7}, labels={'loop': 4})
    add('given-both-c', "Z = X + 1\nstart:\n    addi s0 s0 Z\n    j loop\n", compress=True,
        constants={'X': 7}, labels={'loop': 2, 'far': 4096})

    # ---- failing programs, stage by stage
    add('bad-syntax', "addi t0 t0 1\nfoo bar baz\n")
    add('error-directive', "X = 5\nerror This device doesn't support displays\n")
    add('bad-include', "include nonexistent_c16_file.asm\n")
    add('bad-include-noarg', "include \n")
    add('bad-include-bytes', "include_bytes nonexistent_c16_blob.bin\n")
    add('bad-align', "align foo\n")
    add('rtype-argc', "add t0 t1\n")
    add('sw-short', "sw t0\n")
    add('shadow-reg', "t0 = 5\n")
    add('const-number', "0x40 = 3\n")
    add('const-offset', "foo:\nX = %offset foo\n")
    add('const-nonint', "X = 1.5\n")
    add('const-badexpr', "X = 1 +\n")
    add('bad-li', "li t0\n")
    add('bad-mv', "mv t0\n")
    add('unknown-label', "beq t0 t1 nowhere\n")
    add('unknown-position', "pack <I %position(nowhere, 4)\n")
    add('imm-range', "addi t0 t0 5000\n")
    add('bad-reg', "addi q0 t0 1\n")
    add('j-far-fail', "j far\n", labels={'far': 0x20000000})
    add('branch-odd', "beq t0 t1 3\n")
    add('seq-range', "X = 5\nbytes 1 2 256\n")
    add('seq-nonint', "bytes foo\n")
    add('pack-range', "here:\npack <B 300\n")
    add('pack-badfmt', "pack <Z 1\n")
    add('db-range', "db 256\n")
    add('c-unknown-label', "addi s0 s0 1\nbeq s0 zero nowhere\n", compress=True)
    add('c-bad-reg', "loop:\naddi q9 q9 1\n", compress=True)
    add('c-imm-range', "c.addi s0 100\n")
    add('c-reg-range', "c.lw t0 0(a0)\n")
    add('csr-argorder', "T = 3\ncsrrw t0 0x300 t1\n")

    # ---- programs with files
    add('inc-a', "include defs.asm\naddi t0 zero X\n", files={'inc/defs.asm': "X = 5\nshared:\n"},
        include_dirs=['inc'])
    add('inc-b', "include defs.asm\naddi t0 zero X\n", files={'inc/defs.asm': "X = 9\nnop\nshared:\n"},
        include_dirs=['inc'])
    add('inc-path', None, files={MAIN_FILE: "include sub.asm\nstart:\n    addi t0 zero Y\n    j start\n",
                                 'sub.asm': "Y = 3\nsubl:\n    nop\n"}, path=MAIN_FILE)
    add('inc-path-c', None, compress=True,
        files={MAIN_FILE: "include sub.asm\nstart:\n    addi s0 s0 Y\n    j start\n",
               'sub.asm': "Y = 3\nsubl:\n    nop\n"}, path=MAIN_FILE, constants={}, labels={})
    add('inc-fail', None, files={MAIN_FILE: "include sub.asm\nend:\n", 'sub.asm': "Y = 3\naddi t0 t0 5000\n"},
        path=MAIN_FILE)
    add('incbytes', None, files={MAIN_FILE: "start:\ninclude_bytes blob.bin\nalign 4\nend:\n    j start\n",
                                 'blob.bin': {'hex': '00ff1234ab'}}, path=MAIN_FILE, chdir=True)
    add('incbytes-nocwd', None, files={MAIN_FILE: "include_bytes blob.bin\n", 'blob.bin': {'hex': '0102'}},
        path=MAIN_FILE)

    # one search-path list shared by all these calls (a caller that builds its -i list once); each program has its own util.asm
    for tag, val in (('A', 1), ('B', 2)):
        add('share-' + tag, None, files={MAIN_FILE: "include util.asm\ninclude common.asm\naddi t0 zero U\naddi t1 zero COMMON\n",
                                         'util.asm': "U = {}\n".format(val)}, path=MAIN_FILE, shared_dirs='S')
    add('share-fail', None, files={MAIN_FILE: "include util.asm\naddi t0 zero 5000\n", 'util.asm': "U = 3\n"},
        path=MAIN_FILE, shared_dirs='S')
    add('share-sub', None, files={MAIN_FILE: "include sub/inner.asm\naddi t0 zero U\n", 'sub/inner.asm': "include util.asm\n",
                                  'sub/util.asm': "U = 4\n", 'util.asm': "U = 5\n"}, path=MAIN_FILE, shared_dirs='S')

    # assignment expressions inside eval(): the store goes to the per-call constants (first map of the ChainMap), never
    # to the module-level REGISTERS table -- later calls must still see the real registers
    add('walrus-const', "X = (zero := 7)\naddi t0 zero X\naddi t1 zero 1\n")
    add('walrus-const-given', "X = (sp := 7)\naddi t0 sp X\n", constants={}, labels={})
    add('walrus-imm', "addi t0 x0 (sp := 9)\naddi t1 sp 0\n")
    add('regs-use', "addi t1 sp 0\naddi t0 zero 1\nadd a0 sp zero\n")
    add('regs-use-c', "addi t1 sp 0\naddi t0 zero 1\nadd a0 sp zero\n", compress=True)

    names = [s['name'] for s in pool]
    assert len(set(names)) == len(names)
    return pool


# ordered pairs forced at the start of the histories (both orders are generated)
FORCED_PAIRS = [
    ('X-def-5', 'X-use'), ('X-def-9', 'X-use'), ('X-def-5', 'X-def-9'), ('X-def-5', 'X-use-const'),
    ('X-def-5', 'X-use-c'), ('X-def-5', 'li-X'), ('X-def-5', 'X-use-empty'), ('X-def5-empty', 'X-use'),
    ('X-def5-given7', 'X-use-given7'), ('X-use-given7', 'X-use'), ('X-label', 'X-use'), ('name-clash', 'X-use'),
    ('loop-def', 'loop-use'), ('loop-def-far', 'loop-use'), ('loop-def', 'loop-def-far'),
    ('loop-def-c', 'loop-use-c'), ('loop-def', 'loop-use-empty'), ('loop-def-empty', 'loop-use'),
    ('loop-def-given', 'loop-use-given'), ('loop-use-given', 'loop-use'), ('name-clash', 'loop-use'),
    ('const-basic', 'FOO-use'), ('labels-jumps', 'FOO-use'), ('reg-alias', 'W-use'), ('alias-given', 'W-use'),
    ('inc-a', 'inc-b'), ('inc-a', 'X-use'), ('inc-path', 'inc-fail'), ('error-directive', 'X-use'),
    ('given-then-fail', 'X-use'), ('seq-range', 'X-use'), ('cmix-c', 'cmix-nc'), ('call-far', 'j-far-fail'),
    ('many-labels', 'many-labels-c'), ('incbytes', 'incbytes-nocwd'),
    ('walrus-const', 'regs-use'), ('walrus-const-given', 'regs-use'), ('walrus-imm', 'regs-use'),
    ('walrus-imm', 'regs-use-c'), ('walrus-const', 'X-use'),
    ('share-A', 'share-B'), ('share-fail', 'share-B'), ('share-sub', 'share-A'), ('share-A', 'share-sub'),
]

# programs preferred in the bounded hash-seed runs (many names / sets / aliases / compression)
QUICK_SEED_API = ['many-labels', 'many-labels-c', 'many-consts', 'cmix-c', 'reg-alias-c', 'labels-jumps',
                  'name-clash', 'call-far-c', 'loop-def-given', 'given-both-c', 'inc-path-c', 'given-then-fail',
                  'X-use', 'alias-given']
QUICK_SEED_CLI = ['many-labels', 'many-labels-c', 'cmix-c', 'inc-path', 'incbytes', 'X-use', 'seq-range',
                  'c-unknown-label']


# ------------------------------------------------------------------------------------------------ one call
def _key(spec):
    return json.dumps(spec, sort_keys=True)


def _jsonable(v):
    if v is None or isinstance(v, (bool, int, str)):
        return v
    if isinstance(v, float):
        return v if v == v and abs(v) != float('inf') else repr(v)
    return repr(v)


def _snap(d):
    """Items of a caller dictionary in iteration order (None when no dictionary was handed over)."""
    if d is None:
        return None
    return [[_jsonable(k), _jsonable(v)] for k, v in list(d.items())]


class Materialiser:
    """Writes the files of a spec below `root` (once per distinct spec) and normalises paths in messages."""

    def __init__(self, root):
        self.root = os.path.abspath(root)
        os.makedirs(self.root, exist_ok=True)
        self.dirs = {}
        self.shared = {}        # tag -> the ONE include_dirs list object every call with that tag is handed

    def shared_list(self, tag):
        if tag not in self.shared:
            d = os.path.join(self.root, 'shared_' + tag)
            write_files(d, {'common.asm': "COMMON = 77\n"})
            self.shared[tag] = ([d], [d])       # (the list handed to the calls, its contents as created)
        return self.shared[tag]

    def dir_for(self, spec):
        k = _key(spec)
        if k not in self.dirs:
            d = os.path.join(self.root, 'm%d' % len(self.dirs))
            write_files(d, spec.get('files') or {})
            self.dirs[k] = d
        return self.dirs[k]

    def norm(self, text, d=None):
        return normalise(text, [d] if d else [], [self.root])


def write_files(d, files):
    os.makedirs(d, exist_ok=True)
    for rel, content in sorted(files.items()):
        p = os.path.join(d, rel)
        if not os.path.abspath(p).startswith(os.path.abspath(d) + os.sep):
            raise RuntimeError('file outside of the temp dir: ' + rel)
        os.makedirs(os.path.dirname(p), exist_ok=True)
        data = bytes.fromhex(content['hex']) if isinstance(content, dict) else content.encode('utf-8')
        with open(p, 'wb') as f:
            f.write(data)


def normalise(text, dirs, roots):
    """Replace temp-dir names by fixed placeholders."""
    for d in dirs:
        for v in sorted({d, os.path.abspath(d), os.path.realpath(d)}, key=len, reverse=True):
            text = text.replace(v, PLACEHOLDER)
    for r in roots:
        for v in sorted({r, os.path.abspath(r), os.path.realpath(r)}, key=len, reverse=True):
            text = text.replace(v, ROOT_PLACEHOLDER)
    return text


def call_spec(asm, spec, mat):
    """Run one call on the real module.  Returns (canonical result, constants dict, labels dict)."""
    consts = copy.deepcopy(spec.get('constants'))
    labels = copy.deepcopy(spec.get('labels'))
    kwargs = {'compress': bool(spec.get('compress', False))}
    if consts is not None:
        kwargs['constants'] = consts
    if labels is not None:
        kwargs['labels'] = labels
    d = None
    if spec.get('files') or spec.get('path') or spec.get('include_dirs') is not None or spec.get('chdir'):
        d = mat.dir_for(spec)
    if spec.get('path'):
        arg = os.path.join(d, spec['path'])
    else:
        arg = spec['source']
    if spec.get('include_dirs') is not None:
        kwargs['include_dirs'] = [os.path.join(d, x) for x in spec['include_dirs']]
    shared = None
    if spec.get('shared_dirs'):
        # a caller that keeps ONE search-path list and hands it to every call
        shared = mat.shared_list(spec['shared_dirs'])
        kwargs['include_dirs'] = shared[0]
    old_cwd = None
    if spec.get('chdir'):
        old_cwd = os.getcwd()
        os.chdir(d)
    try:
        try:
            out = asm.assemble(arg, **kwargs)
            res = {'status': 'OK', 'bytes': bytes(out).hex()}
        except Exception as e:   # AssemblerError or anything else: the class is part of the result
            res = {'status': 'EXC', 'class': harness.exc_class(e), 'msg': mat.norm(str(e), d)}
    finally:
        if old_cwd is not None:
            os.chdir(old_cwd)
    res['constants'] = _snap(consts)
    res['labels'] = _snap(labels)
    if shared is not None:
        # the search path is an input, not an output: the call must leave the caller's list as it was created
        res['include_dirs_left_unchanged'] = (list(shared[0]) == list(shared[1]))
    return res, consts, labels


def run_history(asm, specs, mat):
    """All calls sequentially on the same module object.  Returns (results, dict-change events)."""
    results, changes, kept = [], [], []
    for j, spec in enumerate(specs):
        res, consts, labels = call_spec(asm, spec, mat)
        results.append(res)
        for ent in kept:
            now = _snap(ent[2])
            if now != ent[3]:
                changes.append({'earlier': ent[0], 'later': j, 'which': ent[1], 'before': ent[3], 'after': now})
                ent[3] = now
        if consts is not None:
            kept.append([j, 'constants', consts, res['constants']])
        if labels is not None:
            kept.append([j, 'labels', labels, res['labels']])
    return results, changes


def quiet():
    logging.getLogger('bronzebeard').setLevel(logging.WARNING)


# ------------------------------------------------------------------------------------------------ subprocesses
def _env(seed):
    env = dict(os.environ)
    env['PYTHONPATH'] = harness.REPO
    env['VERIF_REPO'] = harness.REPO
    env['PYTHONHASHSEED'] = str(seed)
    env['PYTHONDONTWRITEBYTECODE'] = '1'
    return env


class Session:
    """Temp root + caches of one explore / replay run."""

    def __init__(self):
        try:
            os.makedirs(TMP_BASE, exist_ok=True)
            base = TMP_BASE
        except OSError:
            base = tempfile.gettempdir()
        self.root = tempfile.mkdtemp(prefix='c16_', dir=base)
        self.oracle = {}
        self.worker_runs = 0
        self.cli_runs = 0
        self.lock = threading.Lock()

    def close(self):
        shutil.rmtree(self.root, ignore_errors=True)

    # -- workers
    def batch(self, pool, histories, seed=0):
        """Run the histories (lists of indices into `pool`) one after the other in ONE brand-new interpreter:
        the real module is imported once, every call of every history shares it.
        Returns [(results, dict-change events)] per history."""
        cwd = tempfile.mkdtemp(prefix='w_', dir=self.root)
        try:
            try:
                p = subprocess.run([PY, os.path.abspath(__file__), '--worker'],
                                   input=json.dumps({'pool': pool, 'histories': histories}),
                                   stdout=subprocess.PIPE, stderr=subprocess.PIPE, text=True, cwd=cwd,
                                   env=_env(seed), timeout=TIMEOUT)
            except subprocess.TimeoutExpired:
                raise RuntimeError('history_engine worker timed out ({} histories)'.format(len(histories)))
            if p.returncode != 0:
                raise RuntimeError('history_engine worker failed rc={} stderr={}'.format(p.returncode, p.stderr[-600:]))
            try:
                ans = json.loads(p.stdout)
                runs = [(r['results'], r['changes']) for r in ans['runs']]
            except (ValueError, KeyError, TypeError):
                raise RuntimeError('history_engine worker: invalid answer {!r}'.format(p.stdout[-300:]))
            if len(runs) != len(histories) or any(len(r[0]) != len(h) for r, h in zip(runs, histories)):
                raise RuntimeError('history_engine worker: wrong number of answers')
            if not str(ans.get('file', '')).startswith(harness.REPO) or str(ans.get('hashseed')) != str(seed):
                raise RuntimeError('history_engine worker imported {} (seed {}), expected {} (seed {})'.format(
                    ans.get('file'), ans.get('hashseed'), harness.REPO, seed))
            with self.lock:
                self.worker_runs += 1
            return runs
        finally:
            shutil.rmtree(cwd, ignore_errors=True)

    def worker(self, specs, seed=0):
        """Run `specs` sequentially in ONE brand-new interpreter; returns (results, changes)."""
        return self.batch(specs, [list(range(len(specs)))], seed)[0]

    def fresh(self, spec):
        """Fresh-process, seed-0 result of one call spec (cached)."""
        k = _key(spec)
        if k not in self.oracle:
            results, _ = self.worker([spec], 0)
            self.oracle[k] = results[0]
        return self.oracle[k]

    def fresh_many(self, specs):
        todo, seen = [], set()
        for s in specs:
            k = _key(s)
            if k not in self.oracle and k not in seen:
                seen.add(k)
                todo.append(s)
        if todo:
            with concurrent.futures.ThreadPoolExecutor(max_workers=THREADS) as ex:
                outs = list(ex.map(lambda s: self.worker([s], 0)[0][0], todo))
            for s, r in zip(todo, outs):
                self.oracle[_key(s)] = r
        return [self.oracle[_key(s)] for s in specs]

    # -- command line
    def cli(self, spec, seed):
        d = tempfile.mkdtemp(prefix='cli_', dir=self.root)
        try:
            files, inp = cli_files(spec)
            write_files(d, files)
            argv = ['bronzebeard', inp, '-o', 'out.bin', '-l', 'out.labels'] + (['-c'] if spec.get('compress') else [])
            code = 'import sys; from bronzebeard import asm; sys.argv={!r}; asm.cli_main()'.format(argv)
            try:
                p = subprocess.run([PY, '-c', code], stdout=subprocess.PIPE, stderr=subprocess.PIPE, cwd=d,
                                   env=_env(seed), timeout=TIMEOUT)
            except subprocess.TimeoutExpired:
                raise RuntimeError('command line timed out on {}'.format(spec.get('name')))
            res = {'rc': p.returncode,
                   'stdout': normalise(p.stdout.decode('utf-8', 'replace'), [d], [self.root]),
                   'stderr': normalise(p.stderr.decode('utf-8', 'replace'), [d], [self.root]),
                   'out': None, 'labels': None}
            po, pl = os.path.join(d, 'out.bin'), os.path.join(d, 'out.labels')
            if os.path.exists(po):
                with open(po, 'rb') as f:
                    res['out'] = f.read().hex()
            if os.path.exists(pl):
                with open(pl, 'rb') as f:
                    res['labels'] = normalise(f.read().decode('utf-8', 'replace'), [d], [self.root])
            with self.lock:
                self.cli_runs += 1
            return res
        finally:
            shutil.rmtree(d, ignore_errors=True)


def cli_capable(spec):
    return (not spec.get('constants') and not spec.get('labels') and spec.get('include_dirs') is None
            and (spec.get('path') or MAIN_FILE not in (spec.get('files') or {})))


def cli_files(spec):
    files = dict(spec.get('files') or {})
    if spec.get('path'):
        return files, spec['path']
    files[MAIN_FILE] = spec['source']
    return files, MAIN_FILE


def cli_api_spec(spec):
    """The API call the command line performs for `spec`: path of the file, caller-owned empty dictionaries."""
    files, inp = cli_files(spec)
    return {'name': spec['name'] + '@file', 'source': None, 'compress': bool(spec.get('compress')), 'constants': {},
            'labels': {}, 'files': files, 'path': inp, 'chdir': True}


def cli_vs_api(cli, api):
    """None when the command-line outcome agrees with the API result of the same program, else a description."""
    if api['status'] == 'OK':
        if cli['rc'] != 0:
            return 'command line fails (rc={}) where the API call succeeds'.format(cli['rc'])
        if cli['out'] != api['bytes']:
            return 'output file differs from the bytes returned by assemble'
        if cli['labels'] is not None and api['labels'] is not None:
            parsed = []
            for line in cli['labels'].splitlines():
                parts = line.split(' ')
                try:
                    parsed.append([parts[0], int(parts[1], 16)])
                except (IndexError, ValueError):
                    return None      # unknown format: nothing to compare
                if len(parts) != 2:
                    return None
            if parsed != [[k, v] for k, v in api['labels']]:
                return 'labels file differs from the labels dictionary filled by assemble'
        return None
    if cli['rc'] == 0:
        return 'command line succeeds where the API call raises {}'.format(api.get('class'))
    if cli['out'] is not None:
        return 'command line wrote an output file although assembling failed'
    return None


# ------------------------------------------------------------------------------------------------ shrinking
def shrink(calls, keep, pred, budget=60):
    """ddmin-style: drop calls not in `keep` (original indices) while pred(sub-list, positions of keep) holds."""
    idx = list(range(len(calls)))
    removable = [i for i in idx if i not in keep]

    def test(cand):
        return pred([calls[i] for i in cand], [cand.index(k) for k in keep])

    chunk = len(removable)
    while chunk >= 1 and removable and budget > 0:
        changed = False
        start = 0
        while start < len(removable) and budget > 0:
            drop = set(removable[start:start + chunk])
            cand = [i for i in idx if i not in drop]
            budget -= 1
            if test(cand):
                idx = cand
                removable = [i for i in removable if i not in drop]
                changed = True
            else:
                start += chunk
        if chunk == 1:
            if not changed:
                break
        else:
            chunk = max(1, min(chunk // 2, len(removable)))
    return [calls[i] for i in idx], [idx.index(k) for k in keep]


# ------------------------------------------------------------------------------------------------ exploration
class Explorer:
    def __init__(self, ctx, ses):
        self.ctx, self.ses = ctx, ses
        self.reported = 0
        self.attempts = 0      # failures investigated (duplicates of an already reported input included)
        self.seen = set()

    def full(self):
        return self.reported >= MAX_CEX or self.attempts >= 3 * MAX_CEX

    def cex(self, what, inp, observed, expected, match):
        self.attempts += 1
        k = _key(inp)
        if self.full() or k in self.seen:
            return
        self.seen.add(k)
        self.reported += 1
        self.ctx.cex(what, inp, observed, expected, match=match)

    # -- predicates evaluated in fresh workers
    def hist_fails(self, seed):
        def pred(calls, pos):
            results, _ = self.ses.worker(calls, seed)
            return results[pos[0]] != self.ses.fresh(calls[pos[0]])
        return pred

    def dict_fails(self, seed):
        def pred(calls, pos):
            _, changes = self.ses.worker(calls, seed)
            return any(c['earlier'] == pos[0] and c['later'] == pos[1] for c in changes)
        return pred

    # -- reports
    def report_mismatch(self, calls, k, observed, prior_log, seed):
        """Call k of `calls`, run after `prior_log` in one interpreter under PYTHONHASHSEED=seed, differs from the
        fresh-process seed-0 result of the same spec: find out whether the seed or the history is responsible."""
        spec = calls[k]
        expected = self.ses.fresh(spec)
        if seed != 0:
            alone, _ = self.ses.worker([spec], seed)
            if alone[0] != expected:
                what = 'assemble result of {!r} under PYTHONHASHSEED={} differs from PYTHONHASHSEED=0'.format(
                    spec['name'], seed)
                self.cex(what, {'kind': 'hashseed', 'spec': spec, 'seed': seed, 'via': 'api'}, alone[0], expected,
                         {'kind': 'hashseed', 'via': 'api'})
                return
        pred = self.hist_fails(seed)
        cand = calls[:k + 1]
        if not pred(cand, [k]):
            cand = prior_log + cand
            if not prior_log or not pred(cand, [len(cand) - 1]):
                raise RuntimeError('result of {} inside a history differs from its fresh-process result but the same '
                                   'sequence of calls does not reproduce it in a fresh interpreter: observed {} '
                                   'expected {}'.format(spec.get('name'), json.dumps(observed)[:300],
                                                        json.dumps(expected)[:300]))
        small, pos = shrink(cand, [len(cand) - 1], pred)
        results, _ = self.ses.worker(small, seed)
        obs = results[pos[0]]
        if obs == expected:      # unstable reproduction: keep the unshrunk history and the original observation
            small, pos, obs = cand, [len(cand) - 1], observed
        what = 'assemble result of {!r} depends on earlier calls in the same process ({})'.format(
            small[pos[0]].get('name'), ' -> '.join(str(s.get('name')) for s in small))
        self.cex(what, {'kind': 'history', 'calls': small, 'index': pos[0], 'seed': seed}, obs, expected,
                 {'kind': 'history'})

    def report_dict_change(self, calls, ch, prior_log, seed):
        pred = self.dict_fails(seed)
        cand = calls[:ch['later'] + 1]
        keep = [ch['earlier'], ch['later']]
        if not pred(cand, keep):
            off = len(prior_log)
            cand = prior_log + cand
            keep = [off + ch['earlier'], off + ch['later']]
            if not prior_log or not pred(cand, keep):
                raise RuntimeError('a caller dictionary changed after its call returned, but the same sequence of '
                                   'calls does not reproduce it in a fresh interpreter: {}'.format(json.dumps(ch)[:400]))
        small, pos = shrink(cand, keep, pred)
        _, changes = self.ses.worker(small, seed)
        hit = [c for c in changes if c['earlier'] == pos[0] and c['later'] == pos[1]]
        before, after = (hit[0]['before'], hit[0]['after']) if hit else (ch['before'], ch['after'])
        which = hit[0]['which'] if hit else ch['which']
        what = 'the {} dictionary handed to call {} ({!r}) was modified by the later call {} ({!r})'.format(
            which, pos[0], small[pos[0]].get('name'), pos[1], small[pos[1]].get('name'))
        self.cex(what, {'kind': 'dict-changed', 'calls': small, 'earlier': pos[0], 'later': pos[1], 'seed': seed},
                 {'which': which, 'items': after}, {'which': which, 'items': before}, {'kind': 'dict-changed'})

    # -- step 4
    def check_history(self, hist, results, changes, prior, seed, sample=False):
        """`hist` (list of specs) gave `results` / `changes` when run after the calls `prior` in one interpreter."""
        ctx = self.ctx
        ctx.count('history-len-%d' % len(hist))
        expected = self.ses.fresh_many(hist)
        prev = None
        for k, spec in enumerate(hist):
            ctx.evaluations += 1
            ctx.count('status-' + (results[k]['status'] if results[k]['status'] == 'OK' else results[k]['class']))
            if prev is not None:
                ctx.nontriv((prev, spec['name']))
            prev = spec['name']
            if results[k] != expected[k] and not self.full():
                self.report_mismatch(hist, k, results[k], prior, seed)
                break
            if results[k].get('include_dirs_left_unchanged') is False and not self.full():
                ctx.cex('assemble() changed the include_dirs list of its caller (call {} of the history)'.format(spec['name']),
                        {'kind': 'caller-list', 'calls': hist[:k + 1], 'seed': seed}, 'list extended', 'list as the caller built it',
                        {'kind': 'caller-list-changed'})
                break
        for ch in changes:
            if self.full():
                break
            self.report_dict_change(hist, ch, prior, seed)
            break
        if sample:
            ctx.sample({'history': [s['name'] for s in hist], 'PYTHONHASHSEED': seed,
                        'results': [_brief(r) for r in results], 'all_equal_to_fresh_process': results == expected})

    def histories(self, pool, n_random, per_batch):
        """Histories as lists of pool indices; batches of them run in one worker interpreter each (the module is
        imported once per batch, so state also persists from one history to the next)."""
        rng = self.ctx.rng
        ix = {s['name']: i for i, s in enumerate(pool)}
        n = len(pool)
        hs = []
        # forced ordered pairs, both orders, plus a-b-a-b
        for a, b in FORCED_PAIRS:
            hs += [[ix[a], ix[b]], [ix[b], ix[a]], [ix[a], ix[b], ix[a], ix[b]]]
        # every pool entry first in one history and last in another
        for i in range(n):
            hs.append([i, (i + 1) % n, (i + 7) % n])
        # the whole pool, in order and reversed
        hs.append(list(range(n)))
        hs.append(list(reversed(range(n))))
        for _ in range(n_random):
            hs.append([rng.randrange(n) for _ in range(rng.randint(2, 12))])
        batches = [hs[i:i + per_batch] for i in range(0, len(hs), per_batch)]
        seeds = [SEEDS[i % len(SEEDS)] for i in range(len(batches))]
        with concurrent.futures.ThreadPoolExecutor(max_workers=THREADS) as ex:
            outs = list(ex.map(lambda j: self.ses.batch(pool, batches[j], seeds[j]), range(len(batches))))
        done = 0
        for b, runs, seed in zip(batches, outs, seeds):
            self.ctx.count('history-batches-seed-%d' % seed)
            prior = []
            for h, (results, changes) in zip(b, runs):
                if self.full():
                    return done
                hist = [pool[i] for i in h]
                self.check_history(hist, results, changes, prior, seed, sample=(done == 0))
                prior = prior + hist
                done += 1
        return done

    # -- step 5a
    def seeds_api(self, specs):
        ctx = self.ctx
        expected = self.ses.fresh_many(specs)
        with concurrent.futures.ThreadPoolExecutor(max_workers=len(SEEDS)) as ex:
            runs = list(ex.map(lambda s: self.ses.worker(specs, s), SEEDS))
        for seed, (results, changes) in zip(SEEDS, runs):
            for k, spec in enumerate(specs):
                ctx.evaluations += 1
                ctx.nontriv(('seed', spec['name'], seed, 'api'))
                if results[k] != expected[k] and not self.full():
                    self.report_mismatch(specs, k, results[k], [], seed)
            for ch in changes:
                if self.full():
                    break
                self.report_dict_change(specs, ch, [], seed)
                break

    # -- step 5b
    def seeds_cli(self, specs):
        ctx = self.ctx
        api = self.ses.fresh_many([cli_api_spec(s) for s in specs])
        jobs = [(s, seed) for s in specs for seed in SEEDS]
        with concurrent.futures.ThreadPoolExecutor(max_workers=THREADS) as ex:
            outs = list(ex.map(lambda j: self.ses.cli(j[0], j[1]), jobs))
        res = {(s['name'], seed): o for (s, seed), o in zip(jobs, outs)}
        for i, spec in enumerate(specs):
            ref = res[(spec['name'], SEEDS[0])]
            ctx.count('cli-' + ('ok' if ref['rc'] == 0 else 'fail'))
            for seed in SEEDS:
                ctx.evaluations += 1
                ctx.nontriv(('seed', spec['name'], seed, 'cli'))
                got = res[(spec['name'], seed)]
                if got != ref and not self.full():
                    what = 'command line on {!r} under PYTHONHASHSEED={} differs from PYTHONHASHSEED={}'.format(
                        spec['name'], seed, SEEDS[0])
                    self.cex(what, {'kind': 'hashseed', 'spec': spec, 'seed': seed, 'via': 'cli'}, got, ref,
                             {'kind': 'hashseed', 'via': 'cli'})
                    break
            why = cli_vs_api(ref, api[i])
            if why and not self.full():
                self.cex('command line on {!r}: {}'.format(spec['name'], why),
                         {'kind': 'hashseed', 'spec': spec, 'seed': SEEDS[0], 'via': 'cli', 'against': 'api'},
                         ref, api[i], {'kind': 'hashseed', 'via': 'cli', 'against': 'api'})
            if i == 0:
                ctx.sample({'cli': spec['name'], 'seeds': SEEDS, 'result': _brief_cli(ref),
                            'api': _brief(api[i])})


def _brief(r):
    out = {'status': r['status']}
    if r['status'] == 'OK':
        out['bytes'] = r['bytes'][:48] + ('...' if len(r['bytes']) > 48 else '')
    else:
        out['class'] = r['class']
        out['msg'] = r['msg'][-80:]
    out['constants'] = r['constants']
    out['labels'] = r['labels']
    return out


def _brief_cli(r):
    return {'rc': r['rc'], 'stderr': r['stderr'][-120:], 'out': (r['out'] or '')[:48] if r['out'] is not None else None,
            'labels': r['labels']}


def explore(ctx):
    ctx.rule = RULE
    quick = ctx.quick()
    pool = build_pool()
    by = {s['name']: s for s in pool}
    ses = Session()
    try:
        ex = Explorer(ctx, ses)
        # 3. oracle: one brand-new interpreter per call spec
        fresh = ses.fresh_many(pool)
        for s, r in zip(pool, fresh):
            ctx.count('pool-' + (r['status'] if r['status'] == 'OK' else r['class']))
        # determinism of the oracle itself: a second fresh process must agree (a couple of specs only)
        for s in ([by['many-labels-c'], by['given-then-fail']] if quick else pool):
            again, _ = ses.worker([s], 0)
            ctx.evaluations += 1
            if again[0] != ses.fresh(s) and not ex.full():
                ex.cex('two fresh interpreters disagree on {!r}'.format(s['name']),
                       {'kind': 'history', 'calls': [s], 'index': 0}, again[0], ses.fresh(s), {'kind': 'history'})
        # 4. histories
        n_hist = ex.histories(pool, 150 if quick else 3000, 50 if quick else 100)
        ctx.count('histories', n_hist)
        # 5. hash seeds
        if not ex.full():
            ex.seeds_api([by[n] for n in QUICK_SEED_API] if quick else pool)
        if not ex.full():
            cli = [by[n] for n in QUICK_SEED_CLI] if quick else [s for s in pool if cli_capable(s)]
            for s in cli:
                if not cli_capable(s):
                    raise RuntimeError('not runnable from the command line: ' + s['name'])
            ex.seeds_cli(cli)
        ctx.count('worker-processes', ses.worker_runs)
        ctx.count('cli-processes', ses.cli_runs)
    finally:
        ses.close()


def replay(ctx, rec):
    inp = rec['input']
    ses = Session()
    try:
        kind = inp.get('kind')
        if kind == 'history':
            calls = inp['calls']
            k = inp.get('index', len(calls) - 1)
            results, _ = ses.worker(calls, inp.get('seed', 0))
            return results[k] != ses.fresh(calls[k])       # ses.fresh: the call alone in another new interpreter
        if kind == 'caller-list':
            results, _ = ses.worker(inp['calls'], inp.get('seed', 0))
            return any(r.get('include_dirs_left_unchanged') is False for r in results)
        if kind == 'dict-changed':
            _, changes = ses.worker(inp['calls'], inp.get('seed', 0))
            return any(c['earlier'] == inp['earlier'] and c['later'] == inp['later'] for c in changes)
        if kind == 'hashseed':
            spec, seed = inp['spec'], inp['seed']
            if inp.get('via') == 'cli':
                if inp.get('against') == 'api':
                    return cli_vs_api(ses.cli(spec, seed), ses.fresh(cli_api_spec(spec))) is not None
                return ses.cli(spec, seed) != ses.cli(spec, SEEDS[0])
            results, _ = ses.worker([spec], seed)
            return results[0] != ses.fresh(spec)
        raise RuntimeError('history_engine.replay: unknown kind {!r}'.format(kind))
    finally:
        ses.close()


# ------------------------------------------------------------------------------------------------ worker
def _worker_main():
    real_stdout = sys.stdout
    sys.stdout = sys.stderr          # nothing but the answer may reach stdout
    req = json.load(sys.stdin)
    asm = harness.real_asm()         # imported ONCE: module state persists across all calls of this process
    quiet()
    mat = Materialiser(os.path.join(os.getcwd(), 'files'))
    runs = []
    for h in req['histories']:
        results, changes = run_history(asm, [req['pool'][i] for i in h], mat)
        runs.append({'results': results, 'changes': changes})
    ans = {'runs': runs, 'file': getattr(asm, '__file__', ''), 'hashseed': os.environ.get('PYTHONHASHSEED')}
    real_stdout.write(json.dumps(ans))
    real_stdout.flush()


if __name__ == '__main__':
    if sys.argv[1:2] == ['--worker']:
        _worker_main()
    else:
        sys.stderr.write(__doc__)
        sys.exit(2)
