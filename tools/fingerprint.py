#!/venv/bin/python
"""Fingerprints of the source the hand-written models were validated against.

  tools/fingerprint.py update      -> tools/fingerprints.json  (normalised-AST hash of every top-level def / class of asm.py and dfu.py)
  changed(repo)                    -> names of the functions / classes whose code differs from the recorded one

A difference is NOT an alarm.  It tells the check that code tied to the model only by differential runs has been edited since
those runs were sized, so the bounded search is repeated with further seeds before the check answers (tools/check.py, `wide`).
Comments, docstrings and blank lines do not count (the hash is taken over ast.dump without positions)."""
import ast
import hashlib
import json
import os
import sys

HERE = os.path.dirname(os.path.abspath(__file__))
FILES = ['bronzebeard/asm.py', 'bronzebeard/dfu.py']
STORE = os.path.join(HERE, 'fingerprints.json')


def strip_docstrings(node):
    for n in ast.walk(node):
        body = getattr(n, 'body', None)
        if isinstance(body, list) and body and isinstance(body[0], ast.Expr) and isinstance(body[0].value, ast.Constant) \
                and isinstance(body[0].value.value, str) and isinstance(n, (ast.FunctionDef, ast.ClassDef, ast.Module, ast.AsyncFunctionDef)):
            n.body = body[1:] or [ast.Pass()]
    return node


def prints(repo):
    out = {}
    for f in FILES:
        p = os.path.join(repo, f)
        if not os.path.exists(p):
            continue
        try:
            tree = strip_docstrings(ast.parse(open(p).read()))
        except SyntaxError:
            out[f + ':<syntax error>'] = 'x'
            continue
        rest = []
        for st in tree.body:
            if isinstance(st, (ast.FunctionDef, ast.ClassDef, ast.AsyncFunctionDef)):
                out['{}:{}'.format(f, st.name)] = hashlib.sha1(ast.dump(st).encode()).hexdigest()[:16]
            else:
                rest.append(ast.dump(st))
        out[f + ':<module>'] = hashlib.sha1('\n'.join(rest).encode()).hexdigest()[:16]
    return out


def changed(repo):
    try:
        old = json.load(open(STORE))
    except Exception:
        return ['<no fingerprints recorded>']
    new = prints(repo)
    return sorted(k for k in set(old) | set(new) if old.get(k) != new.get(k))


if __name__ == '__main__':
    if sys.argv[1:] == ['update']:
        json.dump(prints(os.environ.get('VERIF_REPO', '/repo')), open(STORE, 'w'), indent=0, sort_keys=True)
        print('recorded', len(json.load(open(STORE))), 'fingerprints')
    else:
        print(changed(sys.argv[1] if len(sys.argv) > 1 else '/repo'))
