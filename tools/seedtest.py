#!/venv/bin/python
"""Confirms a seeded defect (patch.diff + demo.py produced independently of /verif) and runs our check against it.

  tools/seedtest.py <property id> <dir with patch.diff, demo.py, meta.json> [--also C08,C09]

1. fresh scratch worktree of /repo HEAD; patch must apply; the repo's own tests must pass with it
2. demo.py must FAIL with the patch and PASS without it
3. tools/check.py <id> --tier quick with VERIF_REPO=<scratch with patch> must print a VIOLATION line
4. everything is recorded in /verif/seeded/<id>/ ; the scratch worktree is removed
"""
import json
import os
import shutil
import subprocess
import sys
import time

VERIF = os.path.dirname(os.path.dirname(os.path.abspath(__file__)))
PY = '/venv/bin/python'


def sh(cmd, cwd=None, env=None, timeout=3600):
    p = subprocess.run(cmd, cwd=cwd, env=env, stdout=subprocess.PIPE, stderr=subprocess.STDOUT, text=True, timeout=timeout,
                       errors='replace')
    return p.returncode, p.stdout


def main():
    pid, src = sys.argv[1], os.path.abspath(sys.argv[2])
    also = []
    if '--also' in sys.argv:
        also = sys.argv[sys.argv.index('--also') + 1].split(',')
    name = sys.argv[sys.argv.index('--name') + 1] if '--name' in sys.argv else pid
    scratch = '/tmp/seed_{}_{}'.format(name, os.getpid())
    out = os.path.join(VERIF, 'seeded', name)
    os.makedirs(out, exist_ok=True)
    rec = {'property': pid, 'ran': []}
    rc, o = sh(['git', '-C', '/repo', 'worktree', 'add', '--detach', scratch, 'HEAD'])
    assert rc == 0, o
    try:
        patch = os.path.join(src, 'patch.diff')
        rc, o = sh(['git', 'apply', '--3way', patch], cwd=scratch)
        if rc != 0:
            rc, o = sh(['git', 'apply', patch], cwd=scratch)
        rec['ran'].append({'cmd': 'git apply patch.diff (on /repo HEAD)', 'rc': rc, 'out': o[-300:]})
        if rc != 0:
            rec['verdict'] = 'patch does not apply'
            return finish(rec, out, src)
        rc, diff = sh(['git', 'diff', 'HEAD', '--', 'bronzebeard'], cwd=scratch)
        env = dict(os.environ, PYTHONPATH=scratch, PYTHONHASHSEED='0')
        rc, o = sh([PY, '-m', 'pytest', '-q', '-p', 'no:cacheprovider', '-x'], cwd=scratch, env=env)
        rec['ran'].append({'cmd': 'pytest (patched)', 'rc': rc, 'out': o.strip().split('\n')[-1]})
        tests_ok = (rc == 0)
        shutil.copy(os.path.join(src, 'demo.py'), os.path.join(scratch, 'demo.py'))
        rc1, o1 = sh([PY, 'demo.py'], cwd=scratch, env=env, timeout=1800)
        rec['ran'].append({'cmd': 'demo.py (patched)', 'rc': rc1, 'out': o1[-400:]})
        # our check against the patched tree
        cenv = dict(os.environ, VERIF_REPO=scratch)
        results = {}
        for p in [pid] + also:
            t0 = time.time()
            rc3, o3 = sh([PY, os.path.join(VERIF, 'tools', 'check.py'), p, '--tier', 'quick'], cwd=VERIF, env=cenv, timeout=7200)
            lines = [l for l in o3.split('\n') if l.startswith(('VIOLATION', 'KNOWN-FINDING', p + ':'))]
            results[p] = {'rc': rc3, 'lines': lines, 'wall_s': round(time.time() - t0, 1)}
            # keep the replay file named in the VIOLATION line next to the record
            for l in lines:
                if l.startswith('VIOLATION') and 'replay=' in l:
                    rp = l.split('replay=')[1].split()[0]
                    try:
                        r = json.load(open(os.path.join(VERIF, rp)))
                        results[p]['what'] = r.get('what') or r.get('broken')
                        results[p]['kind'] = r.get('kind')
                    except Exception:
                        pass
        rec['check'] = results
        # revert and re-run demo
        sh(['git', 'reset', '--hard', 'HEAD'], cwd=scratch)
        rc2, o2 = sh([PY, 'demo.py'], cwd=scratch, env=env, timeout=1800)
        rec['ran'].append({'cmd': 'demo.py (original)', 'rc': rc2, 'out': o2[-200:]})
        rec['confirmed'] = bool(tests_ok and rc1 != 0 and rc2 == 0)
        rec['caught'] = {p: any(l.startswith('VIOLATION') for l in results[p]['lines']) for p in results}
        with open(os.path.join(out, 'patch.diff'), 'w') as f:
            f.write(diff if diff.strip() else open(patch).read())
        return finish(rec, out, src)
    finally:
        sh(['git', '-C', '/repo', 'worktree', 'remove', '--force', scratch])
        shutil.rmtree(scratch, ignore_errors=True)
        # restore the generated files / build for /repo itself
        sh([PY, '-c', 'import sys; sys.path.insert(0, "{}/tools"); import check; check.regen()'.format(VERIF)], cwd=VERIF)


def finish(rec, out, src):
    if os.path.exists(os.path.join(src, 'demo.py')) and os.path.abspath(src) != os.path.abspath(out):
        shutil.copy(os.path.join(src, 'demo.py'), os.path.join(out, 'demo.py'))
    meta = {}
    try:
        meta = json.load(open(os.path.join(src, 'meta.json')))
    except Exception:
        pass
    meta['verification'] = rec
    with open(os.path.join(out, 'meta.json'), 'w') as f:
        json.dump(meta, f, indent=1)
    print(json.dumps({'property': rec['property'], 'confirmed': rec.get('confirmed'), 'caught': rec.get('caught'),
                      'check': {k: v['lines'] for k, v in rec.get('check', {}).items()}}, indent=1))
    return 0


if __name__ == '__main__':
    sys.exit(main())
