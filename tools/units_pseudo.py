"""Translation unit `Pseudo`: the per-pseudo-instruction templates of asm.transform_pseudo_instructions and the size()
tables of the item classes, regenerated from the AST on every run (fail closed).  coq/Proofs/PseudoTable.v proves that the
hand-written model (Model/Passes.v expand_pseudo, size) agrees with these tables, so an edit of a template or of a size
in the source breaks a proof obligation and not only the differential correspondence."""
import ast
import os

from py2coq import TranslationError, HEADER

UNIT_NAMES = ['Pseudo']


def fail(node, what):
    raise TranslationError('Pseudo', getattr(node, 'lineno', 0), what)


def slit(s):
    return '"' + s.replace('"', '""') + '"'


def zlit(v):
    return '({})'.format(v) if v < 0 else str(v)


def find_fn(tree, name):
    for n in tree.body:
        if isinstance(n, ast.FunctionDef) and n.name == name:
            return n
    fail(tree, 'function {} not found'.format(name))


def class_sigs(tree):
    """class name -> [(field, default or None)] of __init__(self, line, ...)"""
    out = {}
    for n in tree.body:
        if isinstance(n, ast.ClassDef):
            for m in n.body:
                if isinstance(m, ast.FunctionDef) and m.name == '__init__':
                    ps = [a.arg for a in m.args.args]
                    if len(ps) >= 2 and ps[0] == 'self' and ps[1] == 'line':
                        fields = ps[2:]
                        defaults = [None] * (len(fields) - len(m.args.defaults)) + list(m.args.defaults)
                        out[n.name] = list(zip(fields, defaults))
    return out


class Branch:
    def __init__(self, sigs):
        self.sigs = sigs
        self.argvars = {}       # variable -> index into item.args
        self.star = None        # name of the starred variable (li)
        self.arity = None       # number of fixed args
        self.immvar = None      # what `imm` currently denotes: ('off', argindex) | ('parsed',)
        self.names_map = None

    def expr_of_imm(self, node):
        """Gallina texpr of an expression used as an immediate"""
        if isinstance(node, ast.Name) and node.id == 'imm':
            if self.immvar is None:
                fail(node, 'imm used before it is bound')
            return 'TOffArg {}'.format(self.immvar[1]) if self.immvar[0] == 'off' else 'TParsed'
        if isinstance(node, ast.Call) and isinstance(node.func, ast.Name) and node.func.id in ('Hi', 'Lo') and len(node.args) == 1:
            return '({} ({}))'.format('THi' if node.func.id == 'Hi' else 'TLo', self.expr_of_imm(node.args[0]))
        if isinstance(node, ast.Call) and isinstance(node.func, ast.Name) and node.func.id == 'Arithmetic' and len(node.args) == 1 \
                and isinstance(node.args[0], ast.Constant) and isinstance(node.args[0].value, str):
            txt = node.args[0].value.strip()
            try:
                v = int(txt, 0)
            except ValueError:
                fail(node, 'Arithmetic text is not an integer literal')
            return 'TArith {}'.format(zlit(v))
        fail(node, 'immediate expression')

    def field(self, name, node, mnemonic_node):
        if name == 'imm':
            return 'TFImm ({})'.format(self.expr_of_imm(node))
        if isinstance(node, ast.Constant) and isinstance(node.value, bool):
            return 'TFBool {}'.format('true' if node.value else 'false')
        if isinstance(node, ast.Constant) and isinstance(node.value, str):
            return 'TFReg (TLit {})'.format(slit(node.value))
        if isinstance(node, ast.Constant) and isinstance(node.value, int):
            return 'TFInt {}'.format(zlit(node.value))
        if isinstance(node, ast.Name) and node.id in self.argvars:
            return 'TFReg (TArg {})'.format(self.argvars[node.id])
        fail(node, 'constructor argument {}'.format(name))

    def inst(self, call, pname):
        if not (isinstance(call, ast.Call) and isinstance(call.func, ast.Name) and call.func.id in self.sigs):
            fail(call, 'constructor call')
        cls = call.func.id
        if len(call.args) != 2 or not (isinstance(call.args[0], ast.Attribute) and call.args[0].attr == 'line'):
            fail(call, 'constructor positional arguments')
        mn = call.args[1]
        if isinstance(mn, ast.Constant) and isinstance(mn.value, str):
            mnemonic = mn.value
        elif isinstance(mn, ast.Subscript) and isinstance(mn.value, ast.Name) and mn.value.id == 'names' and self.names_map is not None:
            mnemonic = self.names_map[pname]
        else:
            fail(mn, 'mnemonic')
        given = {k.arg: k.value for k in call.keywords}
        sig = self.sigs[cls]
        if sig[0][0] != 'name':
            fail(call, 'class signature')
        fields = []
        for fname, default in sig[1:]:
            if fname in given:
                fields.append('({}, {})'.format(slit(fname), self.field(fname, given.pop(fname), mn)))
            elif default is not None:
                fields.append('({}, {})'.format(slit(fname), self.field(fname, default, mn)))
            else:
                fail(call, 'missing field {}'.format(fname))
        if given:
            fail(call, 'unknown keyword {}'.format(list(given)))
        return '{{| ti_cls := {}; ti_name := {}; ti_fields := [{}] |}}'.format(slit(cls), slit(mnemonic), '; '.join(fields))


def unpack(br, stmt):
    t = stmt.targets[0]
    if not (isinstance(stmt.value, ast.Attribute) and stmt.value.attr == 'args'):
        return False
    elts = t.elts if isinstance(t, ast.Tuple) else None
    if elts is None:
        fail(stmt, 'unpacking target')
    n = 0
    for e in elts:
        if isinstance(e, ast.Starred):
            br.star = e.value.id
        elif isinstance(e, ast.Name):
            br.argvars[e.id] = n
            n += 1
        else:
            fail(stmt, 'unpacking element')
    br.arity = n
    return True


def range_of(test):
    """(guard, lo, hi) of `G and value >= lo and value <= hi`"""
    if not (isinstance(test, ast.BoolOp) and isinstance(test.op, ast.And) and len(test.values) == 3):
        fail(test, 'size decision')
    g, a, b = test.values

    def const(n):
        try:
            return int(eval(compile(ast.Expression(n), '<c>', 'eval'), {'__builtins__': {}}))
        except Exception:
            fail(n, 'bound is not a constant')
    if not (isinstance(a, ast.Compare) and isinstance(a.ops[0], ast.GtE) and isinstance(a.left, ast.Name) and a.left.id == 'value'):
        fail(a, 'lower bound')
    if not (isinstance(b, ast.Compare) and isinstance(b.ops[0], ast.LtE) and isinstance(b.left, ast.Name) and b.left.id == 'value'):
        fail(b, 'upper bound')
    return g, const(a.comparators[0]), const(b.comparators[0])


def translate_branch(sigs, pname, body, names_map):
    br = Branch(sigs)
    br.names_map = names_map
    insts = []
    choice = None
    stable_is_settled = False
    for st in body:
        if isinstance(st, ast.Assign) and len(st.targets) == 1:
            tgt = st.targets[0]
            if isinstance(tgt, (ast.Tuple,)) and unpack(br, st):
                continue
            if isinstance(tgt, ast.Name) and tgt.id == 'names' and isinstance(st.value, ast.Dict):
                continue
            if isinstance(tgt, ast.Name) and tgt.id == 'imm' and isinstance(st.value, ast.List):
                e = st.value.elts
                if len(e) == 2 and isinstance(e[0], ast.Constant) and e[0].value == '%offset' and isinstance(e[1], ast.Name) \
                        and e[1].id in br.argvars:
                    br.immvar = ('off', br.argvars[e[1].id])
                    continue
                fail(st, 'imm list')
            if isinstance(tgt, ast.Name) and tgt.id == 'imm' and isinstance(st.value, ast.Call) \
                    and isinstance(st.value.func, ast.Name) and st.value.func.id == 'parse_immediate':
                if br.immvar is None:
                    if br.star != 'imm':
                        fail(st, 'parse_immediate of something else than the starred args')
                    br.immvar = ('parsed',)
                continue
            if isinstance(tgt, ast.Name) and tgt.id in ('env', 'value'):
                continue              # the early evaluation: modelled in pseudo_rule (value := c_int32 (imm.eval ...))
            if isinstance(tgt, ast.Name) and tgt.id == 'stable':
                v = st.value
                if isinstance(v, ast.Call) and isinstance(v.func, ast.Name) and v.func.id == 'is_settled' \
                        and isinstance(v.args[0], ast.Name) and v.args[0].id == 'imm' \
                        and isinstance(v.args[2], ast.Name) and v.args[2].id == 'constants':
                    stable_is_settled = True
                    continue
                fail(st, 'stable')
            if isinstance(tgt, ast.Name) and tgt.id == 'inst':
                insts.append(br.inst(st.value, pname))
                continue
            fail(st, 'assignment')
        if isinstance(st, ast.If):
            g, lo, hi = range_of(st.test)
            if isinstance(g, ast.Name) and g.id == 'stable' and stable_is_settled:
                guard = 'GSettled'
            elif isinstance(g, ast.Compare) and isinstance(g.ops[0], ast.NotIn) and isinstance(g.left, ast.Name) \
                    and g.left.id in br.argvars and isinstance(g.comparators[0], ast.Name) and g.comparators[0].id == 'constants':
                guard = '(GNotConst {})'.format(br.argvars[g.left.id])
            else:
                fail(g, 'guard of the size decision')
            near = [s for s in st.body if isinstance(s, ast.Assign) and isinstance(s.targets[0], ast.Name) and s.targets[0].id == 'inst']
            far = [s for s in st.orelse if isinstance(s, ast.Assign) and isinstance(s.targets[0], ast.Name) and s.targets[0].id == 'inst']
            # the near branch must shrink the labels by 4, the far branch must advance the position and append the first half
            src_near = ast.dump(ast.Module(st.body, []))
            src_far = ast.dump(ast.Module(st.orelse, []))
            if 'v - 4' not in ast.unparse(ast.Module(st.body, [])) or 'v > position' not in ast.unparse(ast.Module(st.body, [])):
                fail(st, 'near form must shrink the labels behind the item by 4')
            far_txt = ast.unparse(ast.Module(st.orelse, []))
            if 'position += inst.size()' not in far_txt or 'new_items.append(inst)' not in far_txt:
                fail(st, 'far form must append its first half and advance the position')
            if len(near) != 1 or len(far) != 2:
                fail(st, 'near / far forms')
            if br.immvar is None:
                fail(st, 'no immediate to decide on')
            e = 'TOffArg {}'.format(br.immvar[1]) if br.immvar[0] == 'off' else 'TParsed'
            choice = 'TChoice ({}) {} {} {} ({}) ({}) ({})'.format(e, guard, zlit(lo), zlit(hi), br.inst(near[0].value, pname),
                                                                  br.inst(far[0].value, pname), br.inst(far[1].value, pname))
            continue
        fail(st, 'statement in a pseudo-instruction branch')
    arity = 'AStar {}'.format(br.arity) if br.star else 'AExact {}'.format(br.arity if br.arity is not None else 0)
    if br.arity is None and not br.star:
        arity = 'AAny'
    if choice is not None:
        if insts:
            fail(body[0], 'instruction outside the size decision')
        return '({}, ({}, {}))'.format(slit(pname), arity, choice)
    if len(insts) != 1:
        fail(body[0], 'exactly one instruction expected')
    return '({}, ({}, TOne ({})))'.format(slit(pname), arity, insts[0])


def emit_pseudo(repo):
    path = os.path.join(repo, 'bronzebeard', 'asm.py')
    tree = ast.parse(open(path).read())
    sigs = class_sigs(tree)
    fn = find_fn(tree, 'transform_pseudo_instructions')
    loop = [s for s in fn.body if isinstance(s, ast.For)]
    if len(loop) != 1:
        fail(fn, 'one loop expected')
    chain = [s for s in loop[0].body if isinstance(s, ast.If) and ast.unparse(s.test).startswith('item.name')]
    if len(chain) != 1:
        fail(fn, 'one if / elif chain on item.name expected')
    # the loop tail: position += inst.size(); new_items.append(inst)
    tail = ast.unparse(ast.Module(loop[0].body, []))
    if 'position += inst.size()' not in tail or 'new_items.append(inst)' not in tail:
        fail(fn, 'loop tail')
    rows = []
    node = chain[0]
    while True:
        t = node.test
        names_map = None
        if isinstance(t, ast.Compare) and isinstance(t.ops[0], ast.Eq) and isinstance(t.comparators[0], ast.Constant):
            pnames = [t.comparators[0].value]
        elif isinstance(t, ast.Compare) and isinstance(t.ops[0], ast.In) and isinstance(t.comparators[0], ast.List):
            pnames = [e.value for e in t.comparators[0].elts]
            d = [s for s in node.body if isinstance(s, ast.Assign) and isinstance(s.targets[0], ast.Name) and s.targets[0].id == 'names']
            if len(d) != 1 or not isinstance(d[0].value, ast.Dict):
                fail(node, 'names dictionary')
            names_map = {k.value: v.value for k, v in zip(d[0].value.keys, d[0].value.values)}
            if sorted(names_map) != sorted(pnames):
                fail(node, 'names dictionary does not cover the branch')
        else:
            fail(t, 'branch test')
        for pn in pnames:
            rows.append(translate_branch(sigs, pn, node.body, names_map))
        if len(node.orelse) == 1 and isinstance(node.orelse[0], ast.If):
            node = node.orelse[0]
            continue
        if not (len(node.orelse) == 1 and isinstance(node.orelse[0], ast.Raise) and 'AssemblerError' in ast.unparse(node.orelse[0])):
            fail(node, 'the chain must end in raise AssemblerError')
        break
    # size() of PseudoInstruction
    big = None
    for n in tree.body:
        if isinstance(n, ast.ClassDef) and n.name == 'PseudoInstruction':
            for m in n.body:
                if isinstance(m, ast.FunctionDef) and m.name == 'size':
                    txt = ast.unparse(m)
                    for s in ast.walk(m):
                        if isinstance(s, ast.If) and isinstance(s.test, ast.Compare) and isinstance(s.test.ops[0], ast.In) \
                                and isinstance(s.test.comparators[0], ast.List):
                            big = [e.value for e in s.test.comparators[0].elts]
                            rets = [r.value.value for r in ast.walk(s) if isinstance(r, ast.Return) and isinstance(r.value, ast.Constant)]
                            if rets != [8, 4]:
                                fail(m, 'PseudoInstruction.size must return 8 for the big ones and 4 otherwise')
    if big is None:
        fail(tree, 'PseudoInstruction.size')
    out = [HEADER.format(src='asm.py (transform_pseudo_instructions, PseudoInstruction.size)')]
    out.append('''Inductive targ := TArg (n : nat) | TLit (s : string).
Inductive texpr := TArith (z : Z) | TOffArg (n : nat) | TParsed | THi (e : texpr) | TLo (e : texpr).
Inductive tfield := TFReg (a : targ) | TFImm (e : texpr) | TFInt (z : Z) | TFBool (b : bool).
Record tinst := { ti_cls : string; ti_name : string; ti_fields : list (string * tfield) }.
Inductive tguard := GSettled | GNotConst (n : nat).
Inductive tarity := AExact (n : nat) | AStar (n : nat) | AAny.
Inductive ttemplate := TOne (i : tinst) | TChoice (e : texpr) (g : tguard) (lo hi : Z) (near far1 far2 : tinst).
''')
    out.append('Definition pseudo_table : list (string * (tarity * ttemplate)) :=\n  [{}].\n'.format(';\n   '.join(rows)))
    out.append('Definition big_pseudos : list string := [{}].\n'.format('; '.join(slit(b) for b in big)))
    return '\n'.join(out)


def units(repo):
    return [('Pseudo', lambda: emit_pseudo(repo))]
