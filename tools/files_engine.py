"""File-tree side of C14 / C17: Gallina serialisation of real directory trees, evaluation of model terms with
coqc + vm_compute, the reader correspondence (asm.read_lines vs Model.Reader.read_lines), the generator of include
trees and the independent textual splicer the C14 falsifier compares against."""
import concurrent.futures
import os
import re
import shutil
import subprocess
import tempfile

VERIF = os.path.dirname(os.path.dirname(os.path.abspath(__file__)))
COQ = os.path.join(VERIF, 'coq')

HEADER = '''From Coq Require Import ZArith List Bool String.
From BB Require Import {imports}.
Import ListNotations.
Open Scope string_scope.
Open Scope Z_scope.
'''


# ------------------------------------------------------------------------------------------ Gallina terms
def cbytes(b):
    """bytes -> Gallina term of type string"""
    if isinstance(b, str):
        b = b.encode('utf-8')
    if all(32 <= c < 127 for c in b):
        return '"' + b.decode('ascii').replace('"', '""') + '"'
    # printable runs as literals, the rest through bs [...]
    parts, run = [], bytearray()
    for c in b:
        if 32 <= c < 127:
            run.append(c)
        else:
            if run:
                parts.append('"' + run.decode('ascii').replace('"', '""') + '"')
                run = bytearray()
            if parts and parts[-1].startswith('bs ['):
                parts[-1] = parts[-1][:-1] + '; {}]'.format(c)
            else:
                parts.append('bs [{}]'.format(c))
    if run:
        parts.append('"' + run.decode('ascii').replace('"', '""') + '"')
    return '(' + ' ++ '.join(parts) + ')'


def cz(v):
    return '({})'.format(v) if v < 0 else str(v)


def cbool(b):
    return 'true' if b else 'false'


def clist(items):
    return '[' + '; '.join(items) + ']'


def ancestors(path):
    out = []
    p = path
    while True:
        out.append(p)
        q = os.path.dirname(p)
        if q == p:
            break
        p = q
    return out


def ser_fs(root, extra_dirs=()):
    """every file and directory under `root` (plus the ancestors of root) as a Model.Reader.fsys term"""
    files, dirs = [], set(ancestors(root))
    for d in extra_dirs:
        dirs.update(ancestors(d))
    for dp, dn, fn in os.walk(root):
        dirs.add(dp)
        for f in sorted(fn):
            p = os.path.join(dp, f)
            with open(p, 'rb') as fh:
                files.append((p, fh.read()))
    files.sort()
    return '{{| fs_files := {}; fs_dirs := {} |}}'.format(
        clist('({}, {})'.format(cbytes(p), cbytes(b)) for p, b in files), clist(cbytes(d) for d in sorted(dirs)))


# ------------------------------------------------------------------------------------------ evaluation
def _run_shard(args):
    idx, text, workdir = args
    path = os.path.join(workdir, 'cases{}.v'.format(idx))
    with open(path, 'w') as f:
        f.write(text)
    p = subprocess.run(['timeout', '600', 'coqc', '-Q', COQ, 'BB', '-w', '-all', path], stdout=subprocess.PIPE,
                       stderr=subprocess.STDOUT, text=True, errors='replace')
    return idx, p.returncode, p.stdout


def run_terms(imports, terms, preamble='', shard=40, workers=6):
    """terms: Gallina terms of type string whose value uses only [0-9a-zA-Z|:;,.-_ ].  Returns the values
    (None where the evaluation failed)."""
    if not terms:
        return []
    workdir = tempfile.mkdtemp(prefix='bbfiles')
    try:
        jobs = []
        for s in range(0, len(terms), shard):
            body = HEADER.format(imports=imports) + preamble
            for t in terms[s:s + shard]:
                body += 'Eval vm_compute in ({}).\n'.format(t)
            jobs.append((s // shard, body, workdir))
        results = {}
        with concurrent.futures.ThreadPoolExecutor(max_workers=workers) as ex:
            for idx, rc, out in ex.map(_run_shard, jobs):
                results[idx] = (rc, out)
        answers = []
        for s in range(0, len(terms), shard):
            rc, out = results[s // shard]
            n = len(terms[s:s + shard])
            found = re.findall(r'^\s*= "((?:[^"]|"")*)"\s*(?:%string)?\s*\n?\s*: string', out, re.M)
            if rc != 0 or len(found) != n:
                answers += [None] * n
                os.makedirs(os.path.join(VERIF, 'build', 'logs'), exist_ok=True)
                with open(os.path.join(VERIF, 'build', 'logs', 'files_shard_error.log'), 'w') as f:
                    f.write(out[-20000:])
            else:
                answers += [re.sub(r'\s+', '', x) if '\n' in x else x for x in found]
        return answers
    finally:
        shutil.rmtree(workdir, ignore_errors=True)


def spec_hex_decode(texts):
    """Intel HEX texts (bytes) -> list of None | list of (address, byte), by the Coq Spec decoder."""
    terms = ['render_decode {}'.format(cbytes(t)) for t in texts]
    outs = run_terms('Spec.Hex', terms, preamble='Definition bs (l : list Z) : string := '
                     'string_of_list_ascii (map (fun z => Ascii.ascii_of_N (Z.to_N z)) l).\n')
    res = []
    for o in outs:
        if o is None:
            res.append('EVAL-FAILED')
        elif o == 'none':
            res.append(None)
        else:
            pairs = []
            body = o.split('|', 1)[1]
            if body:
                for run in body.split(','):
                    a, hx = run.split(':')
                    a = int(a)
                    for i in range(0, len(hx), 2):
                        pairs.append((a + i // 2, int(hx[i:i + 2], 16)))
            res.append(pairs)
    return res


# ------------------------------------------------------------------------------------------ reader correspondence
def real_read(asm, top, incs):
    try:
        ls = asm.read_lines(top, include_dirs=incs)
        return ('OK', [(l.file, l.number, l.contents) for l in ls])
    except asm.AssemblerError as e:
        m = e.message if hasattr(e, 'message') else str(e)
        kind = ('include-syntax' if m.startswith('include must') else
                'include-missing' if m.startswith('failed to include file') else
                'bytes-syntax' if m.startswith('include_bytes must') else
                'bytes-missing' if m.startswith('failed to include bytes') else 'other:' + m[:40])
        return ('ASM', e.line.file, e.line.number, kind)
    except RecursionError:
        return ('UNSUP',)
    except Exception as e:
        return ('RAW', type(e).__name__)


def parse_read(s):
    if s is None:
        return ('MODEL-ERROR',)
    if s == 'RAW':
        return ('RAW',)
    if s == 'UNSUP':
        return ('UNSUP',)
    tag, body = s.split('|', 1)
    if tag == 'ASM':
        f, n, k = body.split(':')
        return ('ASM', bytes.fromhex(f).decode('utf-8', 'surrogateescape'), int(n), k)
    out = []
    if body:
        for item in body.split(';'):
            f, n, c = item.split(':')
            out.append((bytes.fromhex(f).decode('utf-8', 'surrogateescape'), int(n),
                        bytes.fromhex(c).decode('utf-8', 'surrogateescape')))
    return ('OK', out)


def read_term(fsname, cwd, incs, top, fuel=8):
    return 'render_read (read_lines {} {} {} {} {})'.format(fuel, fsname, cbytes(cwd), clist(cbytes(d) for d in incs), cbytes(top))


def same_read(real, model):
    if real[0] == 'RAW':
        return model[0] == 'RAW'
    return real == model


# ------------------------------------------------------------------------------------------ include trees
class Tree:
    """files: {relative path: bytes}; main; incs (relative dirs); cwds (relative dirs); features"""
    def __init__(self, files, main, incs, cwds, feats, dirs=()):
        self.files, self.main, self.incs, self.cwds, self.feats, self.dirs = files, main, incs, cwds, feats, list(dirs)

    def materialise(self, root):
        for d in self.dirs + self.cwds + self.incs:
            os.makedirs(os.path.join(root, d), exist_ok=True)
        for rel, data in self.files.items():
            p = os.path.join(root, rel)
            os.makedirs(os.path.dirname(p), exist_ok=True)
            data = data if isinstance(data, bytes) else data.encode('utf-8')
            with open(p, 'wb') as f:
                f.write(data.replace(b'@ABS@', root.encode() + b'/'))

    def to_json(self):
        return {'files': {k: (v.decode('latin-1') if isinstance(v, bytes) else v) for k, v in self.files.items()},
                'main': self.main, 'incs': self.incs, 'cwds': self.cwds, 'dirs': self.dirs, 'feats': self.feats}

    @staticmethod
    def from_json(j):
        return Tree({k: v.encode('latin-1') for k, v in j['files'].items()}, j['main'], j['incs'], j['cwds'],
                    j.get('feats', []), j.get('dirs', []))


INCLUDE_SPELLINGS = [
    'include {}', 'include "{}"', "include '{}'", 'INCLUDE {}', 'include   {}  ', 'include {}  # pulled in here',
    'Include "{}"# c', 'include\t{}'.replace('\t', ' \t'),
]


class TreeGen:
    """random include trees, depth <= 4"""
    def __init__(self, rng):
        self.rng = rng
        self.counter = 0

    def body_lines(self, tag, n):
        out = []
        for _ in range(n):
            self.counter += 1
            k = self.counter
            kind = self.rng.randrange(6)
            if kind == 0:
                out.append('{}_{}:'.format(tag, k))
            elif kind == 1:
                out.append('K_{}_{} = {}'.format(tag, k, k * 3 + 1))
            elif kind == 2:
                out.append('    addi x{}, x0, {}'.format(1 + k % 30, k % 2000))
            elif kind == 3:
                out.append('    bytes {} {} {}'.format(k % 256, (k * 7) % 256, 0xaa))
            elif kind == 4:
                out.append('')
            else:
                out.append('  lw x{}, {}(sp)   # comment'.format(1 + k % 30, 4 * (k % 100)))
        return out

    def make(self, want=None):
        rng = self.rng
        files = {}
        feats = []
        incs = []
        if rng.random() < 0.7:
            incs.append('inc1')
        if rng.random() < 0.4:
            incs.append('../{}/inc2'.format('root') if False else 'inc2')
        nfile = [0]

        def new_name(stem):
            nfile[0] += 1
            return '{}{}.asm'.format(stem, nfile[0])

        def build(path, depth):
            """create file `path` (relative to root) with up to 3 includes; returns nothing"""
            d = os.path.dirname(path)
            tag = re.sub(r'\W', '_', os.path.splitext(os.path.basename(path))[0])
            lines = self.body_lines(tag, rng.randrange(1, 4))
            nin = 0 if depth >= 4 else rng.choice([0, 1, 1, 2, 3] if depth < 3 else [0, 1])
            if depth == 1 and nin == 0:
                nin = 1
            incl = []
            for _ in range(nin):
                kind = rng.choice(['sibling', 'subdir', 'parent', 'incdir', 'dup', 'abs', 'dotdot-sub'] if incs else
                                  ['sibling', 'subdir', 'parent', 'abs', 'dotdot-sub'])
                name = new_name('f')
                if kind == 'sibling':
                    target, written = os.path.join(d, name), name
                elif kind == 'subdir':
                    sub = rng.choice(['sub', 'lib', 'sub/deep'])
                    target, written = os.path.join(d, sub, name), sub + '/' + name
                elif kind == 'parent':
                    if d in ('', '.'):
                        target, written = os.path.join(d, name), './' + name
                    else:
                        target, written = os.path.join(os.path.dirname(d), name), '../' + name
                elif kind == 'dotdot-sub':
                    if d in ('', '.'):
                        target, written = os.path.join(d, 'common', name), 'common/' + name
                    else:
                        target, written = os.path.join(os.path.dirname(d), 'common', name), '../common/' + name
                elif kind == 'incdir':
                    idir = rng.choice(incs)
                    target, written = os.path.join(idir, name), name
                elif kind == 'dup':
                    # same name next to the includer AND in an -i directory, different contents
                    idir = rng.choice(incs)
                    target, written = os.path.join(idir, name), name
                    files[os.path.join(d, name)] = '\n'.join(self.body_lines('dupl', 2)) + '\n'
                    feats.append('dup')
                else:
                    target, written = os.path.join(d, name), '@ABS@' + os.path.join(d, name)
                feats.append(kind)
                spelling = rng.choice(INCLUDE_SPELLINGS)
                if written.startswith('@ABS@') and "'" in spelling:
                    spelling = 'include {}'
                incl.append(spelling.format(written))
                build(os.path.normpath(target), depth + 1)
                # decoys: the same written name reachable from the working directories must never be used
                if not written.startswith('@ABS@') and rng.random() < 0.6:
                    for cw in ('decoy', 'proj/sub'):
                        dp = os.path.normpath(os.path.join(cw, written))
                        if not dp.startswith('..') and dp not in files and dp != os.path.normpath(target):
                            files.setdefault(dp, '    addi x31, x0, 1234   # decoy\n')
            # positions: first / middle / last
            for k, il in enumerate(incl):
                pos = rng.choice([0, len(lines) // 2, len(lines)])
                feats.append('pos-first' if pos == 0 else 'pos-last' if pos == len(lines) else 'pos-middle')
                lines.insert(pos, il)
            files[path] = '\n'.join(lines) + ('\n' if rng.random() < 0.8 else '')

        build('proj/main.asm', 1)
        if want == 'bytes' or (want is None and rng.random() < 0.25):
            # include_bytes in a file that is not in any of the working directories
            host = rng.choice([p for p in files if p.endswith('.asm') and not p.startswith(('decoy', 'proj/sub/'))])
            d = os.path.dirname(host)
            files[os.path.join(d, 'blob.bin')] = bytes(rng.randrange(256) for _ in range(rng.randrange(1, 9)))
            files[host] = files[host] + ('' if files[host].endswith('\n') or not files[host] else '\n') + 'include_bytes blob.bin\n'
            feats.append('include_bytes')
        t = Tree(files, 'proj/main.asm', incs, ['proj', '.', 'decoy', 'proj/sub'], sorted(set(feats)), dirs=['decoy', 'proj/sub'] + incs)
        return t


def shadow_trees(rng, n):
    """Trees in which the name an inner file includes ALSO exists in the directory of a file that was read EARLIER (the
    main file's directory, a sibling's directory): only the -i directories and the directory of the including file may be
    searched, in that order -- directories of files read before must not leak into the search."""
    out = []
    for k in range(n):
        shape = k % 3
        val = lambda tag: '    addi x{}, x0, {}\n'.format(5 + k % 20, 100 + 10 * k + {'right': 1, 'wrong': 2, 'inc': 3}[tag])
        files = {}
        incs = ['inc1'] if k % 4 != 3 else []
        if shape == 0:
            # main -> sub/b.asm -> defs.asm ; proj/defs.asm also exists
            files['proj/main.asm'] = 'start:\n    addi x1, x0, 1\ninclude sub/b.asm\n    addi x2, x0, 2\n'
            files['proj/sub/b.asm'] = '    addi x3, x0, 3\ninclude defs.asm\n'
            files['proj/sub/defs.asm'] = val('right')
            files['proj/defs.asm'] = val('wrong')
        elif shape == 1:
            # siblings: s1/a.asm then s2/b.asm, which includes x.asm that also exists in s1
            files['proj/main.asm'] = 'include s1/a.asm\ninclude s2/b.asm\nend_:\n'
            files['proj/s1/a.asm'] = 'include x.asm\n'
            files['proj/s1/x.asm'] = val('wrong')
            files['proj/s2/b.asm'] = 'include x.asm\n    addi x4, x0, 4\n'
            files['proj/s2/x.asm'] = val('right')
            # a.asm must find ITS x.asm: give it its own expected value by making the two differ
            files['proj/s1/x.asm'] = '    addi x30, x0, 77\n'
        else:
            # three levels, the name exists at every level
            files['proj/main.asm'] = '    addi x1, x0, 1\ninclude l1/a.asm\n'
            files['proj/l1/a.asm'] = 'include l2/b.asm\n'
            files['proj/l1/l2/b.asm'] = 'include k.asm\n'
            files['proj/l1/l2/k.asm'] = val('right')
            files['proj/l1/k.asm'] = val('wrong')
            files['proj/k.asm'] = val('wrong')
        if incs:
            files['inc1/unrelated.asm'] = val('inc')
        out.append(Tree(files, 'proj/main.asm', incs, ['proj', '.', 'decoy'], ['shadow', 'shadow-%d' % shape], dirs=['decoy'] + incs))
    return out


def repeat_trees(rng, n):
    """Trees in which the SAME file is reached more than once without any cycle: included twice by one file, at two different
    depths, through a diamond (two siblings include one common file), under two spellings of its path.  Textual splicing pastes
    the lines each time (the repeated files hold instructions, data and constant definitions only, so that pasting them twice is a
    legal program)."""
    out = []
    for k in range(n):
        shape = k % 4
        step = '    addi x{r}, x{r}, {v}\n    bytes {a} {b}\nSTEP = {v}\n'.format(r=5 + k % 20, v=1 + k % 100, a=k % 256, b=(k * 5) % 256)
        files = {}
        incs = ['inc1'] if k % 3 == 0 else []
        if shape == 0:
            files['proj/main.asm'] = 'start:\n    addi x1, x0, 1\ninclude step.asm\nmid:\n    addi x2, x0, STEP\ninclude step.asm\nend_:\n'
            files['proj/step.asm'] = step
        elif shape == 1:
            files['proj/main.asm'] = 'include sub/a.asm\nmid:\ninclude sub/step.asm\n    addi x3, x0, 3\n'
            files['proj/sub/a.asm'] = '    addi x4, x0, 4\ninclude step.asm\na_end:\n'
            files['proj/sub/step.asm'] = step
        elif shape == 2:
            files['proj/main.asm'] = 'include left/l.asm\nbetween:\ninclude right/r.asm\nend_:\n    dw end_\n'
            files['proj/left/l.asm'] = 'l_start:\ninclude ../common/f.asm\n    addi x6, x0, 6\n'
            files['proj/right/r.asm'] = '    addi x7, x0, 7\ninclude ../common/f.asm\nr_end:\n'
            files['proj/common/f.asm'] = step
        else:
            files['proj/main.asm'] = 'include sub/f.asm\ninclude ./sub/f.asm\ninclude "sub/../sub/f.asm"\nend_:\n'
            files['proj/sub/f.asm'] = step
        if incs:
            files['inc1/unrelated.asm'] = '    addi x9, x0, 9\n'
        out.append(Tree(files, 'proj/main.asm', incs, ['proj', '.', 'decoy'], ['repeat', 'repeat-%d' % shape], dirs=['decoy'] + incs))
    # MANY includes: 20 include lines in one flat file; 9 in the main file whose 8th file holds 9 of its own (no depth, no cycle:
    # a counter of include lines met so far is not a nesting depth)
    files = {'proj/main.asm': ''.join('include part{}.asm\n'.format(i) for i in range(20)) + 'end_:\n'}
    for i in range(20):
        files['proj/part{}.asm'.format(i)] = '    addi x{}, x0, {}\n'.format(1 + i % 30, i)
    out.append(Tree(files, 'proj/main.asm', [], ['proj', '.'], ['repeat', 'many-flat'], dirs=[]))
    files = {'proj/main.asm': ''.join('include m{}.asm\n'.format(i) for i in range(9)) + 'end_:\n'}
    for i in range(9):
        files['proj/m{}.asm'.format(i)] = '    addi x{}, x0, {}\n'.format(1 + i, i)
    files['proj/m7.asm'] = ''.join('include sub/n{}.asm\n'.format(i) for i in range(9))
    for i in range(9):
        files['proj/sub/n{}.asm'.format(i)] = '    addi x{}, x0, {}\n'.format(10 + i, 100 + i)
    out.append(Tree(files, 'proj/main.asm', [], ['proj', '.'], ['repeat', 'many-nested'], dirs=[]))
    return out


def error_trees():
    """hand-made trees whose reading fails (reader correspondence only) or is an edge of the syntax"""
    T = []
    T.append(Tree({'proj/main.asm': 'addi x1, x0, 1\ninclude missing.asm\n'}, 'proj/main.asm', [], ['proj', '.'], ['missing']))
    T.append(Tree({'proj/main.asm': 'addi x1, x0, 1\n\n\ninclude a.asm b.asm\n', 'proj/a.asm': 'nop\n'}, 'proj/main.asm', [], ['proj', '.'], ['syntax']))
    T.append(Tree({'proj/main.asm': 'include\n'}, 'proj/main.asm', [], ['proj', '.'], ['bare']))
    T.append(Tree({'proj/main.asm': 'include   # nothing\n'}, 'proj/main.asm', [], ['proj', '.'], ['syntax']))
    T.append(Tree({'proj/main.asm': 'include_bytes blob.bin # c\n', 'proj/blob.bin': b'\x01\x02'}, 'proj/main.asm', [], ['proj', '.'], ['bytes-syntax']))
    T.append(Tree({'proj/main.asm': 'include_bytes nothere.bin\n'}, 'proj/main.asm', [], ['proj', '.'], ['bytes-missing']))
    T.append(Tree({'proj/main.asm': 'include sub\n', 'proj/sub/x.asm': 'nop\n'}, 'proj/main.asm', [], ['proj', '.'], ['directory']))
    T.append(Tree({'proj/main.asm': ' include a.asm\n', 'proj/a.asm': 'nop\n'}, 'proj/main.asm', [], ['proj', '.'], ['indented']))
    T.append(Tree({'proj/main.asm': 'nop\r\ninclude a.asm\r\n  \t \r\nnop\x0bnop\x0cnop', 'proj/a.asm': 'addi x1, x0, 2\r'}, 'proj/main.asm', [], ['proj', '.'], ['crlf']))
    T.append(Tree({'proj/main.asm': 'include nosuchdir/../a.asm\n', 'proj/a.asm': 'nop\n'}, 'proj/main.asm', [], ['proj', '.'], ['dotdot-missing-dir']))
    T.append(Tree({'proj/main.asm': 'include a.asm\n', 'proj/a.asm': 'include b.asm\n', 'proj/b.asm': 'include c.asm\n',
                   'proj/c.asm': 'include d.asm\n', 'proj/d.asm': 'include missing.asm\n'}, 'proj/main.asm', [], ['proj', '.'], ['deep-missing']))
    T.append(Tree({'proj/main.asm': 'INCLUDE_BYTES blob.bin\nnop\n', 'proj/blob.bin': b'abc'}, 'proj/main.asm', [], ['proj'], ['bytes-upper']))
    T.append(Tree({'proj/main.asm': 'include "a.asm\'\nincludes x\ninclude_x y\n', 'proj/a.asm': 'nop\n'}, 'proj/main.asm', [], ['proj', '.'], ['quotes-mixed']))
    return T


# ------------------------------------------------------------------------------------------ independent splicer
class SpliceError(Exception):
    pass


def splice_all(root, main_abs, inc_abs, limit=16):
    """All acceptable flattenings of the program, by the property's rule: `include F` is replaced by the lines of
    F found next to the including file or in an -i directory (any of them when several exist); include_bytes F
    by the bytes of the file found the same way.  Returns a list of source texts (<= limit)."""
    def expand(path, depth):
        if depth > 12:
            raise SpliceError('depth')
        with open(path, encoding='utf-8') as f:
            lines = f.read().splitlines()
        here = os.path.dirname(path)
        alts = [[]]
        for raw in lines:
            low = raw.lower()
            if low.startswith('include '):
                body = re.sub(r'#.*$', '', raw).split()
                if len(body) != 2:
                    raise SpliceError('syntax')
                name = body[1].strip('"\'')
                cands = []
                for d in [here] + list(inc_abs):
                    p = os.path.join(d, name)
                    if os.path.isfile(p) and os.path.realpath(p) not in [os.path.realpath(c) for c in cands]:
                        cands.append(p)
                if not cands:
                    raise SpliceError('missing')
                new = []
                for c in cands:
                    for sub in expand(c, depth + 1):
                        for a in alts:
                            new.append(a + sub)
                            if len(new) > limit:
                                break
                alts = new[:limit]
            elif low.startswith('include_bytes '):
                body = raw.split()
                if len(body) != 2:
                    raise SpliceError('syntax')
                cands = []
                for d in [here] + list(inc_abs):
                    p = os.path.join(d, body[1])
                    if os.path.isfile(p):
                        cands.append(p)
                if not cands:
                    raise SpliceError('missing')
                new = []
                seen = set()
                for c in cands:
                    with open(c, 'rb') as f:
                        data = f.read()
                    if data in seen:
                        continue
                    seen.add(data)
                    line = 'bytes ' + ' '.join(str(b) for b in data) if data else ''
                    new += [a + [line] for a in alts]
                alts = new[:limit]
            else:
                alts = [a + [raw] for a in alts]
        return alts
    return ['\n'.join(a) + '\n' for a in expand(main_abs, 0)]


# ------------------------------------------------------------------------------------------ whole-model correspondence
def whole_correspondence(ctx, asm, n=12):
    """Proofs/Whole.v assemble_model (reader + lexer + parser + 16 passes composed inside Coq: the object the whole-model theorems of
    C13 / C14 / C15 speak about) against the real asm.assemble on n generated include trees + the hand-made error trees, both modes:
    per-item chunks with their file and line, constants, labels, or the file and line of the AssemblerError."""
    import tempfile
    import shutil
    import pipeline
    gen = TreeGen(ctx.rng)
    trees = [gen.make('plain') for _ in range(n)] + repeat_trees(ctx.rng, 4) + error_trees()
    base = tempfile.mkdtemp(prefix='bbwhole_')
    try:
        preamble, terms, reals, meta = '', [], [], []
        for i, t in enumerate(trees):
            if 'include_bytes' in t.feats or any(isinstance(v, bytes) for v in t.files.values()):
                continue
            root = os.path.join(base, 't{}'.format(i))
            os.makedirs(root)
            t.materialise(root)
            fsname = 'fs_{}'.format(i)
            preamble += 'Definition {} : fsys := {}.\n'.format(fsname, ser_fs(root))
            main_abs = os.path.join(root, t.main)
            inc_abs = [os.path.normpath(os.path.join(root, d)) for d in t.incs]
            cwd = os.path.normpath(os.path.join(root, t.cwds[i % len(t.cwds)]))
            for cmp_ in (False, True):
                old = os.getcwd()
                os.chdir(cwd)
                try:
                    reals.append(pipeline.run_real(asm, main_abs, cmp_, include_dirs=list(inc_abs)))
                finally:
                    os.chdir(old)
                terms.append('match assemble_model 8 {} {} {} {} [] [] {} with WDone r => render (Done r) | WFail e => render (Fail e) '
                             '| WUnsup => "UNSUP" end'.format(fsname, cbytes(cwd), clist(cbytes(d) for d in inc_abs), cbytes(main_abs),
                                                              'true' if cmp_ else 'false'))
                meta.append((t, root, cwd, cmp_))
        answers = run_terms('Base.PyBase Model.Items Model.Passes Model.Render Model.Reader Proofs.Whole', terms, preamble=preamble, shard=30)
        for (t, root, cwd, cmp_), real, a in zip(meta, reals, answers):
            m = pipeline.parse_model(a)
            if m['status'] == 'UNSUP':
                ctx.unsupported += 1
                continue
            ctx.traces_validated += 1
            ctx.count('whole-model-' + real['status'])
            if not pipeline.same(real, m):
                ctx.corr('Proofs.Whole.assemble_model', {'tree': t.to_json(), 'cwd': os.path.relpath(cwd, root), 'compress': cmp_},
                         str(pipeline.brief(real)).replace(root, '<root>')[:600],
                         (str(pipeline.brief(m)) if m['status'] != 'MODEL-ERROR' else 'model evaluation failed').replace(root, '<root>')[:600])
    finally:
        shutil.rmtree(base, ignore_errors=True)
