"""Real CLI runs for C17 (and C14): the bronzebeard entry point in a subprocess (`python -m bronzebeard.asm`,
PYTHONPATH = $VERIF_REPO) on generated programs / options with pre-existing sentinel files, from several working
directories.  The falsifier evaluates the property directly on what the run left on disk; the correspondence
compares files + exit status with Model.Cli.run_cli on the GENERATED step list."""
import concurrent.futures
import os
import shutil
import subprocess
import tempfile

import harness
import files_engine as fe

PY = '/venv/bin/python'
REPO = os.environ.get('VERIF_REPO', '/repo')
SENTINEL = b'OLD CONTENTS, MUST SURVIVE A FAILED RUN\n'


def run_cli(argv, cwd, timeout=900):
    env = dict(os.environ)
    env['PYTHONPATH'] = REPO
    env['PYTHONDONTWRITEBYTECODE'] = '1'
    p = subprocess.run([PY, '-m', 'bronzebeard.asm'] + list(argv), cwd=cwd, env=env, stdout=subprocess.PIPE,
                       stderr=subprocess.PIPE, timeout=timeout)
    return p.returncode, p.stdout.decode('utf-8', 'replace'), p.stderr.decode('utf-8', 'replace')


# ------------------------------------------------------------------------------------------ programs
OK_PROGRAMS = {
    'tiny': 'start:\n  addi x1, x0, 1\n  j start\n',
    'mixed': ('X = 5\nmain:\n  li t0, X\n  lw a0, 4(sp)\nloop:\n  addi t0, t0, -1\n  bnez t0, loop\n  ret\ndata:\n  bytes 1 2 3\n'
              '  string hello\n  align 4\nend:\n'),
    'include': 'include defs.asm\nmain:\n  li t0, DEF_A\n  addi t0, t0, DEF_B\nafter:\n',          # defs.asm is in inc/
    'empty': 'ONLY = 1\n',
    'compressible': 'top:\n  addi x8, x8, 1\n  add x9, x9, x10\n  beq x8, x0, top\n  jal x0, top\nbottom:\n',
    'blob': 'head:\n  include_bytes blob.bin\ntail:\n  nop\n',
}
# a failure in (nearly) every pass of assemble(); 'compress' = needs -c
FAIL_PROGRAMS = {
    'read-missing-include': ('addi x1, x0, 1\ninclude nothere.asm\n', False),
    'lex-parse': ('addi x1, x0\n', False),
    'error-directive': ('nop\nerror this build is not allowed\n', False),
    'constants': ('X = Y + 1\naddi x1, x0, X\n', False),
    'compressible': ('add x1, x1, x99\n', True),
    'pseudo': ('li t0, undefined_name\n', False),
    'aliases-late': ('R = 7\nmv R, t0\nmv t1, zz9\n', False),
    'immediates': ('addi x1, x0, nolabel\n', False),
    'instructions': ('addi x1, x0, 5000\n', False),
    'branch-range': ('beq x0, x0, far\n' + 'nop\n' * 1100 + 'far:\n', False),
    'sequences': ('bytes 1 2 256\n', False),
    'shorthand-packs': ('db 256\n', False),
    'packs': ('pack <B, 256\n', False),
    'strings': ('string \\xZZ\n', False),
    'include-bytes-missing': ('include_bytes nothere.bin\n', False),
    'unpack-raw': ('mv t0\n', False),
}

HEX_OK = ['0', '0x08000000', '134217728', '0b1000', ' 16 ', '0x0800_0000', '0o17', '0xfffffff0']
HEX_BAD = ['zzz', '08', '1e3', '0x', '-4', '-1', '0x100000000', '4294967296', '0xfffffffe', '99999999999999999999']


class Case:
    def __init__(self, name, source, argv, cwd_rel, opts, present=True, extra_files=None):
        self.name, self.source, self.argv, self.cwd_rel, self.opts = name, source, argv, cwd_rel, opts
        self.present = present
        self.extra_files = extra_files or {}

    def to_json(self):
        return {'name': self.name, 'source': self.source, 'argv': self.argv, 'cwd': self.cwd_rel, 'opts': self.opts,
                'present': self.present}

    @staticmethod
    def from_json(j):
        return Case(j['name'], j['source'], j['argv'], j['cwd'], j['opts'], j.get('present', True))


def make_case(name, source, compress=False, labels=None, output='out.bin', hexoff=None, incs=('inc',), incdefs=False,
              verbose=False, cwd_rel='proj', present=True, special=None):
    """opts are spelled relative to proj/; argv is respelled for the working directory"""
    def rel(p):
        if p is None or p == '' or os.path.isabs(p) or p.startswith('@ROOT@'):
            return p
        return os.path.relpath(os.path.join('proj', p), cwd_rel)
    argv = []
    o = dict(argv_ok=True, version_first=False, version=False, verbose=verbose, compress=compress, input=rel('main.asm'),
             include=[rel(d) for d in incs], output=rel(output) if output is not None else 'bb.out',
             labels=rel(labels) if labels else '', hex=hexoff if hexoff is not None else '', incdefs=incdefs)
    if special == 'version-first':
        argv.append('--version')
        o['version_first'] = True
    argv.append(o['input'])
    if special == 'missing-input':
        argv[-1] = o['input'] = rel('nosuch.asm')
    if compress:
        argv.append('-c')
    if verbose:
        argv.append('-v')
    for d in o['include']:
        argv += ['-i', d]
    if output is not None:
        argv += ['-o', o['output']]
    if labels:
        argv += ['-l', o['labels']]
    if hexoff is not None:
        argv += ['--hex-offset=' + hexoff]
    if incdefs:
        argv.append('--include-definitions')
    if special == 'version':
        argv.append('--version')
        o['version'] = True
    if special == 'bad-option':
        argv.append('--no-such-option')
        o['argv_ok'] = False
    return Case(name, source, argv, cwd_rel, o, present)


def generate(rng, quick):
    cases = []
    cwds = ['proj', '.', 'other']
    k = 0
    # failures of the assembler, with all three outputs requested and present
    for name, (src, needc) in FAIL_PROGRAMS.items():
        k += 1
        cases.append(make_case('fail-' + name, src, compress=needc, labels='lab.txt', hexoff=rng.choice(HEX_OK[:3]),
                               cwd_rel=cwds[k % 3]))
        if True:
            cases.append(make_case('fail-' + name + '-c', src, compress=True, labels='sub/lab.txt', output=None,
                                   hexoff=None, cwd_rel=cwds[(k + 1) % 3], verbose=(k % 2 == 0)))
    # successes x hex offsets
    progs = list(OK_PROGRAMS.items())
    for i, h in enumerate(HEX_BAD[:1] + HEX_OK + HEX_BAD[1:] + [None, '']):
        pn, src = progs[i % len(progs)]
        if pn == 'blob':
            pn, src = progs[0]
        cases.append(make_case('ok-{}-hex-{}'.format(pn, h), src, compress=(i % 2 == 0), labels=('lab.txt' if i % 3 else None),
                               hexoff=h, cwd_rel=cwds[i % 3], incdefs=(i % 4 == 1), verbose=(i % 5 == 0)))
    for pn, src in progs:
        for c in (False, True):
            cases.append(make_case('ok-{}-{}'.format(pn, 'c' if c else 'n'), src, compress=c, labels='lab.txt',
                                   hexoff='0x08000000', cwd_rel=cwds[(len(cases)) % 3]))
    # option edges
    cases.append(make_case('default-output', OK_PROGRAMS['tiny'], output=None, labels='lab.txt'))
    cases.append(make_case('default-output-fail', FAIL_PROGRAMS['constants'][0], output=None, labels='lab.txt', hexoff='0'))
    cases.append(make_case('absent-files-ok', OK_PROGRAMS['mixed'], labels='lab.txt', hexoff='0x20000000', present=False))
    cases.append(make_case('absent-files-fail', FAIL_PROGRAMS['packs'][0], labels='lab.txt', hexoff='0x20000000', present=False))
    cases.append(make_case('bad-include-dir', OK_PROGRAMS['tiny'], labels='lab.txt', hexoff='0', incs=('inc', 'nosuchdir')))
    cases.append(make_case('include-dir-is-file', OK_PROGRAMS['tiny'], labels='lab.txt', hexoff='0', incs=('main.asm',)))
    cases.append(make_case('missing-input', OK_PROGRAMS['tiny'], labels='lab.txt', hexoff='0', special='missing-input'))
    cases.append(make_case('version-first', OK_PROGRAMS['tiny'], labels='lab.txt', hexoff='0', special='version-first'))
    cases.append(make_case('version-later', OK_PROGRAMS['tiny'], labels='lab.txt', hexoff='0', special='version'))
    cases.append(make_case('bad-option', OK_PROGRAMS['tiny'], labels='lab.txt', hexoff='0', special='bad-option'))
    cases.append(make_case('incdefs', 'include GD32VF103.asm\nmain:\n  li t0, MTIME_BASE_ADDR\n', labels='lab.txt', incdefs=True, incs=()))
    cases.append(make_case('incdefs-missing', 'include GD32VF103.asm\n', labels='lab.txt', incdefs=False, incs=()))
    cases.append(make_case('abs-output', OK_PROGRAMS['tiny'], output='@ROOT@/other/abs.bin', labels='@ROOT@/other/abs.txt', hexoff='0x100',
                           cwd_rel='.'))
    cases.append(make_case('blob-other-cwd', OK_PROGRAMS['blob'], labels='lab.txt', hexoff='0', cwd_rel='other'))
    cases.append(make_case('include-no-dir', OK_PROGRAMS['include'], labels='lab.txt', incs=()))
    if True:
        for i in range(30 if quick else 120):
            fail = rng.random() < 0.5
            if fail:
                pn = rng.choice(list(FAIL_PROGRAMS))
                src, needc = FAIL_PROGRAMS[pn]
            else:
                pn = rng.choice(list(OK_PROGRAMS))
                src, needc = OK_PROGRAMS[pn], False
            cases.append(make_case('rnd-{}-{}'.format(i, pn), src, compress=needc or rng.random() < 0.4,
                                   labels=rng.choice([None, 'lab.txt', 'sub/lab.txt']),
                                   output=rng.choice([None, 'out.bin', 'sub/out.bin']),
                                   hexoff=rng.choice([None, None] + HEX_OK + HEX_BAD),
                                   incs=rng.choice([(), ('inc',), ('inc', 'sub')]), incdefs=rng.random() < 0.2,
                                   verbose=rng.random() < 0.2, cwd_rel=rng.choice(cwds), present=rng.random() < 0.85))
    return cases


# ------------------------------------------------------------------------------------------ running one case
def materialise(case, root):
    """proj/main.asm, proj/inc/defs.asm, proj/blob.bin, proj/sub/, other/ and the sentinel output files"""
    for d in ('proj/inc', 'proj/sub', 'other'):
        os.makedirs(os.path.join(root, d), exist_ok=True)
    with open(os.path.join(root, 'proj/main.asm'), 'w') as f:
        f.write(case.source)
    with open(os.path.join(root, 'proj/inc/defs.asm'), 'w') as f:
        f.write('DEF_A = 0x12345678\nDEF_B = 12\n')
    with open(os.path.join(root, 'proj/blob.bin'), 'wb') as f:
        f.write(bytes(range(1, 8)))
    cwd = os.path.normpath(os.path.join(root, case.cwd_rel))
    paths = out_paths(case, root)
    if case.present:
        for p in paths.values():
            if p:
                with open(p, 'wb') as f:
                    f.write(SENTINEL)
    return cwd, paths


def fix(s, root):
    return s.replace('@ROOT@', root) if isinstance(s, str) else s


def out_paths(case, root):
    cwd = os.path.normpath(os.path.join(root, case.cwd_rel))
    o = case.opts
    out = os.path.normpath(os.path.join(cwd, fix(o['output'], root)))
    lab = os.path.normpath(os.path.join(cwd, fix(o['labels'], root))) if o['labels'] else None
    return {'output': out, 'labels': lab, 'hex': out + '.hex'}


def read_or_none(p):
    if p is None or not os.path.exists(p):
        return None
    with open(p, 'rb') as f:
        return f.read()


def expected_assembly(asm, case, root, cwd):
    """what asm.assemble returns for the arguments cli_main passes, run in-process in the same working directory"""
    o = case.opts
    dirs = [os.path.abspath(os.path.join(cwd, d)) for d in o['include']]
    if o['incdefs']:
        dirs.append(os.path.join(os.path.dirname(os.path.abspath(asm.__file__)), 'definitions'))
    old = os.getcwd()
    os.chdir(cwd)
    try:
        labels = {}
        try:
            b = asm.assemble(os.path.abspath(o['input']), constants={}, labels=labels, compress=o['compress'], include_dirs=dirs)
            return (bytes(b), list(labels.items()))
        except Exception as e:
            return ('FAIL', harness.exc_class(e))
    finally:
        os.chdir(old)


def run_case(asm, case, root):
    cwd, paths = materialise(case, root)
    fs_before = fe.ser_fs(root, extra_dirs=[os.path.join(os.path.dirname(os.path.abspath(asm.__file__)), 'definitions')])
    exp = expected_assembly(asm, case, root, cwd)
    before = {k: read_or_none(p) for k, p in paths.items()}
    argv = [fix(a, root) for a in case.argv]
    rc, so, se = run_cli(argv, cwd)
    after = {k: read_or_none(p) for k, p in paths.items()}
    return dict(case=case, root=root, cwd=cwd, paths=paths, exp=exp, before=before, after=after, rc=rc, stderr=se[-400:],
                fs_before=fs_before)


def parse_offset(s):
    try:
        return int(s, 0)
    except ValueError:
        return None


def evaluate(run, hexdec):
    """The property on what the real run left behind.  hexdec: decoded hex file (Spec decoder) or None / 'EVAL-FAILED'.
    Returns a list of (what, observed, expected, match)."""
    case, rc, exp, before, after = run['case'], run['rc'], run['exp'], run['before'], run['after']
    o = case.opts
    bad = []
    hexreq = bool(o['hex'])
    cause = ('hex-offset' if hexreq and (parse_offset(o['hex']) is None or not (0 <= parse_offset(o['hex']) and (
        exp[0] == 'FAIL' or parse_offset(o['hex']) + len(exp[0]) <= 2 ** 32))) else
        'assembler' if exp[0] == 'FAIL' else 'other')
    if rc == 0:
        if exp[0] == 'FAIL':
            bad.append(('exit status 0 although assemble() raises {}'.format(exp[1]), {'exit': rc}, 'non-zero exit',
                        {'kind': 'success-but-failed', 'cause': cause}))
            return bad
        binary, labels = exp
        if after['output'] != binary:
            bad.append(('-o file is not the assembled program', {'out': (after['output'] or b'')[:64].hex(), 'len': len(after['output'] or b'')},
                        {'out': binary[:64].hex(), 'len': len(binary)}, {'kind': 'wrong-output', 'file': 'output'}))
        if o['labels']:
            want = ''.join('{} 0x{:08x}\n'.format(k, v) for k, v in labels).encode()
            if after['labels'] != want:
                bad.append(('-l file is not one "name 0x%08x" line per label', {'labels': (after['labels'] or b'')[:200].decode('latin-1')},
                            {'labels': want[:200].decode()}, {'kind': 'wrong-output', 'file': 'labels'}))
        if hexreq:
            off = parse_offset(o['hex'])
            want = [(off + i, b) for i, b in enumerate(binary)] if off is not None else None
            if hexdec == 'EVAL-FAILED':
                bad.append(('hex file could not be decoded by the Spec evaluator', {}, {}, {'kind': 'harness'}))
            elif want is None or hexdec != want:
                got = None if hexdec is None else hexdec[:6]
                bad.append(('--hex-offset {!r}: exit 0 but the .hex file does not decode to the program at that offset'.format(o['hex']),
                            {'decoded_head': got, 'hex_head': (after['hex'] or b'')[:80].decode('latin-1')},
                            {'decoded_head': None if want is None else want[:6]}, {'kind': 'wrong-output', 'file': 'hex', 'cause': cause}))
    else:
        off_legal = (not hexreq) or (parse_offset(o['hex']) is not None and 0 <= parse_offset(o['hex']) < 2 ** 32)
        if exp[0] != 'FAIL' and cause == 'other' and off_legal and str(getattr(case, 'name', '')).startswith('ok-'):
            # a plain invocation: existing input, assembles, the hex offset (if any) is a legal 32-bit address with room for the image
            bad.append(('exit status {} although the program assembles and every option is legal (hex offset {!r})'.format(rc, o['hex']),
                        {'exit': rc, 'stderr': run['stderr'][-200:]}, 'exit 0 and the three files', {'kind': 'refused-valid-run', 'cause': cause}))
        for k in ('output', 'labels', 'hex'):
            if before[k] is not None and after[k] != before[k]:
                bad.append(('exit status {} but the existing {} file was {}'.format(
                    rc, {'output': '-o', 'labels': '-l', 'hex': '.hex'}[k], 'removed' if after[k] is None else 'overwritten'),
                    {'exit': rc, 'file': k, 'now': (after[k] or b'')[:48].hex(), 'stderr': run['stderr'][-160:]},
                    'file untouched', {'kind': 'clobber', 'file': k, 'cause': cause}))
    return bad


def model_term(run):
    """render_cli ... (run_cli asm bin2hex_fn defs cli_steps cwd opts fs) for this run: the assembler is the observed
    in-process result of asm.assemble, bin2hex is the WRITER MODEL Model.HexWriter.bin2hex_fn (so the .hex file the model
    run leaves is compared byte for byte with the one the real run wrote)"""
    case, exp, root = run['case'], run['exp'], run['root']
    o = case.opts
    if exp[0] == 'FAIL':
        asm_t = 'None'
    else:
        asm_t = 'Some ({}, {})'.format(fe.cbytes(exp[0]), fe.clist('({}, {})'.format(fe.cbytes(k), fe.cz(v)) for k, v in exp[1]))
    b2h = 'bin2hex_fn'
    opts = ('{{| o_argv_ok := {}; o_version_first := {}; o_version := {}; o_verbose := {}; o_compress := {}; o_input := {}; '
            'o_include := {}; o_output := {}; o_labels := {}; o_hex := {}; o_incdefs := {} |}}').format(
        fe.cbool(o['argv_ok']), fe.cbool(o['version_first']), fe.cbool(o['version']), fe.cbool(o['verbose']), fe.cbool(o['compress']),
        fe.cbytes(fix(o['input'], root)), fe.clist(fe.cbytes(fix(d, root)) for d in o['include']), fe.cbytes(fix(o['output'], root)),
        fe.cbytes(fix(o['labels'], root)), fe.cbytes(o['hex']), fe.cbool(o['incdefs']))
    return ('let o := {} in render_cli {} o (run_cli (fun _ _ _ _ _ => {}) {} "/pkg/definitions" cli_steps {} o ({}))'.format(
        opts, fe.cbytes(run['cwd']), asm_t, b2h, fe.cbytes(run['cwd']), run['fs_before']))


def parse_model(s):
    if s is None:
        return None
    parts = s.split('|')

    def f(x):
        return None if x == '-' else bytes.fromhex(x[1:])
    return {'rc': int(parts[0]), 'output': f(parts[1]), 'labels': f(parts[2]), 'hex': f(parts[3])}


def run_all(asm, cases, workers=6):
    base = tempfile.mkdtemp(prefix='bbc17_')
    try:
        runs = [None] * len(cases)

        def one(i):
            root = os.path.join(base, 'c{}'.format(i))
            os.makedirs(root)
            return i, (cases[i], root)
        # the in-process parts (chdir) are sequential; only the subprocesses run in parallel
        prepared = []
        for i, c in enumerate(cases):
            root = os.path.join(base, 'c{}'.format(i))
            os.makedirs(root)
            cwd, paths = materialise(c, root)
            defs = os.path.join(os.path.dirname(os.path.abspath(asm.__file__)), 'definitions')
            prepared.append(dict(case=c, root=root, cwd=cwd, paths=paths, fs_before=fe.ser_fs(root),
                                 exp=expected_assembly(asm, c, root, cwd),
                                 before={k: read_or_none(p) for k, p in paths.items()}))

        def sub(r):
            argv = [fix(a, r['root']) for a in r['case'].argv]
            rc, so, se = run_cli(argv, r['cwd'])
            r['rc'], r['stderr'] = rc, se[-400:]
            r['after'] = {k: read_or_none(p) for k, p in r['paths'].items()}
            return r
        with concurrent.futures.ThreadPoolExecutor(max_workers=workers) as ex:
            runs = list(ex.map(sub, prepared))
        return runs
    finally:
        shutil.rmtree(base, ignore_errors=True)
