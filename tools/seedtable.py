#!/venv/bin/python
"""Rewrites the seeded-changes table of DESIGN.md (between the SEEDTABLE markers) from seeded/*/meta.json."""
import glob, json, os, re
VERIF = os.path.dirname(os.path.dirname(os.path.abspath(__file__)))
rows = []
for d in sorted(glob.glob(os.path.join(VERIF, 'seeded', '*'))):
    try:
        m = json.load(open(os.path.join(d, 'meta.json')))
    except Exception:
        continue
    v = m.get('verification', {})
    pid = v.get('property', os.path.basename(d))
    summ = (m.get('summary') or '').replace('\n', ' ').replace('|', '/')
    summ = summ[:230] + ('...' if len(summ) > 230 else '')
    caught = v.get('caught', {})
    chk = v.get('check', {})
    how = []
    for p, r in chk.items():
        lines = r.get('lines', [])
        vio = [l for l in lines if l.startswith('VIOLATION')]
        if vio:
            kind = r.get('kind') or ('no-failing-input-found' if 'no-failing-input-found' in vio[0] else 'counterexample')
            broken = [l for l in lines if 'broken' in l]
            m2 = re.search(r'theorems (\d+)/(\d+).*broken (\d+)', ' '.join(lines))
            extra = ''
            if m2:
                extra = ' (theorems {}/{}, broken ties {})'.format(m2.group(1), m2.group(2), m2.group(3))
            how.append('{}: VIOLATION, {}{}'.format(p, kind, extra))
        else:
            how.append('{}: not reported'.format(p))
    rows.append('| {} | {} | {} | {} |'.format(os.path.basename(d), summ, 'yes' if v.get('confirmed') else 'NO', '; '.join(how)))
table = ('\n| seed | what the change does | confirmed (tests pass, demo fails only with it) | our check |\n|---|---|---|---|\n' + '\n'.join(rows) + '\n')
p = os.path.join(VERIF, 'DESIGN.md')
s = open(p).read()
if '<!-- SEEDTABLE-BEGIN -->' in s:
    s = re.sub(r'<!-- SEEDTABLE-BEGIN -->.*?<!-- SEEDTABLE-END -->', lambda m: '<!-- SEEDTABLE-BEGIN -->' + table + '<!-- SEEDTABLE-END -->', s, flags=re.S)
else:
    s = s.replace('SEEDTABLE', '\n<!-- SEEDTABLE-BEGIN -->' + table + '<!-- SEEDTABLE-END -->\n', 1)
open(p, 'w').write(s)
print(len(rows), 'rows')
