"""C17, the HEX writer: correspondence between the third-party `intelhex.bin2hex` (what asm.cli_main calls) and its Gallina
model Model.HexWriter.bin2hex_model, on generated (bytes, offset) pairs.

The real side writes real files exactly as cli_main does (bin2hex(<path of the binary>, <path>.hex, offset)); the model
side is evaluated with coqc + vm_compute (files_engine.run_terms), line feeds rendered as '|'.  Every real text is in
addition run through the independent Spec decoder (Spec.Hex.hex_decode) by the caller's choice (decode=True): the
theorem C17_hex_roundtrip says what the decoder returns on the MODEL's text, this checks the same on the REAL text."""
import os
import shutil
import tempfile
import zlib

import files_engine as fe

LENGTHS = [0, 1, 2, 3, 15, 16, 17, 31, 32, 33, 48, 100]
TWO32 = 2 ** 32


def real_bin2hex(pairs):
    """[(bytes, offset)] -> [text written by intelhex.bin2hex | ('RAISED', name)]"""
    from intelhex import bin2hex
    d = tempfile.mkdtemp(prefix='bbhexw_')
    out = []
    try:
        for i, (b, off) in enumerate(pairs):
            src = os.path.join(d, 'f{}.bin'.format(i))
            with open(src, 'wb') as f:
                f.write(b)
            try:
                rc = bin2hex(src, src + '.hex', off)
                with open(src + '.hex', 'rb') as f:
                    out.append(f.read() if rc == 0 else ('RAISED', 'status {}'.format(rc)))
            except Exception as e:  # noqa: BLE001 -- anything the library raises is a disagreement with the model
                out.append(('RAISED', type(e).__name__))
            for p in (src, src + '.hex'):
                if os.path.exists(p):
                    os.remove(p)
    finally:
        shutil.rmtree(d, ignore_errors=True)
    return out


def generate(rng, quick):
    """(bytes, offset) pairs with 0 <= offset and offset + len <= 2^32 (the range cli_main lets through)"""
    pairs = []

    def rb(n):
        return bytes(rng.randrange(256) for _ in range(n))

    def add(n, off):
        if 0 <= off and off + n <= TWO32:
            pairs.append((rb(n), off))
    # small offsets, aligned and not
    for n in LENGTHS:
        for off in (0, 1, 5, 15, 16, 17, 0x100, 0xFFF):
            add(n, off)
    # just below / at / above multiples of 0x10000: the record is cut at the line, a type-04 record follows
    blocks = [1, 2, 3, 0x7F, 0x80, 0xFF, 0x100, 0x0800, 0x7FFF, 0x8000, 0xFFFF] if quick else \
        [1, 2, 3, 4, 0x7F, 0x80, 0xFF, 0x100, 0x101, 0x0800, 0x2000, 0x7FFF, 0x8000, 0x8001, 0xFFFE, 0xFFFF]
    deltas = [-33, -17, -16, -15, -8, -1, 0, 1, 15, 16, 17]
    for k in blocks:
        for dl in deltas:
            for n in (rng.sample(LENGTHS, 3) if quick else LENGTHS):
                add(n, k * 0x10000 + dl)
    # the last byte of the file in the first block, on the line, just beyond it (need_offset_record flips)
    for n in (1, 2, 16, 17, 40):
        for end in (0xFFFE, 0xFFFF, 0x10000, 0x10001):
            add(n, end - n + 1)
    # the top of the address space: offset + len = 2^32 exactly, and a little below
    for n in LENGTHS:
        for slack in (0, 1, 2, 16):
            add(n, TWO32 - n - slack)
    # unaligned random
    for _ in range(40 if quick else 400):
        add(rng.choice(LENGTHS + [rng.randrange(1, 200)]), rng.randrange(0, TWO32 - 256))
    # longer files: many records; files that cross TWO 64 KiB lines (more than 64 KiB of data).  Their bytes follow
    # a pattern the model side can generate itself (a literal of that size costs coqc ~10 s to read)
    add(700, 0xFE00)
    for n, off in ([(5000, 0x2FFF3), (0x10000 + 40, 0x1FFF5)] if quick else
                   [(5000, 0x2FFF3), (40000, 0x7FFF9), (0x10000 + 40, 0x1FFF5), (0x10000 + 16, 0xFFFF0),
                    (0x20000 + 5, 0xFFFDFFFB), (0x10001, 0xFFFF), (0x10000, 0), (0x10000, 1), (0x10001, 0)]):
        if off + n <= TWO32:
            pairs.append((pattern(n, rng.randrange(1, 256, 2), rng.randrange(256)), off))
    return pairs


def pattern(n, a, c):
    return bytes((i * a + c) % 256 for i in range(n))


LONG = 1000        # above this length the model's text is compared through its length and Adler-32 checksum
PREAMBLE = ('From Coq Require Import Ascii.\n'
            'Fixpoint pat (n : nat) (i a c : Z) : list Z := match n with O => [] | S k => (i * a + c) mod 256 :: pat k (i + 1) a c end.\n'
            'Fixpoint adler (s : string) (a b : Z) : Z := match s with EmptyString => b * 65536 + a | String ch r => '
            'let a1 := (a + zc ch) mod 65521 in adler r a1 ((b + a1) mod 65521) end.\n'
            'Definition digest (s : string) : string := (dec (Z.of_nat (String.length s)) ++ "," ++ dec (adler s 1 0))%string.\n'
            'Definition nlbar (s : string) : string := string_of_list_ascii (map (fun c => '
            'if Ascii.eqb c (Ascii.ascii_of_N 10) then "|"%char else c) (list_ascii_of_string s)).\n')


def model_bin2hex(pairs):
    """the model's text for each pair (None where the evaluation failed)"""
    def lit(b):
        # a list literal of tens of thousands of elements overflows coqc's stack: pieces of 400 joined with ++
        if len(b) <= 400:
            return fe.clist(str(c) for c in b)
        return '(' + ' ++ '.join(fe.clist(str(c) for c in b[i:i + 400]) for i in range(0, len(b), 400)) + ')%list'
    def term(b, off):
        if len(b) > LONG:
            a, c = (b[1] - b[0]) % 256, b[0]
            src = 'pat (Z.to_nat {}) 0 {} {}'.format(len(b), a, c) if pattern(len(b), a, c) == b else lit(b)
            return 'digest (bin2hex_model ({}) {})'.format(src, fe.cz(off))
        return 'nlbar (bin2hex_model {} {})'.format(lit(b), fe.cz(off))
    terms = [term(b, off) for b, off in pairs]
    # spread the long cases over the shards: sort by size, deal round-robin, restore the order afterwards
    order = sorted(range(len(pairs)), key=lambda i: -len(pairs[i][0]))
    shards = max(1, min(6, len(pairs)))
    slots = [[] for _ in range(shards)]
    for j, i in enumerate(order):
        slots[j % shards].append(i)
    flat = [i for s in slots for i in s]
    size = max(len(s) for s in slots)
    # run_terms cuts consecutive shards of equal size: pad the short slots
    padded, back = [], []
    for s in slots:
        for i in s:
            padded.append(terms[i])
            back.append(i)
        for _ in range(size - len(s)):
            padded.append('""')
            back.append(None)
    outs = fe.run_terms('Spec.Hex Model.HexWriter', padded, preamble=PREAMBLE, shard=size, workers=shards)
    res = [None] * len(pairs)
    for i, o in zip(back, outs):
        if i is not None:
            if o is None:
                res[i] = None
            elif len(pairs[i][0]) > LONG:
                res[i] = ('digest',) + tuple(int(x) for x in o.split(','))
            else:
                res[i] = o.replace('|', '\n').encode('ascii')
    assert sorted(flat) == list(range(len(pairs)))
    return res


def agree(real, model):
    """does the model's answer (text, or ('digest', length, adler32) for a long file) match the real text?"""
    if isinstance(model, tuple) and isinstance(real, bytes):
        return model == ('digest', len(real), zlib.adler32(real))
    return real == model


def expected_placement(b, off):
    return [(off + k, c) for k, c in enumerate(b)]


def shape(text):
    """a short classification of a hex text: record types in order, run-length compressed (for counters)"""
    kinds = []
    for ln in text.decode('ascii', 'replace').splitlines():
        t = ln[7:9]
        if kinds and kinds[-1][0] == t:
            kinds[-1][1] += 1
        else:
            kinds.append([t, 1])
    return ' '.join('{}x{}'.format(t, n) if n > 1 else t for t, n in kinds)
