"""C15 engine: plants ONE identifiable faulty line into otherwise valid programs (at every position, inside
included files at depth 0-3, inside pseudo-instruction expansions, compression off and on) and requires the REAL
assembler to refuse the program with its own AssemblerError carrying the file and 1-based line of the planted line.
The same runs feed the pipeline correspondence (error class and location of the Gallina pass model vs the real code)."""
import os
import shutil
import tempfile

import gen_programs
import harness
import pipeline

# fault classes: (class name, [lines]); every line keeps 4-byte alignment of what follows (data faults are followed by
# an `align 4`), so that a planted fault never manufactures a second one in a later line
FAULTS = {
    'range': ['addi x1, x1, 5000', 'addi x1, x1, -2049', 'slli x1, x1, 32', 'lui x1, 0x100000', 'lw x8, 2048(x9)',
              'sw x8, -2049(x9)', 'andi x8, x8, 4096', 'c.addi x8, 100', 'c.lw x8, 3(x9)', 'jalr x1, x2, 2048',
              'csrrw x0, x1, 4096', 'fence 16, 1'],
    'range-data': ['db 256', 'db -129', 'dh 65536', 'dw 0x100000000', 'dd 0x10000000000000000', 'bytes 1 2 256',
                   'shorts 70000', 'ints -2147483649', 'pack <B 300', 'pack <h 40000'],
    'register': ['add x1, x1, x99', 'addi q0, x1, 1', 'mv t0, q9', 'li q9, 5', 'lw x1, 0(zz)', 'sub x8, x8, y9',
                 'slli x1, xx, 3', 'beqz w5, 0', 'jr q1', 'neg t7, t0', 'c.mv x1, x40', 'amoadd.w x1, x2, x77'],
    'undefined': ['j nowhere', 'beq x1, x2, nowhere', 'addi x1, x1, UNDEF', 'li x1, UNDEF', 'dw UNDEF', 'call nowhere',
                  'tail nowhere', 'X9 = UNDEF + 1', 'lw x8, UNDEF(x9)', 'bnez x8, nowhere', 'jal nowhere',
                  'lui x1, %hi(nowhere)', 'addi x1, x1, %lo(nowhere)', 'dw %offset(nowhere)', 'pack <I UNDEF',
                  'li x5, %position(nowhere, 4)'],
    'expression': ['addi x1, x1, 1 +', 'addi x1, x1, 1.5', 'li x1, 3 / 2', "X9 = 'ab'", 'dw 1 + * 2', 'addi x1, x1, (1',
                   'li x1, 1 << ', 'andi x8, x8, ~', 'X9 = 1 ===', 'db 0.5', 'li x1, "s"', 'addi x1, x1, [1]',
                   # truncated / over-long modifier expressions (parse_immediate unpacks tuples: D21)
                   'addi x1, x1, %hi(', 'addi x1, x1, %lo', 'lui x1, %hi', 'li x1, %position(', 'li x1, %position(start',
                   'dw %offset(', 'addi x1, x1, %offset start start', 'dw %position', 'X9 = %lo(', 'lw x8, %lo((x9)',
                   # malformed escapes in character literals (D24)
                   "addi x1, x1, '\\x'", "X9 = '\\'", "li x1, '\\u12'", "dw '\\N{nope}'"],
    'range-align': ['align 0'],
    'error-directive': ['error stop here', 'error unsupported configuration: 42', 'error bad \\x escape in the message', 'error ends with a backslash \\'],
}
DATA_CLASSES = {'range-data'}


def fault_lines(rng, cls):
    l = FAULTS[cls]
    return l


def base_program(rng):
    """A small valid program WITHOUT big gaps (plain list of lines)."""
    src, meta = gen_programs.program(rng, 'small', big_gap=False)
    return [l for l in src.split('\n')]


def plant(lines, pos, fault, cls):
    out = list(lines)
    ins = [fault] + (['align 4'] if cls in DATA_CLASSES else [])
    out[pos:pos] = ins
    return out, pos + 1          # 1-based line number of the planted line


def neutral(cls, fault):
    """A valid line of the same size as the planted one (to tell a second, manufactured fault from a wrong location)."""
    if cls in DATA_CLASSES:
        head = fault.split()[0]
        return {'db': 'db 0', 'dh': 'dh 0', 'dw': 'dw 0', 'dd': 'dd 0', 'bytes': 'bytes 1 2 3', 'shorts': 'shorts 1',
                'ints': 'ints 1', 'pack': 'pack <' + fault.split()[1][-1] + ' 0'}.get(head, 'dw 0')
    if cls in ('error-directive', 'duplicate-label', 'missing-include', 'include-directory', 'range-align'):
        return ''
    if fault.split()[0] in ('li', 'call', 'tail') or fault.startswith('X9'):
        return 'lui x1, 74565\naddi x1, x1, 1656'.replace('\n', ' # ') if False else ('X9 = 1' if fault.startswith('X9') else 'li x1, 0x12345678')
    if fault.startswith('c.'):
        return 'c.nop'
    if fault.split()[0] in ('dw', 'pack'):
        return 'dw 0'
    if fault.split()[0] == 'db':
        return 'db 0'
    return 'xor x1, x1, x1'


def valid_without(asm, src, fault, cls, compress, include_dirs=None):
    if '\n' + fault + '\n' not in '\n' + src:
        return True
    alt = ('\n' + src).replace('\n' + fault + '\n', '\n' + neutral(cls, fault) + '\n', 1)[1:]
    return pipeline.run_real(asm, alt, compress, include_dirs=include_dirs)['status'] == 'OK'


def expect_at(ctx, asm, src, compress, file, lineno, cls, fault, include_dirs=None, label=''):
    real = pipeline.run_real(asm, src, compress, include_dirs=include_dirs)
    if not os.path.exists(src) and not valid_without(asm, src, fault, cls, compress, include_dirs):
        ctx.count('discarded-base-not-valid')
        return real
    ctx.evaluations += 1
    ctx.count('fault-' + cls)
    inp = {'source': src if len(src) < 4000 else src[:4000], 'compress': compress, 'fault': fault, 'class': cls, 'where': label}
    if real['status'] == 'OK':
        ctx.cex('{} fault "{}" (line {}{}) was ACCEPTED: the program assembles'.format(cls, fault, lineno, label), inp,
                'assembled', 'AssemblerError at {}:{}'.format(file, lineno),
                {'kind': 'accepted', 'class': cls, 'fault': fault.split()[0]})
    elif real['status'] == 'RAW':
        ctx.cex('{} fault "{}" (line {}{}) escapes as a raw {} instead of an AssemblerError{}'.format(
            cls, fault, lineno, label, real['cls'], ' [-c]' if compress else ''), inp, real['cls'],
            'AssemblerError at {}:{}'.format(file, lineno),
            {'kind': 'raw-exception', 'class': cls, 'exn': real['cls'], 'fault': fault.split()[0]})
    else:
        ok_file = (real['file'] == file) or (os.path.isabs(str(real['file'])) and os.path.isabs(str(file))
                                             and os.path.realpath(real['file']) == os.path.realpath(file))
        if not ok_file or real['line'] != lineno:
            ctx.cex('{} fault "{}" planted at {}:{}{} is reported at {}:{}'.format(
                cls, fault, file, lineno, label, real['file'], real['line']), inp, [real['file'], real['line']],
                [file, lineno], {'kind': 'wrong-location', 'class': cls, 'fault': fault.split()[0]})
        else:
            ctx.nontriv((cls, fault, compress, label))
    return real


def legal_operand(k):
    """one operand text inside the documented set of kind k (tools/isa.py)"""
    if k == 'r':
        return 'x9'
    if k in ('rc', 'rnz', 'rn02'):
        return 'x9'
    t = k[0]
    if t in ('i', 'inz'):
        _, lo, hi, sc = k
        v = sc * max(1, (lo // sc) + 1) if lo > 0 else sc
        return str(v if lo <= v <= hi else lo + ((-lo) % sc))
    if t in ('upper', 'cupper'):
        return '5'
    if t == 'set':
        return '3'
    if t == 'csr':
        return '0x300'
    raise ValueError(k)


def mnemonic_faults():
    """For EVERY mnemonic and EVERY operand position: an unknown register / an out-of-range immediate / an undefined name /
    a malformed expression in that position, all other operands legal.  (class, line)"""
    import isa
    out = []
    for name, kinds in isa.SPEC_ALL.items():
        base = [legal_operand(k) for k in kinds]
        if name in isa.ATOMICS:
            pass
        for j, k in enumerate(kinds):
            variants = []
            if isinstance(k, str):
                variants = [('register', 'q9'), ('register', 'x32'), ('register', 'x-1')]
            else:
                variants = [('range', str(1 << 40)), ('range', str(-(1 << 40))), ('undefined', 'UNDEF_NAME'),
                            ('expression', '1 +'), ('expression', '2.5'), ('expression', "'ab'")]
                if k[0] in ('i', 'inz'):
                    variants += [('range', str(k[2] + k[3])), ('range', str(k[1] - k[3]))]
            for cls, txt in variants:
                ops = list(base)
                ops[j] = txt
                out.append((cls, (name + ' ' + ', '.join(ops)).strip()))
    # pseudo-instructions: registers and targets in every position
    P2 = ['mv', 'not', 'neg', 'seqz', 'snez', 'sltz', 'sgtz']
    PB1 = ['beqz', 'bnez', 'blez', 'bgez', 'bltz', 'bgtz']
    PB2 = ['bgt', 'ble', 'bgtu', 'bleu']
    for n in P2:
        out += [('register', n + ' q9, x9'), ('register', n + ' x9, q9')]
    for n in PB1:
        out += [('register', n + ' q9, start'), ('undefined', n + ' x9, NOWHERE'), ('range', n + ' x9, 1048576')]
    for n in PB2:
        out += [('register', n + ' q9, x9, start'), ('register', n + ' x9, q9, start'), ('undefined', n + ' x9, x8, NOWHERE')]
    for n in ['j', 'jal', 'call', 'tail']:
        out += [('undefined', n + ' NOWHERE')]
    for n in ['jr', 'jalr']:
        out += [('register', n + ' q9')]
    out += [('register', 'li q9, 5'), ('undefined', 'li x9, NOWHERE'), ('expression', 'li x9, 1 +'), ('expression', 'li x9, 2.5'),
            ('undefined', 'li x9, %hi(NOWHERE)'), ('undefined', 'li x9, %position(NOWHERE, 4)'), ('undefined', 'li x9, %offset NOWHERE')]
    return out


def explore(ctx):
    asm = harness.real_asm()
    rng = ctx.rng
    ctx.rule = ('one faulty line of each class (operand out of range incl. data and align 0, unknown register, undefined label / constant, '
                'malformed or non-integer expression, error directive, duplicate label, missing include incl. a directory of that name) planted at every '
                'position of small valid programs, top level and include depth 1-3, compression off and on; non-trivial = '
                'distinct (class, fault line, mode, include depth) reported at the right place')
    nprog = 6 if ctx.quick() else 60
    progs = []
    # ---- top level, every position --------------------------------------------------------------------------
    for k in range(nprog):
        lines = base_program(rng)
        positions = list(range(len(lines) + 1))
        if ctx.quick():
            rng.shuffle(positions)
            positions = sorted(positions[:4])
        for cls in FAULTS:
            faults = FAULTS[cls]
            for pos in positions:
                fault = faults[(k * 7 + pos) % len(faults)]
                new, ln = plant(lines, pos, fault, cls)
                src = '\n'.join(new) + '\n'
                for c in (False, True):
                    expect_at(ctx, asm, src, c, '<string>', ln, cls, fault)
                    progs.append({'source': src, 'compress': c})
    # every fault line once, alone in a tiny program (both modes)
    for cls, faults in FAULTS.items():
        for fault in faults:
            lines = ['start:', 'addi x8, x8, 1', 'lw x8, 4(x9)', 'j start']
            for pos in (0, 2, 4):
                new, ln = plant(lines, pos, fault, cls)
                src = '\n'.join(new) + '\n'
                for c in (False, True):
                    expect_at(ctx, asm, src, c, '<string>', ln, cls, fault)
                    progs.append({'source': src, 'compress': c})
    # ---- every mnemonic x every operand position x every fault kind (systematic, both modes) -------------------------------------
    mf = mnemonic_faults()
    for cls, fault in mf:
        lines = ['start:', 'addi x8, x8, 1', fault, 'lw x8, 4(x9)']
        src = '\n'.join(lines) + '\n'
        for c in (False, True):
            expect_at(ctx, asm, src, c, '<string>', 3, cls, fault)
    # ---- duplicate label ------------------------------------------------------------------------------------------
    for k in range(3 if ctx.quick() else 20):
        lines = base_program(rng)
        labels = [i for i, l in enumerate(lines) if l.endswith(':')]
        if not labels:
            continue
        first = rng.choice(labels)
        pos = rng.randrange(first + 1, len(lines) + 1)
        new = list(lines)
        new[pos:pos] = [lines[first]]
        src = '\n'.join(new) + '\n'
        for c in (False, True):
            expect_at(ctx, asm, src, c, '<string>', pos + 1, 'duplicate-label', lines[first])
    # ---- inside included files (depth 1-3) and missing include -------------------------------------------------------
    tmp = tempfile.mkdtemp(prefix='c15_', dir=os.path.join(pipeline.VERIF, 'build'))
    try:
        for k in range(2 if ctx.quick() else 12):
            for depth in (1, 2, 3):
                for cls in list(FAULTS) + ['missing-include', 'include-directory']:
                    d = os.path.join(tmp, 'p{}_{}_{}'.format(k, depth, cls))
                    os.makedirs(d)
                    names = ['main.asm'] + ['inc{}.asm'.format(i) for i in range(1, depth + 1)]
                    if cls == 'missing-include':
                        fault = 'include nofile_{}.asm'.format(k)
                    elif cls == 'include-directory':       # a directory of that name exists: cannot be included either (D25)
                        os.makedirs(os.path.join(d, 'adir_{}'.format(k)))
                        fault = ('include adir_{}' if (k + depth) % 2 else 'include_bytes adir_{}').format(k)
                    else:
                        fault = FAULTS[cls][(k + depth) % len(FAULTS[cls])]
                    for i, n in enumerate(names):
                        body = ['l{}_{}:'.format(i, k), 'addi x8, x8, {}'.format(i + 1), 'nop']
                        if i + 1 < len(names):
                            body.insert(rng.randrange(0, len(body) + 1), 'include ' + names[i + 1])
                        else:
                            pos = rng.randrange(0, len(body) + 1)
                            body[pos:pos] = [fault] + (['align 4'] if cls in DATA_CLASSES else [])
                            fault_line = pos + 1
                        # blank lines in front shift physical line numbers
                        lead = rng.randrange(0, 3)
                        if i + 1 == len(names):
                            fault_line += lead
                        with open(os.path.join(d, n), 'w') as f:
                            f.write('\n' * lead + '\n'.join(body) + '\n')
                    main = os.path.join(d, 'main.asm')
                    want_file = os.path.join(d, names[-1])
                    for c in (False, True):
                        expect_at(ctx, asm, main, c, want_file, fault_line, cls, fault, label=' (include depth {})'.format(depth))
        # ---- a fault BEHIND an include_bytes directive of the same file (top level and included), and behind an include
        for k in range(2 if ctx.quick() else 10):
            for depth in (0, 1, 2):
                for cls in FAULTS:
                    d = os.path.join(tmp, 'b{}_{}_{}'.format(k, depth, cls))
                    os.makedirs(d)
                    fault = FAULTS[cls][(k + 3 * depth) % len(FAULTS[cls])]
                    with open(os.path.join(d, 'blob.bin'), 'wb') as f:
                        f.write(bytes([1, 2, 3, 4]))
                    names = ['main.asm'] + ['inc{}.asm'.format(i) for i in range(1, depth + 1)]
                    for i, n in enumerate(names):
                        body = ['m{}_{}:'.format(i, k), 'addi x8, x8, {}'.format(i + 1)]
                        if i + 1 < len(names):
                            body.append('include ' + names[i + 1])
                            body.append('nop')
                        else:
                            body += ['include_bytes blob.bin', 'nop', fault] + (['align 4'] if cls in DATA_CLASSES else []) + ['nop']
                            fault_line = body.index(fault) + 1
                        with open(os.path.join(d, n), 'w') as f:
                            f.write('\n'.join(body) + '\n')
                    for c in (False, True):
                        expect_at(ctx, asm, os.path.join(d, 'main.asm'), c, os.path.join(d, names[-1]), fault_line, cls, fault,
                                  label=' (behind include_bytes, include depth {})'.format(depth))
                    # and a fault in the PARENT behind the include of a file that holds an include_bytes
                    if depth >= 1:
                        d2 = d + '_p'
                        shutil.copytree(d, d2)
                        with open(os.path.join(d2, names[-1]), 'w') as f:
                            f.write('include_bytes blob.bin\nnop\n')
                        parent = names[-2]
                        with open(os.path.join(d2, parent)) as f:
                            pl = f.read().split('\n')
                        pl = [x for x in pl if x != '']
                        pl.append(fault)
                        if cls in DATA_CLASSES:
                            pl.append('align 4')
                        with open(os.path.join(d2, parent), 'w') as f:
                            f.write('\n'.join(pl) + '\n')
                        for c in (False, True):
                            expect_at(ctx, asm, os.path.join(d2, 'main.asm'), c, os.path.join(d2, parent), pl.index(fault) + 1, cls, fault,
                                      label=' (parent, behind an include holding include_bytes)')
    finally:
        shutil.rmtree(tmp, ignore_errors=True)
    # ---- correspondence: the pass model must fail in the same place with the same class --------------------------------
    if len(progs) > (400 if ctx.quick() else 4000):
        rng.shuffle(progs)
        progs = progs[:400 if ctx.quick() else 4000]
    pipeline.correspond(ctx, asm, progs)
    ctx.sample({'source': progs[0]['source'][:300], 'compress': progs[0]['compress']} if progs else {})


def replay(ctx, rec):
    asm = harness.real_asm()
    inp = rec['input']
    before = len(ctx.counterexamples)
    src = inp['source']
    # locate the planted line again
    lines = src.split('\n')
    ln = None
    for i, l in enumerate(lines, start=1):
        if l == inp.get('fault'):
            ln = i
            break
    if ln is None:
        return False
    expect_at(ctx, asm, src, inp.get('compress', False), '<string>', ln, inp.get('class', '?'), inp['fault'])
    return len(ctx.counterexamples) > before
