"""Fake `usb` package (stands in for pyusb) used by the DFU correspondence harness.
It is put in front of sys.path / sys.modules by tools/dfu_engine.py before bronzebeard.dfu is imported, so the real
dfu.cli_main() talks to `usb.core.CURRENT`, a FakeDevice that forwards every control transfer to the Gallina device."""
from . import core      # noqa: F401
from . import backend   # noqa: F401
FAKE = True
