"""usb.core of the fake package: find(), USBError and the fake device."""
import array

CURRENT = None          # the FakeDevice the next find() returns (set by the harness)
FIND_CALLS = []


class USBError(IOError):
    def __init__(self, strerror='Pipe error', error_code=None, errno=32):
        IOError.__init__(self, errno, strerror)
        self.backend_error_code = error_code


class FakeDevice:
    """serial_number as pyusb would decode the (mis-encoded) string descriptor; ctrl_transfer is forwarded to
    `link(kind, ...)`, a callable of the harness that logs the request and asks the device model for the answer."""
    def __init__(self, serial_number, link):
        self.serial_number = serial_number
        self._link = link

    def ctrl_transfer(self, bmRequestType, bRequest, wValue=0, wIndex=0, data_or_wLength=None, timeout=None):
        if bmRequestType & 0x80:
            n = 0 if data_or_wLength is None else int(data_or_wLength)
            kind, val = self._link(bmRequestType, bRequest, wValue, wIndex, None, n, timeout)
        else:
            data = b'' if data_or_wLength is None else bytes(data_or_wLength)
            kind, val = self._link(bmRequestType, bRequest, wValue, wIndex, data, None, timeout)
        if kind == 'stall':
            raise USBError('Pipe error')
        if kind == 'bytes':
            return array.array('B', val)
        return val


def find(find_all=False, backend=None, custom_match=None, **args):
    FIND_CALLS.append(dict(args))
    return CURRENT
