from . import libusb1   # noqa: F401
