"""usb.backend.libusb1 of the fake package."""


class _Backend:
    pass


def get_backend(find_library=None):
    return _Backend()
