"""Documented operand sets of the 93 mnemonics, written from the RISC-V manual and the assembler's instruction
reference -- independent of asm.py.  Used by the falsifiers of C01 / C02 / C06 (the Coq counterpart is
coq/Spec/Operands.v + coq/Spec/Legal.v)."""

ABI = ['zero', 'ra', 'sp', 'gp', 'tp', 't0', 't1', 't2', 's0', 's1', 'a0', 'a1', 'a2', 'a3', 'a4', 'a5', 'a6', 'a7',
       's2', 's3', 's4', 's5', 's6', 's7', 's8', 's9', 's10', 's11', 't3', 't4', 't5', 't6']
REGNAMES = {}
for i in range(32):
    REGNAMES['x%d' % i] = i
    REGNAMES[ABI[i]] = i
    REGNAMES[str(i)] = i
REGNAMES['fp'] = 8


def regnum(r):
    """Spec reading of a register operand; None if it names no register."""
    if isinstance(r, int):
        return r if 0 <= r <= 31 else None
    try:
        v = int(r, 0)
        return v if 0 <= v <= 31 else None
    except ValueError:
        return REGNAMES.get(r)


# operand kinds: r = register; rc = register x8..x15; rnz = register != 0; rn02 = register not in {0, 2}
#   ('i', lo, hi, scale)      signed/unsigned interval, multiple of scale
#   ('inz', lo, hi, scale)    same, zero excluded
#   ('upper',)                lui / auipc: [-0x80000, 0x7ffff] plus the second spelling 0x80000..0xfffff
#   ('cupper',)               c.lui: [-32, 31] \ {0} plus the second spelling 0xfffe0..0xfffff
#   ('set',)                  fence set 0..15
#   ('csr',)                  0..4095
R3 = ['r', 'r', 'r']
I12 = ('i', -2048, 2047, 1)
SPEC = {}
for n in ['add', 'sub', 'sll', 'slt', 'sltu', 'xor', 'srl', 'sra', 'or', 'and', 'mul', 'mulh', 'mulhsu', 'mulhu',
          'div', 'divu', 'rem', 'remu']:
    SPEC[n] = R3
for n in ['slli', 'srli', 'srai']:
    SPEC[n] = ['r', 'r', ('i', 0, 31, 1)]          # shamt written in the rs2 position
for n in ['lb', 'lh', 'lw', 'lbu', 'lhu', 'addi', 'slti', 'sltiu', 'xori', 'ori', 'andi']:
    SPEC[n] = ['r', 'r', I12]
SPEC['jalr'] = ['r', 'r', ('i', -2048, 2047, 2)]
for n in ['sb', 'sh', 'sw']:
    SPEC[n] = ['r', 'r', I12]
for n in ['beq', 'bne', 'blt', 'bge', 'bltu', 'bgeu']:
    SPEC[n] = ['r', 'r', ('i', -4096, 4095, 2)]
SPEC['lui'] = ['r', ('upper',)]
SPEC['auipc'] = ['r', ('upper',)]
SPEC['jal'] = ['r', ('i', -1048576, 1048575, 2)]
SPEC['fence'] = [('set',), ('set',)]
for n in ['ecall', 'ebreak', 'fence.i']:
    SPEC[n] = []
for n in ['csrrw', 'csrrs', 'csrrc', 'csrrwi', 'csrrsi', 'csrrci']:
    SPEC[n] = ['r', 'r', ('csr',)]
SPEC['lr.w'] = ['r', 'r']
for n in ['sc.w', 'amoswap.w', 'amoadd.w', 'amoxor.w', 'amoand.w', 'amoor.w', 'amomin.w', 'amomax.w', 'amominu.w',
          'amomaxu.w']:
    SPEC[n] = R3
ATOMICS = {'lr.w', 'sc.w', 'amoswap.w', 'amoadd.w', 'amoxor.w', 'amoand.w', 'amoor.w', 'amomin.w', 'amomax.w',
           'amominu.w', 'amomaxu.w'}
BASE = list(SPEC.keys())
assert len(BASE) == 66

CSPEC = {
    'c.addi4spn': ['rc', ('inz', 0, 1023, 4)],
    'c.lw': ['rc', 'rc', ('i', 0, 127, 4)],
    'c.sw': ['rc', 'rc', ('i', 0, 127, 4)],
    'c.nop': [],
    'c.addi': ['rnz', ('inz', -32, 31, 1)],
    'c.jal': [('i', -2048, 2047, 2)],
    'c.li': ['rnz', ('i', -32, 31, 1)],
    'c.addi16sp': [('inz', -512, 511, 16)],
    'c.lui': ['rn02', ('cupper',)],
    'c.srli': ['rc', ('inz', 0, 31, 1)],
    'c.srai': ['rc', ('inz', 0, 31, 1)],
    'c.andi': ['rc', ('i', -32, 31, 1)],
    'c.sub': ['rc', 'rc'], 'c.xor': ['rc', 'rc'], 'c.or': ['rc', 'rc'], 'c.and': ['rc', 'rc'],
    'c.j': [('i', -2048, 2047, 2)],
    'c.beqz': ['rc', ('i', -256, 255, 2)],
    'c.bnez': ['rc', ('i', -256, 255, 2)],
    'c.slli': ['rnz', ('inz', 0, 31, 1)],
    'c.lwsp': ['rnz', ('i', 0, 255, 4)],
    'c.jr': ['rnz'],
    'c.mv': ['rnz', 'rnz'],
    'c.ebreak': [],
    'c.jalr': ['rnz'],
    'c.add': ['rnz', 'rnz'],
    'c.swsp': ['r', ('i', 0, 255, 4)],
}
assert len(CSPEC) == 27
SPEC_ALL = dict(SPEC); SPEC_ALL.update(CSPEC)


def kind_legal(k, v):
    """Is operand value v (register number or int) in the documented set of kind k?  Returns the normalised
    value (what the instruction applies) or None."""
    if k == 'r':
        return v if v is not None and 0 <= v <= 31 else None
    if k == 'rc':
        return v if v is not None and 8 <= v <= 15 else None
    if k == 'rnz':
        return v if v is not None and 1 <= v <= 31 else None
    if k == 'rn02':
        return v if v is not None and 1 <= v <= 31 and v != 2 else None
    t = k[0]
    if t in ('i', 'inz'):
        _, lo, hi, sc = k
        if lo <= v <= hi and v % sc == 0 and not (t == 'inz' and v == 0):
            return v
        return None
    if t == 'upper':
        if 0x80000 <= v <= 0xfffff:
            return v - (1 << 20)
        return v if -0x80000 <= v <= 0x7ffff else None
    if t == 'cupper':
        if 0xfffe0 <= v <= 0xfffff:
            return v - (1 << 20)
        return v if -32 <= v <= 31 and v != 0 else None
    if t == 'set':
        return v if 0 <= v <= 15 else None
    if t == 'csr':
        return v if 0 <= v <= 4095 else None
    raise ValueError(k)


def normalise(name, ops, aq=None, rl=None):
    """Spec reading of an operand tuple: list of ints, or None if some operand is outside its documented set."""
    kinds = SPEC_ALL[name]
    if len(kinds) != len(ops):
        return None
    out = []
    for k, v in zip(kinds, ops):
        if isinstance(k, str):
            v = regnum(v)
            if v is None:
                return None
        elif k[0] == 'set':
            if isinstance(v, str):
                try:
                    v = int(v, 0)
                except ValueError:
                    return None
        elif not isinstance(v, int) or isinstance(v, bool):
            return None
        n = kind_legal(k, v)
        if n is None:
            return None
        out.append(n)
    if name in ATOMICS:
        for b in (aq, rl):
            b = 0 if b is None else b
            if isinstance(b, str):
                try:
                    b = int(b, 0)
                except ValueError:
                    return None
            if b not in (0, 1):
                return None
            out.append(b)
    return out


def imm_probe_values(k, wide):
    """Values around and beyond the legal interval of an immediate kind."""
    t = k[0]
    if t in ('i', 'inz'):
        _, lo, hi, sc = k
        span = hi - lo + 1
        vals = set()
        if wide or span <= 8192:
            vals.update(range(lo - 2 * sc - 2, hi + 2 * sc + 3))
        else:
            step = 97
            vals.update(range(lo - 2 * sc - 2, hi + 2 * sc + 3, step))
            for e in (lo, hi, 0):
                vals.update(range(e - 2 * sc - 2, e + 2 * sc + 3))
            b = 1
            while b <= span:
                vals.update([b, -b, b - 1, -b + 1, b + 1, -b - 1, lo + b, hi - b])
                b <<= 1
        vals.update([lo - span, hi + span, lo - (1 << 31), hi + (1 << 31), lo - (1 << 40), hi + (1 << 40), 2 * hi + 1 + 1, 2 * lo - 1])
        return sorted(vals)
    if t == 'upper':
        vals = set()
        if wide:
            vals.update(range(-0x80000 - 4, 0x100000 + 5))
        else:
            vals.update(range(-0x80000 - 4, 0x100000 + 5, 251))
            for e in (-0x80000, 0, 0x7ffff, 0x80000, 0xfffff, 0x100000):
                vals.update(range(e - 4, e + 5))
            b = 1
            while b <= (1 << 20):
                vals.update([b, -b, b - 1, -b + 1, b + 1, -b - 1]); b <<= 1
        vals.update([-(1 << 31), (1 << 31), (1 << 32) - 1, -(1 << 40), 1 << 40])
        return sorted(vals)
    if t == 'cupper':
        vals = set(range(-40, 41)) | set(range(0xfffe0 - 8, 0x100000 + 8)) | {0x1f000, 0x20000, -(1 << 31), 1 << 31, 0xfff, 0x1000, 0xfffdf}
        return sorted(vals)
    if t == 'set':
        return list(range(-3, 20)) + [255, 256, -16, 1 << 31]
    if t == 'csr':
        return sorted(set(list(range(-2050, -2040)) + list(range(-5, 6)) + list(range(2040, 2056)) + list(range(4090, 4100))
                          + [0x300, 0x305, 0x341, 0x7ff, 0x800, 0xc00, 0xc01, 0xf11, 0xfff, 0x1000, -4096, -4095, 8191, 1 << 31, -(1 << 31)]
                          + (list(range(-2048, 4096)) if wide else list(range(0, 4096, 37)))))
    raise ValueError(k)
