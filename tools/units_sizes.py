"""Translation unit `Sizes`: what every Item class returns from size(), the size tables of Sequence / ShorthandPack and the
struct formats of resolve_sequences / transform_shorthand, regenerated from the AST (fail closed).  coq/Proofs/SizesTable.v
proves the hand-written model (Model/Passes.v size, seq_width, short_width, seq_fmt, short_fmt) equal to these tables."""
import ast
import os

from py2coq import TranslationError, HEADER, Translator

UNIT_NAMES = ['Sizes']


def fail(node, what):
    raise TranslationError('Sizes', getattr(node, 'lineno', 0), what)


def slit(s):
    return '"' + s.replace('"', '""') + '"'


def ret_expr(fn):
    rets = [n for n in ast.walk(fn) if isinstance(n, ast.Return)]
    return rets


def table_of(fn, name):
    for n in ast.walk(fn):
        if isinstance(n, ast.Assign) and isinstance(n.targets[0], ast.Name) and n.targets[0].id == name and isinstance(n.value, ast.Dict):
            out = []
            for k, v in zip(n.value.keys, n.value.values):
                if not (isinstance(k, ast.Constant) and isinstance(k.value, str) and isinstance(v, ast.Constant)):
                    fail(n, 'table entry')
                out.append((k.value, v.value))
            return out
    fail(fn, 'table {} not found'.format(name))


def size_kind(cls, fn):
    """a symbolic tag for what size() returns"""
    rets = ret_expr(fn)
    src = [ast.unparse(r.value) for r in rets]
    if src == ['0']:
        return 'SzConst 0'
    if src == ['4']:
        return 'SzConst 4'
    if src == ['2']:
        return 'SzConst 2'
    if src == ['self.fsize']:
        return 'SzFsize'
    if src == ["len(self.value.encode('utf-8'))"]:
        return 'SzUtf8Len'
    if src == ['sizes[self.name] * len(self.values)']:
        return 'SzTablePerValue'
    if src == ['struct.calcsize(self.fmt)']:
        return 'SzCalcsize'
    if src == ['sizes[self.name]']:
        return 'SzTable'
    if src == ['self.alignment']:
        return 'SzAlignment'
    if src == ['len(self.data)']:
        return 'SzLenData'
    if src == ['8', '4']:
        return 'SzPseudo'
    fail(fn, 'size() of {} returns {}'.format(cls, src))


def emit_sizes(repo):
    path = os.path.join(repo, 'bronzebeard', 'asm.py')
    tree = ast.parse(open(path).read())
    classes = {n.name: n for n in tree.body if isinstance(n, ast.ClassDef)}
    bases = {n.name: [b.id for b in n.bases if isinstance(b, ast.Name)] for n in classes.values()}

    def size_fn(cls):
        c = cls
        seen = set()
        while c in classes and c not in seen:
            seen.add(c)
            for m in classes[c].body:
                if isinstance(m, ast.FunctionDef) and m.name == 'size':
                    return c, m
            if not bases[c]:
                break
            c = bases[c][0]
        return None, None
    kinds = []
    for cls in ['Label', 'Constant', 'IncludeBytes', 'String', 'Sequence', 'Pack', 'ShorthandPack', 'Align', 'Blob', 'Instruction',
                'CompressedInstruction', 'PseudoInstruction']:
        if cls not in classes:
            fail(tree, 'class {} not found'.format(cls))
        owner, fn = size_fn(cls)
        if fn is None or any(isinstance(d, ast.Name) and d.id == 'abstractmethod' or 'abstractmethod' in ast.unparse(d) for d in fn.decorator_list):
            fail(classes[cls], 'size() of {}'.format(cls))
        kinds.append('({}, {})'.format(slit(cls), size_kind(cls, fn)))
    # every concrete instruction class must inherit size() from Instruction / CompressedInstruction (no override)
    for cls, node in classes.items():
        if cls.endswith('TypeInstruction') or cls == 'FenceInstruction':
            owner, fn = size_fn(cls)
            if owner not in ('Instruction', 'CompressedInstruction'):
                fail(node, '{} overrides size()'.format(cls))
    seq_sizes = table_of(classes['Sequence'], 'sizes')
    short_sizes = table_of(classes['ShorthandPack'], 'sizes')
    fns = {n.name: n for n in tree.body if isinstance(n, ast.FunctionDef)}
    seq_fmts = table_of(fns['resolve_sequences'], 'formats')
    short_fmts = table_of(fns['transform_shorthand_packs'], 'formats')
    for fname in ('resolve_sequences', 'transform_shorthand_packs'):
        txt = ast.unparse(fns[fname])
        if "endianness = '<'" not in txt or 'fmt.lower()' not in txt:
            fail(fns[fname], 'little-endian format with lower-case (signed) variant for negative values expected')
    # Align.resolution_size(self, position): the padding an align really takes at a position -- translated as an arithmetic
    # function of (alignment, position) by the encoder translator (self.alignment -> parameter `alignment`)
    meth = [m for m in classes['Align'].body if isinstance(m, ast.FunctionDef) and m.name == 'resolution_size']
    if len(meth) != 1:
        fail(classes['Align'], 'Align.resolution_size not found')
    m = meth[0]
    if [a.arg for a in m.args.args] != ['self', 'position'] or m.args.kwonlyargs or m.args.vararg or m.args.kwarg or m.args.defaults:
        fail(m, 'resolution_size(self, position) expected')

    class Self2Param(ast.NodeTransformer):
        def visit_Attribute(self, node):
            if isinstance(node.value, ast.Name) and node.value.id == 'self':
                if node.attr != 'alignment':
                    fail(node, 'resolution_size reads self.' + node.attr)
                return ast.copy_location(ast.Name(id='alignment', ctx=ast.Load()), node)
            return self.generic_visit(node)
    import copy as _copy
    fn = Self2Param().visit(_copy.deepcopy(m))
    for n in ast.walk(fn):
        if isinstance(n, ast.Name) and n.id == 'self':
            fail(n, 'resolution_size uses self other than self.alignment')
    fn.name = 'align_resolution_size'
    fn.args.args = [ast.arg(arg='alignment'), ast.arg(arg='position')]
    ast.fix_missing_locations(fn)
    tr = Translator(path, 'Sizes')
    res_def = tr.function(fn)
    out = [HEADER.format(src='asm.py (size() methods, data format tables, Align.resolution_size)')]
    out.append('Inductive size_kind := SzConst (z : Z) | SzFsize | SzUtf8Len | SzTablePerValue | SzCalcsize | SzTable | SzAlignment | SzLenData | SzPseudo.\n')
    out.append('Definition size_kinds : list (string * size_kind) :=\n  [{}].\n'.format(';\n   '.join(kinds)))
    for nm, tab in (('seq_sizes', seq_sizes), ('short_sizes', short_sizes)):
        out.append('Definition {} : list (string * Z) := [{}].\n'.format(nm, '; '.join('({}, {})'.format(slit(k), v) for k, v in tab)))
    for nm, tab in (('seq_formats', seq_fmts), ('short_formats', short_fmts)):
        out.append('Definition {} : list (string * string) := [{}].\n'.format(nm, '; '.join('({}, {})'.format(slit(k), slit(v)) for k, v in tab)))
    out.append(res_def)
    return '\n'.join(out)


def units(repo):
    return [('Sizes', lambda: emit_sizes(repo))]
