"""Translation unit `PassTable`: the ORDER in which asm.assemble runs the passes (with the `if compress:` guards) and, for every
pass function, the exception handlers that turn an internal exception into the assembler's own error
(`try: ... except X: raise AssemblerError(..., item.line)`).  Regenerated from the AST on every run, fail closed.
Model/Passes.v consults `converts` at the sites where it models those handlers, and Proofs/PassOrder.v proves that the
composition `assemble_items` equals the interpretation of `pass_order`."""
import ast
import os

from py2coq import TranslationError, HEADER

UNIT_NAMES = ['PassTable']


def fail(node, what):
    raise TranslationError('PassTable', getattr(node, 'lineno', 0), what)


def slit(s):
    return '"' + s.replace('"', '""') + '"'


def call_name(value):
    if isinstance(value, ast.Call) and isinstance(value.func, ast.Name):
        return value.func.id
    return None


def pass_call(stmt):
    """<items> = f(<items>, ...)  /  <program> = resolve_blobs(<items>) : (function, extra args, target, first argument)"""
    if not (isinstance(stmt, ast.Assign) and len(stmt.targets) == 1 and isinstance(stmt.targets[0], ast.Name)):
        return None
    nm = call_name(stmt.value)
    if nm is None:
        return None
    args = stmt.value.args
    if not (args and isinstance(args[0], ast.Name)):
        return None
    if stmt.value.keywords:
        return None
    return nm, [a.id if isinstance(a, ast.Name) else None for a in args[1:]], stmt.targets[0].id, args[0].id


def exc_names(t):
    if t is None:
        return ['BaseException']
    if isinstance(t, ast.Name):
        return [t.id]
    if isinstance(t, ast.Attribute) and isinstance(t.value, ast.Name):
        return [t.value.id + '.' + t.attr]
    if isinstance(t, ast.Tuple):
        return [x for e in t.elts for x in exc_names(e)]
    fail(t, 'exception type')


PASS_FUNCTIONS = ['resolve_constants', 'resolve_labels', 'resolve_register_aliases', 'transform_compressible',
                  'transform_pseudo_instructions', 'resolve_aligns', 'resolve_immediates', 'resolve_instructions', 'resolve_strings',
                  'resolve_sequences', 'transform_shorthand_packs', 'resolve_packs', 'resolve_include_bytes', 'resolve_blobs']


def extract_order(tree, fns):
    if 'assemble' not in fns:
        fail(tree, 'assemble() not found')
    body = fns['assemble'].body
    # the pass section starts at the first `items = resolve_constants(items, ...)`
    start = None
    for i, st in enumerate(body):
        pc = pass_call(st)
        if pc and pc[0] == 'resolve_constants' and pc[2] == pc[3]:
            start = i
            break
    if start is None:
        fail(fns['assemble'], 'pass section not found')
    order = []
    # the variable the item list is threaded through (any name, used consistently) and the result variable
    ivar = pass_call(body[start])[3]
    params = {a.arg for a in fns['assemble'].args.args + fns['assemble'].args.kwonlyargs}
    if 'compress' not in params:
        fail(fns['assemble'], 'assemble() has no `compress` parameter')
    pvar = None
    for st in body[start:]:
        if isinstance(st, ast.Return):
            if not (isinstance(st.value, ast.Name) and st.value.id == pvar):
                fail(st, 'assemble must return the result of resolve_blobs')
            break
        if isinstance(st, ast.If):
            if not (isinstance(st.test, ast.Name) and st.test.id == 'compress' and not st.orelse and len(st.body) == 1):
                fail(st, 'only `if compress:` with one pass call is understood')
            pc = pass_call(st.body[0])
            if pc is None or pc[2] != ivar or pc[3] != ivar:
                fail(st, 'guarded pass call')
            order.append((pc[0], pc[1], True))
            continue
        pc = pass_call(st)
        if pc is None or pc[3] != ivar:
            fail(st, 'statement in the pass section of assemble()')
        if pc[0] == 'resolve_blobs':
            pvar = pc[2]
        elif pc[2] != ivar:
            fail(st, 'pass result must be bound to the item list variable')
        order.append((pc[0], pc[1], False))
    if not order or order[-1][0] != 'resolve_blobs':
        fail(fns['assemble'], 'resolve_blobs must be the last pass')
    return order


def extract_handlers(fns):
    """LENIENT: a handler is recorded iff it is exactly `except X: raise AssemblerError(msg, item.line)`; anything else is simply not a
    conversion the model may rely on (the model then raises the raw exception there and C15's theorems break -- nothing else)."""
    handlers = []
    for nm in PASS_FUNCTIONS:
        if nm not in fns:
            continue
        for node in ast.walk(fns[nm]):
            if isinstance(node, ast.Try) and not node.finalbody and not node.orelse:
                for h in node.handlers:
                    ok = (len(h.body) == 1 and isinstance(h.body[0], ast.Raise) and call_name(h.body[0].exc) == 'AssemblerError'
                          and len(h.body[0].exc.args) == 2 and ast.unparse(h.body[0].exc.args[1]) == 'item.line')
                    if not ok:
                        continue
                    calls = sorted({ast.unparse(c.func) for b in node.body for c in ast.walk(b) if isinstance(c, ast.Call)})
                    try:
                        names = exc_names(h.type)
                    except TranslationError:
                        continue
                    for e in names:
                        handlers.append((nm, e, calls))
    return handlers


def extract_updates(fns):
    updates = []
    for nm in PASS_FUNCTIONS:
        if nm not in fns:
            continue
        for node in ast.walk(fns[nm]):
            if isinstance(node, ast.DictComp):
                g = node.generators
                ok = (len(g) == 1 and not g[0].is_async and isinstance(g[0].target, ast.Tuple) and len(g[0].target.elts) == 2
                      and all(isinstance(e, ast.Name) for e in g[0].target.elts)
                      and ast.unparse(g[0].iter) == 'labels.items()' and len(g[0].ifs) == 1)
                if not ok:
                    fail(node, 'dictionary comprehension in a pass')
                kn, vn = g[0].target.elts[0].id, g[0].target.elts[1].id
                cond = g[0].ifs[0]
                if not (isinstance(cond, ast.Compare) and len(cond.ops) == 1 and isinstance(cond.left, ast.Name) and cond.left.id == vn
                        and isinstance(cond.comparators[0], ast.Name) and cond.comparators[0].id == 'position'):
                    fail(node, 'label update condition must compare the label value with position')
                op = {ast.Gt: '>', ast.GtE: '>=', ast.Lt: '<', ast.LtE: '<=', ast.Eq: '==', ast.NotEq: '!='}.get(type(cond.ops[0]))
                if op is None:
                    fail(node, 'comparison operator')
                if not (isinstance(node.key, ast.Name) and node.key.id == kn and isinstance(node.value, ast.BinOp)
                        and isinstance(node.value.op, ast.Sub) and isinstance(node.value.left, ast.Name) and node.value.left.id == vn):
                    fail(node, 'label update must be {k: v - D ...}')
                updates.append((nm, op, ast.unparse(node.value.right)))
    return updates


def emit_passes(repo):
    """Each of the three tables is extracted on its own: a shape the extractor does not understand empties THAT table (and breaks the
    theorem that speaks about it: C09 pass order, C08 label updates), it does not take the pass model down with it."""
    path = os.path.join(repo, 'bronzebeard', 'asm.py')
    tree = ast.parse(open(path).read())
    fns = {n.name: n for n in tree.body if isinstance(n, ast.FunctionDef)}
    notes = []
    try:
        order = extract_order(tree, fns)
    except TranslationError as e:
        order, _ = [], notes.append('pass_order: ' + str(e))
    handlers = extract_handlers(fns)
    try:
        updates = extract_updates(fns)
    except TranslationError as e:
        updates, _ = [], notes.append('label_updates: ' + str(e))
    out = [HEADER.format(src='asm.py (assemble: order of the passes; exception handlers and label updates of the pass functions)')]
    for n in notes:
        out.append('(* NOT UNDERSTOOD, table left empty: {} *)'.format(n.replace('*)', '* )')))
    out.append('(* (pass function, further arguments after `items`, only when compress) in the order of asm.assemble *)')
    out.append('Definition pass_order : list (string * list string * bool) :=\n  [{}].\n'.format(';\n   '.join(
        '({}, [{}], {})'.format(slit(n), '; '.join(slit(a or '?') for a in args), 'true' if g else 'false') for n, args, g in order)))
    out.append('(* (pass function, exception converted into AssemblerError(..., item.line), calls inside the try body) *)')
    out.append('Definition handlers : list (string * string * list string) :=\n  [{}].\n'.format(';\n   '.join(
        '({}, {}, [{}])'.format(slit(n), slit(e), '; '.join(slit(c) for c in calls)) for n, e, calls in handlers)))
    out.append('(* (pass function, comparison of the label value with `position`, amount subtracted) of every label update *)')
    out.append('Definition label_updates : list (string * string * string) :=\n  [{}].\n'.format(';\n   '.join(
        '({}, {}, {})'.format(slit(n), slit(o), slit(d)) for n, o, d in updates)))
    out.append('Definition converts (pass exc call : string) : bool :=\n'
               '  existsb (fun h => String.eqb (fst (fst h)) pass && String.eqb (snd (fst h)) exc && mem_str call (snd h)) handlers.\n')
    return '\n'.join(out)


def units(repo):
    return [('PassTable', lambda: emit_passes(repo))]
