"""Shared engine of the layout properties C03 / C04 / C08 / C09 / C12 / C20: generates layout-heavy programs,
runs the pipeline correspondence (real assembler vs Gallina pass model) and evaluates each property directly on
the REAL output with the Spec decoders (bbspec) as oracle."""
import re
import random
import struct

import gen_programs
import harness
import pipeline

BRANCHES = {'beq', 'bne', 'blt', 'bge', 'bltu', 'bgeu'}
TRANSFER_KINDS = {'beq', 'bne', 'blt', 'bge', 'bltu', 'bgeu', 'cbeqz', 'beqz', 'bnez', 'blez', 'bgez', 'bltz', 'bgtz', 'bgt', 'ble',
                  'bgtu', 'bleu', 'j', 'jal', 'jalx', 'call', 'tail', 'xcj', 'xcjal', 'xcbeqz', 'xcbnez'}
# explicitly written compressed transfers: what the (expansion of the) emitted halfword has to be, besides landing on the label
EXPLICIT_C = {'xcj': ('jal', 0), 'xcjal': ('jal', 1), 'xcbeqz': ('beq', None), 'xcbnez': ('bne', None)}


def short(src, n=400):
    """Source text with long gap lines abbreviated (for messages; replay files keep the full source)."""
    out = []
    for l in src.split('\n'):
        if len(l) > 80:
            l = l[:40] + '...<{} chars>'.format(len(l))
        out.append(l)
    t = '\n'.join(out)
    return t if len(t) <= n else t[:n] + '...'


def decode_chunks(ctx, chunks):
    """[(file, line, bytes)] -> list of dict(off, line, size, dec) where dec is the 32-bit reading ('name ops...')
    of instruction-sized chunks (both 2 and 4 byte chunks are decoded speculatively)."""
    q, where = [], []
    off = 0
    out = []
    for (f, ln, b) in chunks:
        rec = {'off': off, 'line': ln, 'file': f, 'size': len(b), 'bytes': b, 'dec': None}
        if len(b) == 4:
            q.append('d32 {}'.format(struct.unpack('<I', b)[0])); where.append(rec)
        elif len(b) == 2:
            q.append('x16 {}'.format(struct.unpack('<H', b)[0])); where.append(rec)
        out.append(rec)
        off += len(b)
    for rec, a in zip(where, ctx.spec.batch(q)):
        rec['dec'] = None if a == 'none' else a.split()
    return out


def label_offsets_from_chunks(src, chunks):
    """Independent recomputation: a label's offset is the total size of the chunks of earlier source lines."""
    res = {}
    lines = src.split('\n')
    sizes_before = {}
    for i, l in enumerate(lines, start=1):
        t = l.split('#')[0].strip()
        if t.endswith(':') and len(t.split()) == 1:
            res[t.rstrip(':')] = sum(len(b) for (_, ln, b) in chunks if ln < i)
    return res


def transfer_target(recs):
    """recs: the decoded chunk records of one source line.  Returns (target offset, link register) or None."""
    if len(recs) == 1 and recs[0]['dec']:
        d = recs[0]['dec']
        if d[0] == 'jal':
            return recs[0]['off'] + int(d[2]), int(d[1])
        if d[0] in BRANCHES:
            return recs[0]['off'] + int(d[3]), None
    if len(recs) == 2 and recs[0]['dec'] and recs[1]['dec']:
        a, b = recs[0]['dec'], recs[1]['dec']
        if a[0] == 'auipc' and b[0] == 'jalr' and a[1] == b[2]:
            return recs[0]['off'] + (int(a[2]) << 12) + int(b[3]), int(b[1])
    return None


def check_C03(ctx, prog, real, recs):
    labels = dict(real['labels'])
    recomputed = label_offsets_from_chunks(prog['source'], real['chunks'])
    for name, off in recomputed.items():
        if labels.get(name) != off:
            ctx.cex('label {} reported at {} but the bytes before it total {}'.format(name, labels.get(name), off),
                    prog_input(prog), {'label': name, 'reported': labels.get(name)}, off, {'kind': 'label-table'})
    for m in prog['meta']:
        if m['kind'] not in TRANSFER_KINDS:
            continue
        mine = [r for r in recs if r['line'] == m['line']]
        t = transfer_target(mine)
        want = labels.get(m['label'])
        ctx.count('transfer-' + m['kind'])
        if t is None:
            ctx.cex('line {} "{}" did not assemble to a recognisable transfer: {}'.format(m['line'], m['text'], [r['dec'] for r in mine]),
                    prog_input(prog), [r['dec'] for r in mine], 'a transfer to ' + m['label'], {'kind': 'transfer-shape', 'ref': m['kind']})
            continue
        ctx.nontriv((m['kind'], want - mine[0]['off'] if want is not None else None, prog.get('compress', False)))
        if m['kind'] in EXPLICIT_C:
            name, link = EXPLICIT_C[m['kind']]
            d = mine[0]['dec']
            shape_ok = (len(mine) == 1 and mine[0]['size'] == 2 and d[0] == name and
                        (int(d[1]) == link if name == 'jal' else int(d[2]) == 0 and 8 <= int(d[1]) <= 15))
            if not shape_ok:
                ctx.cex('line {} "{}" was emitted as {} ({} bytes)'.format(m['line'], m['text'], d, mine[0]['size']), prog_input(prog),
                        d, 'one halfword expanding to {}'.format(name), {'kind': 'transfer-shape', 'ref': m['kind']})
        if t[0] != want:
            near = (m['kind'] in ('call', 'tail') and len(mine) == 1)
            ctx.cex('line {} "{}" at offset {} transfers to {} but label {} is at {}'.format(
                m['line'], m['text'], mine[0]['off'], t[0], m['label'], want), prog_input(prog),
                {'target': t[0], 'decoded': [r['dec'] for r in mine]}, want,
                {'kind': 'wrong-target', 'ref': m['kind'], 'form': 'near' if near else ('far' if len(mine) == 2 else 'single')})


# ---------------------------------------------------------------------------------------------- C09
DATA_SIZE = {'db': 1, 'dh': 2, 'dw': 4, 'dd': 8}
SEQ_SIZE = {'bytes': 1, 'shorts': 2, 'ints': 4, 'longs': 4, 'longlongs': 8}
PACK_SIZE = {'b': 1, 'B': 1, 'h': 2, 'H': 2, 'i': 4, 'I': 4, 'l': 4, 'L': 4, 'q': 8, 'Q': 8}


def classify_line(text):
    """Independent reading of one generated source line: (kind, info)."""
    t = text
    if t.lstrip().startswith('string '):
        body = t.lstrip()[len('string '):]
        return 'string', body.encode('utf-8').decode('unicode_escape').encode('utf-8')
    t = t.split('#')[0].replace('(', ' ( ').replace(')', ' ) ').strip()
    if not t:
        return 'blank', None
    toks = [x for x in t.replace(',', ' ').split() if x]
    head = toks[0].lower()
    if len(toks) == 1 and toks[0].endswith(':'):
        return 'label', toks[0].rstrip(':')
    if len(toks) >= 3 and toks[1] == '=':
        return 'constant', toks[0]
    if head == 'align':
        return 'align', int(toks[1], 0)
    if head in DATA_SIZE:
        return 'data', DATA_SIZE[head]
    if head in SEQ_SIZE:
        return 'data', SEQ_SIZE[head] * (len(toks) - 1)
    if head == 'pack':
        # the documented size of a struct format AS WRITTEN: without a byte-order character it is the native one of the host
        # (`pack L 1` is 8 bytes on a 64-bit Linux), computed here by CPython's struct itself, independently of the assembler
        try:
            return 'data', struct.calcsize(toks[1])
        except struct.error:
            return 'data', PACK_SIZE[toks[1][-1]]
    if head in ('li', 'call', 'tail'):
        return 'expansion', head
    return 'instruction', head


def check_C09(ctx, prog, real, recs):
    src_lines = prog['source'].split('\n')
    if real['bytes'] != b''.join(b for (_, _, b) in real['chunks']):
        ctx.cex('output is not the concatenation of the per-item blobs', prog_input(prog), len(real['bytes']),
                sum(len(b) for (_, _, b) in real['chunks']), {'kind': 'concat'})
    lines_seen = [r['line'] for r in recs]
    if lines_seen != sorted(lines_seen):
        ctx.cex('chunks are not in source order: {}'.format(lines_seen[:40]), prog_input(prog), lines_seen[:40],
                'ascending line numbers', {'kind': 'order'})
    by_line = {}
    for r in recs:
        by_line.setdefault(r['line'], []).append(r)
    off = 0
    compress = prog.get('compress', False)
    for i, text in enumerate(src_lines, start=1):
        kind, info = classify_line(text)
        mine = by_line.get(i, [])
        size = sum(r['size'] for r in mine)
        bad = None
        if kind in ('blank', 'label', 'constant'):
            if mine:
                bad = 'a {} line contributed {} bytes'.format(kind, size)
        elif kind == 'align':
            want = (info - off % info) % info
            ctx.nontriv(('align', info, off % info))
            if size != want or any(r['bytes'].strip(b'\x00') for r in mine):
                bad = 'align {} at offset {} contributed {} bytes (minimal zero padding is {})'.format(info, off, size, want)
        elif kind == 'string':
            if b''.join(r['bytes'] for r in mine) != info and not any(ord(c) > 127 for c in text):
                bad = 'string line contributed {} bytes, documented {}'.format(size, len(info))
        elif kind == 'data':
            if size != info:
                bad = 'data line "{}" contributed {} bytes, documented size {}'.format(text[:40], size, info)
        elif kind == 'instruction':
            allowed = (2, 4) if compress else (4,)
            if text.strip().lower().startswith('c.'):
                allowed = (2,)
            if len(mine) != 1 or size not in allowed:
                bad = 'instruction line "{}" contributed {} chunk(s) / {} bytes'.format(text[:40], len(mine), size)
        elif kind == 'expansion':
            allowed = (2, 4, 6, 8) if compress else (4, 8)
            if len(mine) not in (1, 2) or size not in allowed:
                bad = '{} line contributed {} chunk(s) / {} bytes'.format(info, len(mine), size)
        if bad:
            ctx.cex('line {}: {}'.format(i, bad), prog_input(prog), {'line': i, 'size': size}, 'documented size',
                    {'kind': 'item-size', 'item': kind})
        off += size
    extra = [l for l in by_line if l < 1 or l > len(src_lines)]
    if extra:
        ctx.cex('chunks attributed to lines that do not exist: {}'.format(extra[:5]), prog_input(prog), extra[:5], 'none',
                {'kind': 'extra-chunks'})


# ---------------------------------------------------------------------------------------------- C08
def eval_ref_expr(expr_kind, label_val, off):
    return None


def check_C08(ctx, prog, real, recs):
    """Every label-dependent value baked into the output equals the expression evaluated on FINAL label offsets --
    the offsets the labels really have in the output (recomputed from the per-item blobs), not the reported table."""
    labels = dict(real['labels'])
    labels.update(label_offsets_from_chunks(prog['source'], real['chunks']))
    by_line = {}
    for r in recs:
        by_line.setdefault(r['line'], []).append(r)
    for m in prog['meta']:
        k = m['kind']
        mine = by_line.get(m['line'], [])
        text = m['text']
        if k == 'li_off_const':
            val = li_value(mine)
            want = (m['const'] - mine[0]['off']) % (1 << 32) if mine else None
            ctx.nontriv(('li_off_const', len(mine)))
            if val is None or val != want:
                ctx.cex('line {} "{}" at offset {} loads {} but constant - final position is {}'.format(
                    m['line'], text, mine[0]['off'] if mine else None, val, want), prog_input(prog), val, want,
                    {'kind': 'li-value', 'form': 'short' if len(mine) == 1 else 'long', 'ref': 'const-offset'})
            continue
        L = labels.get(m['label'])
        if L is None:
            continue
        if k == 'dw':
            o = mine[0]['off'] if mine else None
            head = text.split()[0]
            width = {'dw': 4, 'dd': 8, 'pack': 4}[head]
            if '%offset' in text:
                want = L - o
            elif '%position' in text:
                want = L + 0x1000
            else:
                want = L
            got = int.from_bytes(b''.join(r['bytes'] for r in mine), 'little')
            ctx.nontriv(('dw', text.split('(')[0], want))
            if got != want % (1 << (8 * width)):
                ctx.cex('line {} "{}" at offset {} holds {} but the final value is {} (label {} = {})'.format(
                    m['line'], text, o, got, want, m['label'], L), prog_input(prog), got, want, {'kind': 'data-value'})
        elif k == 'li':
            val = li_value(mine)
            arg = text.split(',', 1)[1].strip()
            if arg.startswith('%offset'):
                want = L - mine[0]['off'] if mine else None     # relative to the item containing it
            elif arg.startswith('%position'):
                want = L + 0x08000000
            elif arg.endswith('+ 4'):
                want = L + 4
            elif ' - ' in arg:
                want = int(arg.split(' - ')[0], 0) - L
            else:
                want = L
            ctx.nontriv(('li', arg.split('(')[0], len(mine)))
            if text.split()[1].rstrip(',') in ('x0', 'zero', '0'):
                want = 0
            if val is None or val != want % (1 << 32):
                ctx.cex('line {} "{}" loads {} but the final value is {} (label {} = {})'.format(
                    m['line'], text, val, want % (1 << 32), m['label'], L), prog_input(prog), val, want % (1 << 32),
                    {'kind': 'li-value', 'form': 'short' if len(mine) == 1 else 'long'})
        elif k == 'hi_lo':
            # two source lines: lui at m['line'], addi at m['line'] + 1
            a = by_line.get(m['line'], [])
            b = by_line.get(m['line'] + 1, [])
            if len(a) != 1 or len(b) != 1 or not a[0]['dec'] or not b[0]['dec']:
                continue
            e = text.split('%hi(')[1].split(')\n')[0]
            def val_at(off):
                if e.startswith('%position'):
                    return L + 0x20000000
                if e.startswith('%offset'):
                    return L - off
                return L
            hi = int(a[0]['dec'][2]); lo = int(b[0]['dec'][3])
            wh = harness.real_asm().relocate_hi(val_at(a[0]['off']))   # value part only; %hi/%lo itself is C07
            wl = harness.real_asm().relocate_lo(val_at(b[0]['off']))
            ctx.nontriv(('hi_lo', e.split('(')[0]))
            if (hi, lo) != (wh, wl):
                ctx.cex('lines {}-{} "%hi/%lo({})" hold ({}, {}) but the final values give ({}, {})'.format(
                    m['line'], m['line'] + 1, e, hi, lo, wh, wl), prog_input(prog), [hi, lo], [wh, wl], {'kind': 'hi-lo-value'})
        elif k == 'auipc':
            if len(mine) == 1 and mine[0]['dec']:
                hi = int(mine[0]['dec'][2])
                wh = harness.real_asm().relocate_hi(L - mine[0]['off'])
                if hi != wh:
                    ctx.cex('line {} "{}" holds {} but final offset gives {}'.format(m['line'], text, hi, wh), prog_input(prog),
                            hi, wh, {'kind': 'auipc-value'})
        elif k == 'pos':
            if len(mine) == 1 and mine[0]['dec']:
                lo = int(mine[0]['dec'][3])
                wl = harness.real_asm().relocate_lo(L + 4)
                if lo != wl:
                    ctx.cex('line {} "{}" holds {} but final position gives {}'.format(m['line'], text, lo, wl), prog_input(prog),
                            lo, wl, {'kind': 'pos-value'})
        elif k == 'lwl':
            if len(mine) == 1 and mine[0]['dec']:
                imm = int(mine[0]['dec'][3])
                if imm != L:
                    ctx.cex('line {} "{}" holds {} but label is at {}'.format(m['line'], text, imm, L), prog_input(prog),
                            imm, L, {'kind': 'bare-label-imm'})


def li_value(mine):
    """Value a li expansion leaves in its destination (mod 2^32): tiny emulation of the decoded lui/addi/add."""
    regs = {}
    rd = None
    for r in mine:
        d = r['dec']
        if d is None:
            return None
        get = lambda x: 0 if int(x) == 0 else regs.get(int(x), 0)
        if d[0] == 'lui':
            regs[int(d[1])] = (int(d[2]) << 12) % (1 << 32)
        elif d[0] == 'addi':
            regs[int(d[1])] = (get(d[2]) + int(d[3])) % (1 << 32)
        elif d[0] == 'add':
            regs[int(d[1])] = (get(d[2]) + get(d[3])) % (1 << 32)
        else:
            return None
        rd = int(d[1])
    return 0 if rd == 0 else regs.get(rd)


def prog_input(prog):
    d = {'source': prog['source'], 'compress': prog.get('compress', False), 'meta': prog.get('meta', []),
         'scenario': prog.get('scenario')}
    if prog.get('labels') is not None:
        d['labels'] = prog['labels']
    return d


def norm_dec(d):
    """Canonical reading of a decoded instruction: c.mv's expansion `add rd, x0, rs` is `addi rd, rs, 0`."""
    if d is None:
        return None
    if d[0] == 'add' and d[2] == '0' and d[1] != '0':
        return ['addi', d[1], d[3], '0']
    return list(d)


TRANSFER_HEADS = {'beq', 'bne', 'blt', 'bge', 'bltu', 'bgeu', 'beqz', 'bnez', 'blez', 'bgez', 'bltz', 'bgtz', 'bgt', 'ble', 'bgtu',
                  'bleu', 'j', 'jal', 'call', 'tail', 'c.j', 'c.jal', 'c.beqz', 'c.bnez'}


def absolute_label_cause(lines, n, ru):
    """Known finding K2: the line refused with -c is not a pc-relative transfer and mentions the ABSOLUTE value of a label; with the
    label values of the uncompressed run written in as numbers the very same program assembles with -c.  So the only reason for
    the failure is that the label moved (down) and the immediate left its range -- inherent to any option that changes the layout."""
    labels = {k: v for k, v in dict(ru.get('labels', [])).items() if k not in dict(ru.get('constants', []))}
    line = lines[n - 1]
    code = line.split('#')[0]
    head, _, rest = code.strip().partition(' ')
    used = [k for k in labels if re.search(r'(?<![\w.%])' + re.escape(k) + r'(?![\w])', rest)]
    if not used:
        return 'other'
    new_rest = rest
    for k in used:
        new_rest = re.sub(r'(?<![\w.%])' + re.escape(k) + r'(?![\w])', str(labels[k]), new_rest)
    if '%position' in new_rest.lower():
        # %position(L, e) = value of L + e : write the number
        new_rest = re.sub(r'%position\s*\(\s*(-?\d+)\s*,?\s*([^)]*)\)', lambda m: '{} + ({})'.format(m.group(1), m.group(2).strip() or '0'), new_rest,
                          flags=re.I)
    variant = list(lines)
    variant[n - 1] = head + ' ' + new_rest
    asm = harness.real_asm()
    rv = pipeline.run_real(asm, '\n'.join(variant), True)
    if rv.get('status') != 'OK':
        return 'other'
    # ... and with the label values of the COMPRESSED layout written in, the line is refused without any compression as well:
    # its immediate really is out of range there (a decision taken by the compression machinery on a moving value is something else)
    clabels = dict(rv.get('labels', []))
    rest2 = rest
    for k in used:
        if k not in clabels:
            return 'other'
        rest2 = re.sub(r'(?<![\w.%])' + re.escape(k) + r'(?![\w])', str(clabels[k]), rest2)
    if '%position' in rest2.lower():
        rest2 = re.sub(r'%position\s*\(\s*(-?\d+)\s*,?\s*([^)]*)\)', lambda m: '{} + ({})'.format(m.group(1), m.group(2).strip() or '0'), rest2,
                       flags=re.I)
    variant2 = list(lines)
    variant2[n - 1] = head + ' ' + rest2
    r2 = pipeline.run_real(asm, '\n'.join(variant2), False)
    if r2.get('status') == 'ASM' and r2.get('line') == n:
        return 'absolute-label-value-moved'
    return 'other'


PSEUDO_BASE = {   # pseudo transfer -> (base mnemonic, operand order) so that a literal distance can be written
    'j': lambda o: 'jal x0, {}'.format(o[-1]), 'jal': lambda o: 'jal x1, {}'.format(o[-1]) if len(o) == 1 else 'jal {}, {}'.format(o[0], o[1]),
    'beqz': lambda o: 'beq {}, x0, {}'.format(o[0], o[1]), 'bnez': lambda o: 'bne {}, x0, {}'.format(o[0], o[1]),
    'bgez': lambda o: 'bge {}, x0, {}'.format(o[0], o[1]), 'bltz': lambda o: 'blt {}, x0, {}'.format(o[0], o[1]),
    'blez': lambda o: 'bge x0, {}, {}'.format(o[0], o[1]), 'bgtz': lambda o: 'blt x0, {}, {}'.format(o[0], o[1]),
    'bgt': lambda o: 'blt {}, {}, {}'.format(o[1], o[0], o[2]), 'ble': lambda o: 'bge {}, {}, {}'.format(o[1], o[0], o[2]),
    'bgtu': lambda o: 'bltu {}, {}, {}'.format(o[1], o[0], o[2]), 'bleu': lambda o: 'bgeu {}, {}, {}'.format(o[1], o[0], o[2]),
}


def offset_before(chunks, n):
    return sum(len(b) for (_, ln, b) in chunks if ln < n)


def absolute_position_cause(lines, n, ru):
    """Known finding K3: the line refused with -c takes the distance to a CONSTANT -- an absolute position -- as the target of a
    branch / jump or through %offset.  What compresses in front of the line moves the line, the target stays where it is, the
    distance grows.  Assigned only if the position of the line is the ONLY reason: with the distance of the uncompressed layout
    written into the line as a number the same program assembles with -c, and with the distance of the compressed layout written in
    it is refused at that line without any compression."""
    consts = dict(ru.get('constants', []))
    code = lines[n - 1].split('#')[0]
    toks = [t for t in code.replace(',', ' ').replace('(', ' ( ').replace(')', ' ) ').split() if t]
    if not toks:
        return 'other'
    head = toks[0].lower()

    def variant_line(dist):
        m = re.search(r'%offset\s*(\(\s*(\w+)\s*\)|\s+(\w+))', code, re.I)
        if m and (m.group(2) or m.group(3)) in consts:
            return code[:m.start()] + str(dist) + code[m.end():]
        if head in TRANSFER_HEADS and toks[-1] in consts and len(toks) >= 2:
            ops = toks[1:-1] + [str(dist)]
            if head in PSEUDO_BASE and not (head == 'jal' and len(ops) == 2):
                return PSEUDO_BASE[head](ops)
            if head in ('call', 'tail'):
                return None
            return head + ' ' + ', '.join(ops)
        return None

    def ref_value():
        m = re.search(r'%offset\s*(\(\s*(\w+)\s*\)|\s+(\w+))', code, re.I)
        if m and (m.group(2) or m.group(3)) in consts:
            return consts[m.group(2) or m.group(3)]
        if head in TRANSFER_HEADS and toks[-1] in consts:
            return consts[toks[-1]]
        return None
    K = ref_value()
    if K is None or ru.get('status') != 'OK':
        return 'other'
    pU = offset_before(ru['chunks'], n)
    v1 = variant_line(K - pU)
    if v1 is None:
        return 'other'
    asm = harness.real_asm()
    variant = list(lines)
    variant[n - 1] = v1
    rv = pipeline.run_real(asm, '\n'.join(variant), True)
    if rv.get('status') != 'OK':
        return 'other'
    pC = offset_before(rv['chunks'], n)
    if abs(K - pC) <= abs(K - pU):
        return 'other'
    variant2 = list(lines)
    variant2[n - 1] = variant_line(K - pC)      # the distance of the compressed layout, as a number
    r2 = pipeline.run_real(asm, '\n'.join(variant2), False)
    if r2.get('status') == 'ASM' and r2.get('line') == n:
        return 'absolute-position-target-moved'
    return 'other'


def compress_failure_cause(source, rc, ru):
    """Names the one cause that is a known finding (K1): the line refused with -c is a pc-relative transfer to a LABEL and an
    `align` stands between the transfer and the label -- the align absorbs what compression saves on one side, so the distance
    can be larger than without compression.  Anything else is 'other'."""
    if rc.get('status') != 'ASM' or not rc.get('line'):
        return 'other'
    lines = source.split('\n')
    n = rc['line']
    if not (1 <= n <= len(lines)):
        return 'other'
    toks = [t for t in lines[n - 1].split('#')[0].replace(',', ' ').split() if t]
    k3 = absolute_position_cause(lines, n, ru)
    if k3 != 'other':
        return k3
    if toks and toks[0].lower() not in TRANSFER_HEADS:
        return absolute_label_cause(lines, n, ru)
    if not toks:
        return 'other'
    target = toks[-1]
    labels = dict(ru.get('labels', []))
    if target not in labels or target in dict(ru.get('constants', [])):
        return 'other'
    defs = [i for i, l in enumerate(lines, start=1) if l.split('#')[0].strip() == target + ':']
    if not defs:
        return 'other'
    lo, hi = sorted((n, defs[0]))
    between = [l.split('#')[0].split() for l in lines[lo:hi - 1]]
    if any(t and t[0].lower() == 'align' for t in between):
        return 'align-between-transfer-and-target'
    return 'other'


def check_pair(ctx, prog, ru, rc, prop):
    """ru / rc: real results without / with compression of the same program."""
    inp = {'source': prog['source']}
    if ru['status'] != 'OK':
        return
    if rc['status'] != 'OK':
        if prop == 'C12':
            ctx.cex('assembles without compression but with -c fails: {}'.format(pipeline.brief(rc)), inp, pipeline.brief(rc), 'OK',
                    {'kind': 'compress-fails', 'status': rc['status'], 'exn': rc.get('cls', 'AssemblerError'), 'scenario': prog.get('scenario'),
                     'cause': compress_failure_cause(prog['source'], rc, ru)})
        return
    if prop == 'C20':
        if len(rc['bytes']) > len(ru['bytes']):
            ctx.cex('compressed output is longer ({} > {})'.format(len(rc['bytes']), len(ru['bytes'])), inp, len(rc['bytes']),
                    len(ru['bytes']), {'kind': 'grows'})
        lu, lc = dict(ru['labels']), dict(rc['labels'])
        for k in lu:
            if lc.get(k, 0) > lu[k]:
                ctx.cex('label {} moves up with -c ({} > {})'.format(k, lc.get(k), lu[k]), inp, lc.get(k), lu[k], {'kind': 'label-grows'})
        ctx.nontriv(('sizes', len(ru['bytes']), len(rc['bytes'])))
        check_C20_eligible(ctx, prog, rc)
        return
    if prop != 'C04':
        return
    du = decode_chunks(ctx, ru['chunks'])
    dc = decode_chunks(ctx, rc['chunks'])
    bu, bc = {}, {}
    for r in du:
        bu.setdefault(r['line'], []).append(r)
    for r in dc:
        bc.setdefault(r['line'], []).append(r)
    meta = {m['line']: m for m in prog['meta']}
    if 'hi_lo' in [m['kind'] for m in prog['meta']]:
        for m in prog['meta']:
            if m['kind'] == 'hi_lo':
                meta[m['line'] + 1] = dict(m, kind='hi_lo2')
    lu, lc = dict(ru['labels']), dict(rc['labels'])
    import re as _re
    for i, text in enumerate(prog['source'].split('\n'), start=1):
        kind, info = classify_line(text)
        a, b = bu.get(i, []), bc.get(i, [])
        m = meta.get(i)
        if m is None and kind in ('instruction', 'expansion', 'data') and \
                any(t in lu for t in _re.findall(r'[A-Za-z_][A-Za-z_0-9]*', text.split('#')[0])[1:]):
            m = {'kind': 'label-dependent', 'label': None, 'line': i, 'text': text}
        # a transfer whose target is a CONSTANT (an absolute position): the offsets differ with the position of the
        # transfer, the absolute target must be the constant in both modes
        cu = dict(ru['constants'])
        toks_ = [t for t in text.split('#')[0].replace(',', ' ').split() if t]
        if m is None and kind in ('instruction', 'expansion') and toks_ and toks_[0].lower() in TRANSFER_HEADS and toks_[-1] in cu:
            ta, tb = transfer_target(a), transfer_target(b)
            if ta is None or tb is None or ta[0] != cu[toks_[-1]] or tb[0] != cu[toks_[-1]] or ta[1] != tb[1]:
                ctx.cex('line {} "{}": transfer to the absolute position {} reaches {} without and {} with compression'.format(
                    i, text[:60], cu[toks_[-1]], ta, tb), inp, [ta, tb], cu[toks_[-1]],
                    {'kind': 'meaning-differs', 'line-kind': kind, 'ref': 'constant-target', 'scenario': prog.get('scenario')})
            continue
        why = None
        if kind in ('string', 'data') and not m:
            if b''.join(r['bytes'] for r in a) != b''.join(r['bytes'] for r in b):
                why = 'data bytes differ'
        elif kind == 'align':
            if any(r['bytes'].strip(b'\x00') for r in b):
                why = 'align padding is not zero'
        elif kind in ('instruction', 'expansion'):
            for r in b:
                if r['dec'] is None and r['size'] in (2, 4):
                    why = 'emitted {} is not a legal encoding'.format(r['bytes'].hex())
            if why is None and m and m['kind'] in TRANSFER_KINDS:
                ta, tb = transfer_target(a), transfer_target(b)
                if ta is None or tb is None:
                    why = 'not a transfer in one of the modes: {} / {}'.format([r['dec'] for r in a], [r['dec'] for r in b])
                elif ta[1] != tb[1] or ta[0] != lu.get(m['label']) or tb[0] != lc.get(m['label']):
                    why = 'transfer differs: uncompressed -> {} (label {}), compressed -> {} (label {}), link {} / {}'.format(
                        ta[0], lu.get(m['label']), tb[0], lc.get(m['label']), ta[1], tb[1])
                elif a and b and a[0]['dec'] and b[0]['dec'] and a[0]['dec'][0] in BRANCHES:
                    if a[0]['dec'][:3] != b[0]['dec'][:3]:
                        why = 'branch condition / registers differ: {} / {}'.format(a[0]['dec'], b[0]['dec'])
            elif why is None and kind == 'expansion' and info == 'li':
                va, vb = li_value(a), li_value(b)
                if m is None:
                    if va != vb or va is None:
                        why = 'li loads {} without and {} with compression'.format(va, vb)
                # label-dependent li: each mode is checked against its own final labels by C08
            elif why is None and m and m['kind'] == 'dropzero':
                na, nb = [norm_dec(r['dec']) for r in a], [norm_dec(r['dec']) for r in b]
                wa, wb = lu[m['label']] - m['pess'], lc[m['label']] - m['pess']
                if len(nb) != 1 or nb[0] is None or nb[0][:-1] != na[0][:-1] or int(nb[0][-1]) != wb:
                    why = 'compressed form {} does not carry the final immediate {} (uncompressed: {})'.format(nb, wb, na)
            elif why is None and m:
                # other label-dependent immediates: same operation and registers; values are C08's business
                na, nb = [norm_dec(r['dec']) for r in a], [norm_dec(r['dec']) for r in b]
                if [x[:-1] if x else x for x in na] != [x[:-1] if x else x for x in nb]:
                    why = 'operation / registers differ: {} / {}'.format(na, nb)
            elif why is None:
                na, nb = [norm_dec(r['dec']) for r in a], [norm_dec(r['dec']) for r in b]
                if na != nb:
                    why = 'decoded instruction differs: {} without, {} with compression'.format(na, nb)
                else:
                    for x in nb:
                        ctx.nontriv(tuple(x) if x else None)
        if why:
            ctx.cex('line {} "{}": {}'.format(i, text[:60], why), inp, why, 'same meaning in both modes',
                    {'kind': 'meaning-differs', 'line-kind': kind, 'ref': m['kind'] if m else None, 'scenario': prog.get('scenario')})


# ---------------------------------------------------------------------------------------------- C20
def text_of(dec):
    """Canonical source text of a decoded 32-bit instruction (name ops...), operands as the assembler reads them."""
    n, o = dec[0], [int(x) for x in dec[1:]]
    r = lambda k: 'x{}'.format(k)
    if n in ('lui',):
        return '{} {}, {}'.format(n, r(o[0]), o[1])
    if n in ('jal',):
        return 'jal {}, {}'.format(r(o[0]), o[1])
    if n in ('beq', 'bne'):
        return '{} {}, {}, {}'.format(n, r(o[0]), r(o[1]), o[2])
    if n in ('lw', 'jalr', 'addi', 'andi', 'slli', 'srli', 'srai'):
        return '{} {}, {}, {}'.format(n, r(o[0]), r(o[1]), o[2])
    if n == 'sw':
        return 'sw {}, {}, {}'.format(r(o[0]), r(o[1]), o[2])
    if n in ('add', 'sub', 'xor', 'or', 'and'):
        return '{} {}, {}, {}'.format(n, r(o[0]), r(o[1]), r(o[2]))
    if n == 'ebreak':
        return 'ebreak'
    return None


def eligible_set(ctx):
    """All 32-bit instructions (name, operands) that are the expansion of a legal non-hint RV32C halfword (Spec)."""
    if getattr(ctx, '_eligible', None) is None:
        ans = ctx.spec.batch(['x16 {}'.format(h) for h in range(65536)])
        el = {}
        for h, a in enumerate(ans):
            if a != 'none':
                el.setdefault(tuple(a.split()), h)
        ctx._eligible = el
    return ctx._eligible


def sweep_C20(ctx, asm):
    """Every legal halfword: its expansion, written as a 32-bit instruction with literal operands, must come out of the
    REAL assembler in 16 bits with -c, as a halfword of the same meaning."""
    el = eligible_set(ctx)
    items = sorted(el.items(), key=lambda kv: kv[1])
    if ctx.quick():
        items = items[::9] + items[:200]
    q, lines = [], []
    for dec, h in items:
        t = text_of(list(dec))
        if t is None:
            ctx.cex('no source text for expansion {}'.format(dec), {'kind': 'halfword', 'halfword': h}, None, 'text', {'kind': 'harness'})
            continue
        variants = [t]
        if dec[0] == 'lui' and int(dec[2]) < 0:
            variants.append('lui x{}, {}'.format(dec[1], int(dec[2]) + (1 << 20)))     # documented second spelling
        for src in variants:
            ctx.evaluations += 1
            try:
                b = bytes(asm.assemble(src + '\n', compress=True))
            except Exception as e:
                ctx.cex('"{}" (expansion of legal halfword {:#06x}) is refused with -c: {}'.format(src, h, harness.exc_class(e)),
                        {'kind': 'halfword', 'source': src, 'halfword': h}, harness.exc_class(e), '2 bytes', {'kind': 'eligible-refused', 'name': dec[0]})
                continue
            if len(b) != 2:
                ctx.cex('"{}" is the expansion of the legal halfword {:#06x} but is emitted in {} bytes with -c'.format(src, h, len(b)),
                        {'kind': 'halfword', 'source': src, 'halfword': h}, b.hex(), '2 bytes', {'kind': 'eligible-not-compressed', 'name': dec[0]})
                continue
            q.append('x16 {}'.format(int.from_bytes(b, 'little')))
            lines.append((src, dec, h, b))
            ctx.nontriv(('halfword', h))
    for (src, dec, h, b), a in zip(lines, ctx.spec.batch(q)):
        got = norm_dec(a.split()) if a != 'none' else None
        if got != norm_dec(list(dec)):
            ctx.cex('"{}" is emitted with -c as {} which means {} instead'.format(src, b.hex(), a),
                    {'kind': 'halfword', 'source': src, 'halfword': h}, a, ' '.join(dec), {'kind': 'eligible-other-meaning', 'name': dec[0]})
    ctx.count('halfword-expansions', len(lines))


def check_C20_eligible(ctx, prog, rc):
    """In the -c output of a generated program every 32-bit instruction whose source line has literal operands (no label,
    no constant name) must NOT be the expansion of a legal halfword -- pseudo-instruction expansions included."""
    import re as _re
    el = eligible_set(ctx)
    recs = decode_chunks(ctx, rc['chunks'])
    lines = prog['source'].split('\n')
    names = set(k for k, _ in rc['labels']) | set(k for k, _ in rc['constants'])
    for r in recs:
        if r['size'] != 4 or not r['dec'] or not (1 <= r['line'] <= len(lines)):
            continue
        text = lines[r['line'] - 1]
        kind, info = classify_line(text)
        if kind not in ('instruction', 'expansion'):
            continue
        toks = _re.findall(r'[A-Za-z_.][A-Za-z_0-9.]*', text.split('#')[0])
        if any(t in names for t in toks[1:]) or '%' in text:
            continue                       # label / constant dependent: outside this half of the property
        if info in ('call', 'tail') or toks[0].lower() in ('j', 'jal', 'beqz', 'bnez') and len(toks) > 1 and not toks[-1].lstrip('-').isdigit():
            continue
        key = tuple(r['dec'])
        if key in el:
            ctx.cex('line {} "{}": with -c the 32-bit {} is emitted although it is the expansion of the legal halfword {:#06x}'.format(
                r['line'], text.strip()[:50], ' '.join(r['dec']), el[key]), prog_input(dict(prog, compress=True)), ' '.join(r['dec']),
                '16 bits', {'kind': 'eligible-not-compressed', 'name': r['dec'][0], 'where': kind})


def replay(ctx, prop, rec):
    """Re-evaluates one stored counterexample of a layout property on the real code; True = it still fails."""
    asm = harness.real_asm()
    inp = rec['input']
    before = len(ctx.counterexamples)
    if inp.get('kind') == 'halfword':
        src = inp['source']
        try:
            b = bytes(asm.assemble(src + '\n', compress=True))
        except Exception:
            return True
        if len(b) != 2:
            return True
        a = ctx.spec.batch(['x16 {}'.format(int.from_bytes(b, 'little')), 'x16 {}'.format(inp['halfword'])])
        return norm_dec(a[0].split()) != norm_dec(a[1].split())
    prog = {'source': inp['source'], 'meta': inp.get('meta') or [], 'scenario': inp.get('scenario')}
    if inp.get('labels') is not None:
        prog['labels'] = inp['labels']
    ru = pipeline.run_real(asm, prog['source'], False, labels=prog.get('labels'))
    rc = pipeline.run_real(asm, prog['source'], True, labels=prog.get('labels'))
    if prop in ('C03', 'C08', 'C09'):
        for real, c in ((ru, False), (rc, True)):
            if real['status'] != 'OK':
                continue
            recs = decode_chunks(ctx, real['chunks'])
            {'C03': check_C03, 'C08': check_C08, 'C09': check_C09}[prop](ctx, dict(prog, compress=c), real, recs)
    else:
        check_pair(ctx, prog, ru, rc, prop)
        if prop == 'C20' and rc['status'] == 'OK':
            check_C20_eligible(ctx, prog, rc)
    return len(ctx.counterexamples) > before


def make_programs(ctx, n, seed_off=0):
    rng = random.Random(ctx.seed * 1000003 + seed_off)
    progs = []
    for i in range(n):
        big = (i % 8 == 0)
        src, meta = gen_programs.program(rng, 'small' if i % 3 else 'medium', big_gap=big)
        progs.append({'source': src, 'meta': meta})
    for k, (src, meta) in enumerate(gen_programs.scenarios(rng, max(2 * gen_programs.NSCEN, n // 3))):
        progs.append({'source': src, 'meta': meta, 'scenario': k % gen_programs.NSCEN})
    return progs


def label_names(src):
    out = []
    for l in src.split('\n'):
        t = l.split('#')[0].strip()
        if t.endswith(':') and len(t.split()) == 1 and t[:-1] not in out:
            out.append(t[:-1])
    return out


def preseeded_variants(ctx, base):
    """The `labels` argument may be a dictionary the caller kept from an earlier run: it then already holds (some of) the
    program's label names -- in ANOTHER order and with stale values -- and names the program does not define.  The table the
    assembler leaves in it must be exact all the same (a key that is assigned again keeps its old place in the dictionary, so the
    order of the dictionary is no longer the order of the layout)."""
    rng = random.Random(ctx.seed * 65537 + 11)
    out = []
    for k, p in enumerate(base):
        if k % 5:
            continue
        names = label_names(p['source'])
        if len(names) < 2:
            continue
        mode = rng.randrange(3)
        order = list(reversed(names)) if mode == 0 else rng.sample(names, len(names)) if mode == 1 else names[1::2] + names[0::2][:1]
        labels = {}
        if rng.random() < 0.5:
            labels['zz_kept'] = 64
        for n in order:
            labels[n] = rng.choice([0, 2, 4, 6, 1000, 123456])
        labels['zz_other'] = 4096
        out.append(dict(p, labels=labels))
    return out


def align_programs(ctx):
    """`align N` for N in 1..17, 32, 64, 100, 4096 standing at every residue (sampled for the large N), alone, twice in a
    row and after code, so that the padding is exercised for powers of two and for every other N."""
    rng = random.Random(ctx.seed * 7919 + 5)
    out = []
    ns = list(range(1, 18)) + [32, 64, 100, 4096]
    for n in ns:
        residues = list(range(n)) if n <= 17 else sorted(set([0, 1, 2, n // 2, n - 1] + [rng.randrange(n) for _ in range(4)]))
        if ctx.quick() and n <= 17:
            residues = sorted(set([0, 1, n - 1] + [rng.randrange(n) for _ in range(3)]))
        for res in residues:
            lead = 'bytes ' + ' '.join(str(160 + (i % 60)) for i in range(res)) if res else ''
            shape = rng.randrange(4)
            if shape == 0:
                lines = [lead, 'align {}'.format(n), 'db 0xee']
            elif shape == 1:
                lines = [lead, 'align {}'.format(n), 'align {}'.format(rng.choice(ns[:17])), 'after:', 'db 0xee']
            elif shape == 2:
                lines = [lead, 'mark:', 'align {}'.format(n), 'dw mark', 'db 1', 'align {}'.format(n), 'db 0xee']
            else:
                lines = ['addi x8, x8, 1', lead, 'align {}'.format(n), 'end_:', 'db 0xee']
            src = '\n'.join(l for l in lines if l) + '\n'
            out.append({'source': src, 'meta': []})
    return out


def explore(ctx, prop):
    asm = harness.real_asm()
    n = 300 if ctx.quick() else 6000
    base = make_programs(ctx, n)
    if prop == 'C09':
        base = align_programs(ctx) + base
    base = base + preseeded_variants(ctx, base)
    progs = []
    for p in base:
        progs.append(dict(p, compress=False))
        progs.append(dict(p, compress=True))
    ctx.count('programs', len(progs))
    ctx.count('programs-with-preseeded-labels', sum(1 for p in progs if p.get('labels') is not None))
    reals = pipeline.correspond(ctx, asm, progs)
    if not ctx.spec.available():
        ctx.corr('bbspec unavailable', {}, None, None)
        return
    ok = 0
    for prog, real in zip(progs, reals):
        ctx.evaluations += 1
        ctx.count('status-' + real['status'])
        if real['status'] == 'RAW':
            ctx.count('raw-' + real['cls'])
            continue
        if real['status'] != 'OK':
            continue
        ok += 1
        if prop in ('C03', 'C08', 'C09'):
            recs = decode_chunks(ctx, real['chunks'])
            if prop == 'C03':
                check_C03(ctx, prog, real, recs)
            elif prop == 'C09':
                check_C09(ctx, prog, real, recs)
            elif prop == 'C08':
                check_C08(ctx, prog, real, recs)
    if prop in ('C04', 'C12', 'C20'):
        for k in range(0, len(progs), 2):
            check_pair(ctx, progs[k], reals[k], reals[k + 1], prop)
            if prop == 'C12' and reals[k]['status'] == 'OK':
                ctx.nontriv(('pair', k))
    if prop == 'C20':
        sweep_C20(ctx, asm)
    if progs:
        ctx.sample({'source': short(progs[1]['source']), 'compress': progs[1]['compress'],
                    'result': pipeline.brief(reals[1])})
    ctx.count('assembled-ok', ok)
