"""Translation unit `Guards`: the small DECISIONS of asm.py that the hand-written pass model repeats and that no other unit reads:

  * the return expressions of Offset.eval / Position.eval / Hi.eval / Lo.eval (translated to Gallina functions), whether the
    reference is checked against `env` first, and which (position, env, line) the inner expression is evaluated with;
  * is_position_relative: which classes answer True, which recurse into `.expr`;
  * is_settled: position-relative test first, the arguments handed to `expr.eval`, the exception that means "not settled";
  * the guard in front of the rule selection of transform_compressible (which classes are jumps, the class of the immediate,
    the dictionary the reference must NOT be in, the arguments of the is_settled call, the evaluation environment, which items are skipped);
  * resolve_immediates: the evaluation environment, the position an `is_auipc_jump` item is evaluated at, what advances `position`;
  * resolve_labels: duplicate test, the value bound to a label, what advances `position`;
  * resolve_constants: the evaluation environment and position, the two shadowing tests.

Regenerated from the AST on every run.  Each table is extracted on its own: a shape the extractor does not understand leaves THAT
table at a sentinel (`"?"` / empty), which breaks exactly the theorem of Proofs/Guards.v that interprets it.
Proofs/Guards.v proves the functions of Model/Items.v / Model/Passes.v equal to the interpretation of these tables."""
import ast
import os

from py2coq import TranslationError, HEADER

UNIT_NAMES = ['Guards']


def fail(node, what):
    raise TranslationError('Guards', getattr(node, 'lineno', 0), what)


def slit(s):
    return '"' + s.replace('"', '""') + '"'


def slist(xs):
    return '[' + '; '.join(slit(x) for x in xs) + ']'


def strip_doc(body):
    """drop docstrings, bare string expressions and log_* calls"""
    out = []
    for st in body:
        if isinstance(st, ast.Expr) and isinstance(st.value, ast.Constant):
            continue
        if isinstance(st, ast.Expr) and isinstance(st.value, ast.Call) and isinstance(st.value.func, ast.Name) \
                and st.value.func.id.startswith('log_'):
            continue
        out.append(st)
    return out


BINOPS = {ast.Add: 'Z.add', ast.Sub: 'Z.sub', ast.Mult: 'Z.mul'}


def arith(e, names):
    """integer expression over the given variable names -> Gallina"""
    if isinstance(e, ast.Name) and e.id in names:
        return e.id
    if isinstance(e, ast.Constant) and type(e.value) is int:
        return '({})'.format(e.value)
    if isinstance(e, ast.BinOp) and type(e.op) in BINOPS:
        return '({} {} {})'.format(BINOPS[type(e.op)], arith(e.left, names), arith(e.right, names))
    if isinstance(e, ast.UnaryOp) and isinstance(e.op, ast.USub):
        return '(Z.opp {})'.format(arith(e.operand, names))
    fail(e, 'arithmetic in an eval method: ' + ast.unparse(e))


def method(cls, name):
    for st in cls.body:
        if isinstance(st, ast.FunctionDef) and st.name == name:
            return st
    fail(cls, 'class {} has no method {}'.format(cls.name, name))


def is_ref_check(st, envname):
    """if self.reference not in env: ...; raise AssemblerError(.., line)"""
    if not (isinstance(st, ast.If) and not st.orelse):
        return False
    t = st.test
    if not (isinstance(t, ast.Compare) and len(t.ops) == 1 and isinstance(t.ops[0], ast.NotIn)
            and ast.unparse(t.left) == 'self.reference' and ast.unparse(t.comparators[0]) == envname):
        return False
    last = st.body[-1]
    return (isinstance(last, ast.Raise) and isinstance(last.exc, ast.Call) and ast.unparse(last.exc.func) == 'AssemblerError'
            and len(last.exc.args) == 2 and ast.unparse(last.exc.args[1]) == 'line')


def extract_evals(classes):
    """-> dict with the Gallina text of offset_eval / position_eval, hi/lo function names, ref-checked classes, inner eval args"""
    res = {'checked': [], 'inner': []}
    for cname in ('Offset', 'Position', 'Hi', 'Lo'):
        if cname not in classes:
            fail(None, 'class {} not found'.format(cname))
        m = method(classes[cname], 'eval')
        params = [a.arg for a in m.args.args]
        if params != ['self', 'position', 'env', 'line']:
            fail(m, '{}.eval parameters'.format(cname))
        body = strip_doc(m.body)
        if body and is_ref_check(body[0], 'env'):
            res['checked'].append(cname)
            body = body[1:]
        # remaining: simple assignments  x = env[self.reference] | x = self.expr.eval(a, b, c)   then  return <expr>
        binds = {}
        for st in body[:-1]:
            if not (isinstance(st, ast.Assign) and len(st.targets) == 1 and isinstance(st.targets[0], ast.Name)):
                fail(st, 'statement in {}.eval'.format(cname))
            v = st.value
            tgt = st.targets[0].id
            if ast.unparse(v) == 'env[self.reference]':
                binds[tgt] = 'dest'
            elif isinstance(v, ast.Call) and ast.unparse(v.func) == 'self.expr.eval' and not v.keywords:
                res['inner'].append((cname, [ast.unparse(a) for a in v.args]))
                binds[tgt] = 'inner'
            else:
                fail(st, 'binding in {}.eval'.format(cname))
        ret = body[-1] if body else None
        if not isinstance(ret, ast.Return) or ret.value is None:
            fail(m, '{}.eval must end in a return'.format(cname))
        rv = ret.value

        class Ren(ast.NodeTransformer):
            def visit_Name(self, n):
                if n.id in binds:
                    return ast.copy_location(ast.Name(id={'dest': 'dest', 'inner': 'inner'}[binds[n.id]], ctx=n.ctx), n)
                return n
        rv = Ren().visit(rv)
        if cname == 'Offset':
            if 'inner' in binds.values():
                fail(m, 'Offset.eval evaluates an inner expression')
            res['offset'] = arith(rv, ['dest', 'position'])
        elif cname == 'Position':
            res['position'] = arith(rv, ['dest', 'inner', 'position'])
        else:
            if not (isinstance(rv, ast.Call) and isinstance(rv.func, ast.Name) and len(rv.args) == 1 and not rv.keywords
                    and isinstance(rv.args[0], ast.Name) and rv.args[0].id == 'inner'):
                fail(ret, '{}.eval must return f(<value of the inner expression>)'.format(cname))
            res[cname.lower()] = rv.func.id
    return res


def isinstance_classes(test, var):
    """isinstance(<var>, C) / isinstance(<var>, (C1, C2)) -> [C..] ; else None"""
    if not (isinstance(test, ast.Call) and isinstance(test.func, ast.Name) and test.func.id == 'isinstance' and len(test.args) == 2
            and ast.unparse(test.args[0]) == var):
        return None
    c = test.args[1]
    if isinstance(c, ast.Name):
        return [c.id]
    if isinstance(c, ast.Tuple) and all(isinstance(e, ast.Name) for e in c.elts):
        return [e.id for e in c.elts]
    return None


def is_return_const(st, value):
    return isinstance(st, ast.Return) and isinstance(st.value, ast.Constant) and st.value.value is value


def extract_posrel(fns):
    f = fns.get('is_position_relative')
    if f is None or [a.arg for a in f.args.args] != ['expr']:
        fail(f, 'is_position_relative(expr)')
    true_cls, rec_cls = [], []
    body = strip_doc(f.body)
    if not body or not is_return_const(body[-1], False):
        fail(f, 'is_position_relative must end in `return False`')
    for st in body[:-1]:
        if not (isinstance(st, ast.If) and not st.orelse and len(st.body) == 1):
            fail(st, 'statement in is_position_relative')
        cl = isinstance_classes(st.test, 'expr')
        if cl is None:
            fail(st, 'test in is_position_relative')
        r = st.body[0]
        if is_return_const(r, True):
            true_cls += cl
        elif isinstance(r, ast.Return) and ast.unparse(r.value) == 'is_position_relative(expr.expr)':
            rec_cls += cl
        else:
            fail(r, 'result in is_position_relative')
    return true_cls, rec_cls


def extract_settled(fns):
    f = fns.get('is_settled')
    if f is None:
        fail(None, 'is_settled not found')
    params = [a.arg for a in f.args.args]
    body = strip_doc(f.body)
    if len(body) != 3:
        fail(f, 'is_settled: expected `if position relative: return False`, a try, `return True`')
    a, t, r = body
    ok = (isinstance(a, ast.If) and not a.orelse and len(a.body) == 1 and is_return_const(a.body[0], False)
          and ast.unparse(a.test) == 'is_position_relative({})'.format(params[0]))
    if not ok:
        fail(a, 'is_settled: first statement')
    if not (isinstance(t, ast.Try) and not t.finalbody and not t.orelse and len(t.body) == 1 and len(t.handlers) == 1):
        fail(t, 'is_settled: try statement')
    call = t.body[0].value if isinstance(t.body[0], ast.Expr) else None
    if not (isinstance(call, ast.Call) and ast.unparse(call.func) == params[0] + '.eval' and not call.keywords):
        fail(t, 'is_settled: evaluation')
    h = t.handlers[0]
    if not (isinstance(h.type, ast.Name) and len(h.body) == 1 and is_return_const(h.body[0], False)):
        fail(h, 'is_settled: handler')
    if not is_return_const(r, True):
        fail(r, 'is_settled: last statement')
    return params, [ast.unparse(x) for x in call.args], [h.type.id]


def loop_of(f):
    loops = [st for st in f.body if isinstance(st, ast.For)]
    if len(loops) != 1 or ast.unparse(loops[0].target) != 'item' or ast.unparse(loops[0].iter) != 'items':
        fail(f, 'pass must have exactly one `for item in items` loop')
    return loops[0]


def chainmap_of(stmts, var):
    """the `var = ChainMap(a, b)` among the statements -> [a, b]"""
    for st in stmts:
        for n in ast.walk(st):
            if isinstance(n, ast.Assign) and len(n.targets) == 1 and ast.unparse(n.targets[0]) == var \
                    and isinstance(n.value, ast.Call) and ast.unparse(n.value.func) == 'ChainMap':
                return [ast.unparse(a) for a in n.value.args]
    return None


def is_skip_body(body):
    """position += item.size(); new_items.append(item); continue"""
    return [ast.unparse(s) for s in strip_doc(body)] == ['position += item.size()', 'new_items.append(item)', 'continue']


def extract_compress_guard(fns):
    f = fns.get('transform_compressible')
    if f is None:
        fail(None, 'transform_compressible not found')
    env = chainmap_of(f.body, 'env')
    if env is None:
        fail(f, 'env = ChainMap(..) of transform_compressible')
    loop = loop_of(f)
    body = strip_doc(loop.body)
    if len(body) < 3:
        fail(loop, 'loop body of transform_compressible')
    skip, guard = body[0], body[1]
    # skip non-instructions and pseudo-instructions
    if not (isinstance(skip, ast.If) and not skip.orelse and is_skip_body(skip.body)):
        fail(skip, 'skip statement of transform_compressible')
    skip_text = ast.unparse(skip.test)
    if not (isinstance(guard, ast.If) and not guard.orelse and ast.unparse(guard.test) == "hasattr(item, 'imm')"):
        fail(guard, "`if hasattr(item, 'imm'):` of transform_compressible")
    g = strip_doc(guard.body)
    if len(g) != 2:
        fail(guard, 'guard body')
    asg, cond = g
    if not (isinstance(asg, ast.Assign) and ast.unparse(asg.targets[0]) == 'jump_to_label' and isinstance(asg.value, ast.BoolOp)
            and isinstance(asg.value.op, ast.And) and len(asg.value.values) == 3):
        fail(asg, 'jump_to_label = A and B and C')
    a, b, c = asg.value.values
    jump_classes = isinstance_classes(a, 'item')
    imm_class = isinstance_classes(b, 'item.imm')
    if jump_classes is None or imm_class is None or len(imm_class) != 1:
        fail(asg, 'jump_to_label: isinstance tests')
    if not (isinstance(c, ast.Compare) and len(c.ops) == 1 and isinstance(c.ops[0], ast.NotIn)
            and ast.unparse(c.left) == 'item.imm.reference' and isinstance(c.comparators[0], ast.Name)):
        fail(c, 'jump_to_label: reference test')
    ref_not_in = c.comparators[0].id
    if not (isinstance(cond, ast.If) and not cond.orelse and is_skip_body(cond.body) and isinstance(cond.test, ast.BoolOp)
            and isinstance(cond.test.op, ast.And) and len(cond.test.values) == 2):
        fail(cond, 'guard: `if not jump_to_label and not is_settled(..): skip`')
    x, y = cond.test.values
    if ast.unparse(x) != 'not jump_to_label':
        fail(x, 'guard: first conjunct')
    if not (isinstance(y, ast.UnaryOp) and isinstance(y.op, ast.Not) and isinstance(y.operand, ast.Call)
            and ast.unparse(y.operand.func) == 'is_settled' and not y.operand.keywords):
        fail(y, 'guard: second conjunct')
    settled_args = [ast.unparse(z) for z in y.operand.args]
    # the predicates are called with (item, position, env)
    pred_args = None
    for n in ast.walk(loop):
        if isinstance(n, ast.Call) and isinstance(n.func, ast.Name) and n.func.id == 'pred':
            pred_args = [ast.unparse(z) for z in n.args]
    if pred_args is None:
        fail(loop, 'pred(item, position, env) call')
    return dict(env=env, skip=skip_text, jump=jump_classes, imm=imm_class[0], ref=ref_not_in, settled=settled_args, pred=pred_args)


def extract_resolve_immediates(fns):
    f = fns.get('resolve_immediates')
    if f is None:
        fail(None, 'resolve_immediates not found')
    loop = loop_of(f)
    env = chainmap_of(loop.body, 'env')
    if env is None:
        fail(loop, 'env = ChainMap(..) of resolve_immediates')
    auipc = None
    for st in loop.body:
        if isinstance(st, ast.If) and st.orelse and ast.unparse(st.test) == "hasattr(item, 'is_auipc_jump') and item.is_auipc_jump":
            auipc = st
    if auipc is None:
        fail(loop, 'is_auipc_jump distinction of resolve_immediates')

    def eval_args(body):
        if len(body) != 1 or not isinstance(body[0], ast.Assign) or ast.unparse(body[0].targets[0]) != 'imm':
            fail(auipc, 'imm = item.imm.eval(..)')
        v = body[0].value
        if not (isinstance(v, ast.Call) and ast.unparse(v.func) == 'item.imm.eval' and len(v.args) == 3 and not v.keywords):
            fail(auipc, 'imm = item.imm.eval(..)')
        return v.args
    a1, a2 = eval_args(auipc.body), eval_args(auipc.orelse)
    if [ast.unparse(x) for x in a1[1:]] != ['env', 'item.line'] or [ast.unparse(x) for x in a2[1:]] != ['env', 'item.line']:
        fail(auipc, 'environment / line of the evaluation')
    back1 = arith(a1[0], ['position'])
    back2 = arith(a2[0], ['position'])
    # skip of items without imm and the advance of position
    texts = [ast.unparse(s) for s in loop.body]
    skip_ok = any(isinstance(st, ast.If) and ast.unparse(st.test) == "'imm' not in d" and is_skip_body(st.body) for st in loop.body)
    adv = [t for t in texts if t.startswith('position +=')]
    return dict(env=env, auipc=back1, plain=back2, skip_ok=skip_ok, advance=adv,
                store="d['imm'] = imm" in texts)


def extract_resolve_labels(fns):
    f = fns.get('resolve_labels')
    if f is None:
        fail(None, 'resolve_labels not found')
    loop = loop_of(f)
    body = strip_doc(loop.body)
    if len(body) != 4:
        fail(loop, 'loop body of resolve_labels')
    skip, dup, add, bind = body
    ok = (isinstance(skip, ast.If) and not skip.orelse and ast.unparse(skip.test) == 'not isinstance(item, Label)'
          and is_skip_body(skip.body))
    if not ok:
        fail(skip, 'non-label branch of resolve_labels')
    dup_ok = (isinstance(dup, ast.If) and not dup.orelse and ast.unparse(dup.test) == 'item.name in defined' and len(dup.body) == 1
              and isinstance(dup.body[0], ast.Raise) and ast.unparse(dup.body[0].exc.func) == 'AssemblerError'
              and ast.unparse(dup.body[0].exc.args[-1]) == 'item.line' and ast.unparse(add) == 'defined.add(item.name)')
    if not (isinstance(bind, ast.Assign) and ast.unparse(bind.targets[0]) == 'labels[item.name]'):
        fail(bind, 'labels[item.name] = ..')
    starts = [ast.unparse(s) for s in f.body if isinstance(s, ast.Assign)]
    return dict(dup=dup_ok, value=ast.unparse(bind.value), start='position = 0' in starts, fresh='defined = set()' in starts)


def extract_resolve_constants(fns):
    f = fns.get('resolve_constants')
    if f is None:
        fail(None, 'resolve_constants not found')
    loop = loop_of(f)
    env = chainmap_of(loop.body, 'env')
    if env is None:
        fail(loop, 'env = ChainMap(..) of resolve_constants')
    ev = None
    tests = []
    for st in loop.body:
        if isinstance(st, ast.Assign) and ast.unparse(st.targets[0]) == 'value' and isinstance(st.value, ast.Call) \
                and ast.unparse(st.value.func) == 'item.expr.eval':
            ev = [ast.unparse(a) for a in st.value.args]
        if isinstance(st, ast.If) and not st.orelse and st.body and isinstance(st.body[-1], ast.Raise) \
                and ast.unparse(st.body[-1].exc.func) == 'AssemblerError' and ast.unparse(st.body[-1].exc.args[-1]) == 'item.line':
            tests.append(ast.unparse(st.test))
    if ev is None:
        fail(loop, 'value = item.expr.eval(..)')
    store = any(ast.unparse(st) == 'constants[item.name] = value' for st in loop.body)
    return dict(env=env, eval=ev, tests=tests, store=store)


def extract_register_aliases(fns):
    """resolve_register_aliases: the register keys, where the fields of the rebuilt item come from, the test that makes a field an
    alias, the value it gets, and how the item is rebuilt (ALL fields, in order)."""
    f = fns.get('resolve_register_aliases')
    if f is None:
        fail(None, 'resolve_register_aliases not found')
    regs = None
    for st in f.body:
        if isinstance(st, ast.Assign) and ast.unparse(st.targets[0]) == 'REGS' and isinstance(st.value, ast.Set) \
                and all(isinstance(e, ast.Constant) and isinstance(e.value, str) for e in st.value.elts):
            regs = sorted(e.value for e in st.value.elts)
    if regs is None:
        fail(f, 'REGS = {..}')
    loop = loop_of(f)
    body = strip_doc(loop.body)
    texts = [ast.unparse(st) for st in body]
    src = [t for t in texts if t.startswith('d = ')]
    if len(src) != 1:
        fail(loop, 'd = <fields of the item>')
    inner = [st for st in body if isinstance(st, ast.For)]
    if len(inner) != 1 or ast.unparse(inner[0].target) != '(key, value)' or ast.unparse(inner[0].iter) != 'd.items()':
        fail(loop, 'for key, value in d.items()')
    ib = strip_doc(inner[0].body)
    itexts = [ast.unparse(st) for st in ib]
    tests = [ast.unparse(st.test) for st in ib if isinstance(st, ast.If) and not st.orelse and len(st.body) == 1
             and isinstance(st.body[0], ast.Continue)]
    assigns = [t for t in itexts if t.startswith(('reg = ', 'resolved_regs[key] = '))]
    rebuild = [t for t in texts if t.startswith('new_item = ')]
    if len(rebuild) != 1:
        fail(loop, 'new_item = ..')
    keeps = [ast.unparse(st.test) for st in body if isinstance(st, ast.If) and not st.orelse
             and [ast.unparse(x) for x in strip_doc(st.body)] == ['new_items.append(item)', 'continue']]
    return dict(regs=regs, src=src[0], tests=tests, assigns=assigns, update='d.update(resolved_regs)' in texts,
                rebuild=rebuild[0], keeps=keeps, appends='new_items.append(new_item)' in texts)


def extract_arith_eval(classes):
    """Arithmetic.eval: what is handed to the builtin eval (the expression text AS WRITTEN, no builtins, the environment), that the
    position of the item plays no part, which exceptions become AssemblerError, the integer test, the character-literal branch."""
    if 'Arithmetic' not in classes:
        fail(None, 'class Arithmetic not found')
    m = method(classes['Arithmetic'], 'eval')
    if [a.arg for a in m.args.args] != ['self', 'position', 'env', 'line']:
        fail(m, 'Arithmetic.eval parameters')
    uses_position = any(isinstance(n, ast.Name) and n.id == 'position' for st in m.body for n in ast.walk(st))
    calls = [n for st in m.body for n in ast.walk(st) if isinstance(n, ast.Call) and isinstance(n.func, ast.Name) and n.func.id == 'eval']
    if len(calls) != 1 or calls[0].keywords:
        fail(m, 'exactly one call of the builtin eval expected')
    eval_args = [ast.unparse(a) for a in calls[0].args]
    body = strip_doc(m.body)
    tries = [st for st in body if isinstance(st, ast.Try) and any(n is calls[0] for n in ast.walk(st))]
    if len(tries) != 1:
        fail(m, 'the eval call must stand in one try statement at the top level of the method')
    handlers = []
    for h in tries[0].handlers:
        ok = (len(h.body) == 1 and isinstance(h.body[0], ast.Raise) and isinstance(h.body[0].exc, ast.Call)
              and ast.unparse(h.body[0].exc.func) == 'AssemblerError' and ast.unparse(h.body[0].exc.args[-1]) == 'line')
        handlers.append(('bare' if h.type is None else ast.unparse(h.type)) + (' -> AssemblerError' if ok else ' -> ?'))
    try_texts = [ast.unparse(x) for x in strip_doc(tries[0].body)]
    int_tests = [ast.unparse(st.test) for st in body if isinstance(st, ast.If) and st.body and isinstance(st.body[-1], ast.Raise)
                 and not any(n is calls[0] for n in ast.walk(st))]
    last = ast.unparse(body[-1]) if body else '?'
    first = body[0]
    char = ['?']
    if isinstance(first, ast.If) and not first.orelse:
        char = [ast.unparse(first.test)]
        for st in first.body:
            if isinstance(st, ast.Try):
                char += [ast.unparse(x) for x in strip_doc(st.body)]
                char += ['except ' + ('bare' if h.type is None else ast.unparse(h.type)) for h in st.handlers]
            else:
                char.append(ast.unparse(st))
    top = [type(st).__name__ for st in body]
    return dict(uses_position=uses_position, eval_args=eval_args, handlers=handlers, try_body=try_texts, int_tests=int_tests,
                last=last, char=char, top=top)


def guarded(notes, name, fn, default):
    try:
        return fn()
    except TranslationError as e:
        notes.append('{}: {}'.format(name, e))
        return default
    except Exception as e:          # any unexpected shape: same treatment
        notes.append('{}: internal {!r}'.format(name, e))
        return default


def emit(repo):
    path = os.path.join(repo, 'bronzebeard', 'asm.py')
    tree = ast.parse(open(path).read())
    fns = {n.name: n for n in tree.body if isinstance(n, ast.FunctionDef)}
    classes = {n.name: n for n in tree.body if isinstance(n, ast.ClassDef)}
    notes = []
    ev = guarded(notes, 'expr_eval', lambda: extract_evals(classes),
                 dict(checked=[], inner=[], offset='0', position='0', hi='?', lo='?'))
    pt, pr = guarded(notes, 'is_position_relative', lambda: extract_posrel(fns), ([], []))
    sp, sa, sc = guarded(notes, 'is_settled', lambda: extract_settled(fns), ([], [], []))
    cg = guarded(notes, 'compress_guard', lambda: extract_compress_guard(fns),
                 dict(env=[], skip='?', jump=[], imm='?', ref='?', settled=[], pred=[]))
    ri = guarded(notes, 'resolve_immediates', lambda: extract_resolve_immediates(fns),
                 dict(env=[], auipc='0', plain='0', skip_ok=False, advance=[], store=False))
    rl = guarded(notes, 'resolve_labels', lambda: extract_resolve_labels(fns), dict(dup=False, value='?', start=False, fresh=False))
    rc = guarded(notes, 'resolve_constants', lambda: extract_resolve_constants(fns), dict(env=[], eval=[], tests=[], store=False))
    ra = guarded(notes, 'resolve_register_aliases', lambda: extract_register_aliases(fns),
                 dict(regs=[], src='?', tests=[], assigns=[], update=False, rebuild='?', keeps=[], appends=False))
    ae = guarded(notes, 'arithmetic_eval', lambda: extract_arith_eval(classes),
                 dict(uses_position=True, eval_args=[], handlers=[], try_body=[], int_tests=[], last='?', char=[], top=[]))
    b = lambda x: 'true' if x else 'false'
    out = [HEADER.format(src='asm.py (Expr.eval methods, is_position_relative, is_settled, the guards of transform_compressible, '
                             'resolve_immediates, resolve_labels, resolve_constants)')]
    for n in notes:
        out.append('(* NOT UNDERSTOOD, table left at its sentinel: {} *)'.format(n.replace('*)', '* )')))
    out.append('(* ---- Expr.eval ---- *)')
    out.append('Definition offset_eval (dest position : Z) : Z := {}.'.format(ev['offset']))
    out.append('Definition position_eval (inner dest position : Z) : Z := {}.'.format(ev['position']))
    out.append('Definition hi_fn : string := {}.'.format(slit(ev['hi'])))
    out.append('Definition lo_fn : string := {}.'.format(slit(ev['lo'])))
    out.append('(* classes whose eval starts with `if self.reference not in env: raise AssemblerError(.., line)` *)')
    out.append('Definition ref_checked : list string := {}.'.format(slist(ev['checked'])))
    out.append('(* (class, arguments of the evaluation of the inner expression) *)')
    out.append('Definition inner_eval_args : list (string * list string) :=\n  [{}].'.format(
        '; '.join('({}, {})'.format(slit(c), slist(a)) for c, a in ev['inner'])))
    out.append('\n(* ---- is_position_relative ---- *)')
    out.append('Definition posrel_true : list string := {}.'.format(slist(pt)))
    out.append('Definition posrel_rec : list string := {}.'.format(slist(pr)))
    out.append('\n(* ---- is_settled(params): not position relative, then <expr>.eval(args) with `except X: return False` ---- *)')
    out.append('Definition settled_params : list string := {}.'.format(slist(sp)))
    out.append('Definition settled_eval_args : list string := {}.'.format(slist(sa)))
    out.append('Definition settled_catches : list string := {}.'.format(slist(sc)))
    out.append('\n(* ---- transform_compressible: the guard in front of the rule selection ---- *)')
    out.append('Definition cg_env : list string := {}.'.format(slist(cg['env'])))
    out.append('Definition cg_skip : string := {}.'.format(slit(cg['skip'])))
    out.append('Definition cg_jump_classes : list string := {}.'.format(slist(cg['jump'])))
    out.append('Definition cg_imm_class : string := {}.'.format(slit(cg['imm'])))
    out.append('Definition cg_ref_not_in : string := {}.'.format(slit(cg['ref'])))
    out.append('Definition cg_settled_args : list string := {}.'.format(slist(cg['settled'])))
    out.append('Definition cg_pred_args : list string := {}.'.format(slist(cg['pred'])))
    out.append('\n(* ---- resolve_immediates ---- *)')
    out.append('Definition ri_env : list string := {}.'.format(slist(ri['env'])))
    out.append('Definition ri_auipc_position (position : Z) : Z := {}.'.format(ri['auipc']))
    out.append('Definition ri_plain_position (position : Z) : Z := {}.'.format(ri['plain']))
    out.append('Definition ri_skip_without_imm : bool := {}.'.format(b(ri['skip_ok'])))
    out.append('Definition ri_advance : list string := {}.'.format(slist(ri['advance'])))
    out.append('Definition ri_stores_imm : bool := {}.'.format(b(ri['store'])))
    out.append('\n(* ---- resolve_labels ---- *)')
    out.append('Definition rl_duplicate_check : bool := {}.'.format(b(rl['dup'])))
    out.append('Definition rl_value : string := {}.'.format(slit(rl['value'])))
    out.append('Definition rl_starts_at_zero : bool := {}.'.format(b(rl['start'])))
    out.append('Definition rl_fresh_defined : bool := {}.'.format(b(rl['fresh'])))
    out.append('\n(* ---- resolve_constants ---- *)')
    out.append('Definition rc_env : list string := {}.'.format(slist(rc['env'])))
    out.append('Definition rc_eval_args : list string := {}.'.format(slist(rc['eval'])))
    out.append('Definition rc_tests : list string := {}.'.format(slist(rc['tests'])))
    out.append('Definition rc_stores : bool := {}.'.format(b(rc['store'])))
    out.append('\n(* ---- Arithmetic.eval ---- *)')
    out.append('Definition ae_uses_position : bool := {}.'.format(b(ae['uses_position'])))
    out.append('Definition ae_eval_args : list string := {}.'.format(slist(ae['eval_args'])))
    out.append('Definition ae_try_body : list string := {}.'.format(slist(ae['try_body'])))
    out.append('Definition ae_handlers : list string := {}.'.format(slist(ae['handlers'])))
    out.append('Definition ae_int_tests : list string := {}.'.format(slist(ae['int_tests'])))
    out.append('Definition ae_returns : string := {}.'.format(slit(ae['last'])))
    out.append('Definition ae_char_branch : list string := {}.'.format(slist(ae['char'])))
    out.append('Definition ae_statements : list string := {}.'.format(slist(ae['top'])))
    out.append('\n(* ---- resolve_register_aliases ---- *)')
    out.append('Definition ra_regs : list string := {}.'.format(slist(ra['regs'])))
    out.append('Definition ra_fields_from : string := {}.'.format(slit(ra['src'])))
    out.append('Definition ra_skip_tests : list string := {}.'.format(slist(ra['tests'])))
    out.append('Definition ra_assigns : list string := {}.'.format(slist(ra['assigns'])))
    out.append('Definition ra_updates_fields : bool := {}.'.format(b(ra['update'])))
    out.append('Definition ra_rebuild : string := {}.'.format(slit(ra['rebuild'])))
    out.append('Definition ra_keeps_item_when : list string := {}.'.format(slist(ra['keeps'])))
    out.append('Definition ra_appends_rebuilt : bool := {}.'.format(b(ra['appends'])))
    return '\n'.join(out) + '\n'


def units(repo):
    return [('Guards', lambda: emit(repo))]
