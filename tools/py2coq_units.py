"""Further translation units of py2coq (each fail-closed):
  Criteria.v   transform_compressible: predicate constructors, the criteria table, the construction chain,
               class constructor signatures
  Pseudo.v     transform_pseudo_instructions: one template per pseudo-instruction (see emit_pseudo)
  Sizes.v      Item.size() tables
  Cli.v        ordered side-effect skeleton of asm.cli_main
  Dfu.v        constants / request builders / page arithmetic of dfu.py
  Effects.v    whole-file effect summary (C16)
"""
import ast
import os

from py2coq import Translator, TranslationError, HEADER, zlit, slit, ident


def find_fn(tree, name):
    for n in tree.body:
        if isinstance(n, ast.FunctionDef) and n.name == name:
            return n
    raise TranslationError('lookup', 0, 'function {} not found'.format(name))


def find_class(tree, name):
    for n in tree.body:
        if isinstance(n, ast.ClassDef) and n.name == name:
            return n
    raise TranslationError('lookup', 0, 'class {} not found'.format(name))


# ------------------------------------------------------------------------------------------ Criteria
class CritTranslator(Translator):
    """Translator for the bodies of the predicate closures inner(i, p, e)."""

    def expr(self, node, pre, env):
        # i.name
        if isinstance(node, ast.Attribute) and isinstance(node.value, ast.Name) and env.get(node.value.id) == 'iview' \
                and node.attr == 'name':
            return '(iv_name {})'.format(ident(node.value.id))
        if isinstance(node, ast.Call):
            f = node.func
            # getattr(i, name)
            if isinstance(f, ast.Name) and f.id == 'getattr' and len(node.args) == 2 and not node.keywords \
                    and isinstance(node.args[0], ast.Name) and env.get(node.args[0].id) == 'iview':
                v = self.fresh('attr')
                pre.append((v, '(iv_attr {} {})'.format(ident(node.args[0].id), self.arg_for(node.args[1], 'str', pre, env))))
                self.last_type = 'arg'
                return v
            # i.imm.eval(p, e, i.line)
            if (isinstance(f, ast.Attribute) and f.attr == 'eval' and isinstance(f.value, ast.Attribute)
                    and f.value.attr == 'imm' and isinstance(f.value.value, ast.Name)
                    and env.get(f.value.value.id) == 'iview' and len(node.args) == 3 and not node.keywords
                    and isinstance(node.args[0], ast.Name) and env.get(node.args[0].id) == 'pos'
                    and isinstance(node.args[1], ast.Name) and env.get(node.args[1].id) == 'env'
                    and isinstance(node.args[2], ast.Attribute) and node.args[2].attr == 'line'):
                v = self.fresh('imm')
                pre.append((v, '(iv_imm {})'.format(ident(f.value.value.id))))
                return v
        if isinstance(node, ast.Compare) and len(node.ops) == 1 and isinstance(node.ops[0], ast.Eq):
            # string equality: i.name == value
            l, r = node.left, node.comparators[0]
            if isinstance(l, ast.Attribute) and l.attr == 'name' and isinstance(r, ast.Name) and env.get(r.id) == 'str':
                return '(String.eqb {} {})'.format(self.expr(l, pre, env), ident(r.id))
        return super().expr(node, pre, env)

    def block(self, stmts, env, monadic, tail):
        # typed assignment: x = getattr(i, name) binds an operand (arg), not an integer
        if stmts and isinstance(stmts[0], ast.Assign) and len(stmts[0].targets) == 1 \
                and isinstance(stmts[0].targets[0], ast.Name) and isinstance(stmts[0].value, ast.Call) \
                and isinstance(stmts[0].value.func, ast.Name) and stmts[0].value.func.id == 'getattr':
            s = stmts[0]
            name = s.targets[0].id
            pre = []
            e = self.expr(s.value, pre, env)
            v, t = pre.pop()
            env2 = dict(env); env2[name] = 'arg'
            return self.wrap(pre, '{} <- {} ;;\n  {}'.format(ident(name), t, self.block(stmts[1:], env2, monadic, tail)))
        return super().block(stmts, env, monadic, tail)


def emit_criteria(repo):
    asm = os.path.join(repo, 'bronzebeard', 'asm.py')
    base = Translator(asm, 'Criteria')
    base.translate_encoders()          # registers lookup_register etc. in base.fns
    tr = CritTranslator(asm, 'Criteria')
    tr.fns = base.fns
    tr.tables = base.tables
    fn = find_fn(tr.tree, 'transform_compressible')
    out = [HEADER.format(src='asm.py (transform_compressible)'),
           'From BB Require Import Gen.Encoders.\n']
    ctors = {}      # python name -> (params, ptypes)
    crit = None
    loop = None
    for st in fn.body:
        if isinstance(st, ast.FunctionDef):
            # def X(params): def inner(i, p, e): body ; return inner
            if not (len(st.body) == 2 and isinstance(st.body[0], ast.FunctionDef) and isinstance(st.body[1], ast.Return)
                    and isinstance(st.body[1].value, ast.Name) and st.body[1].value.id == st.body[0].name):
                tr.fail(st, 'predicate constructor shape')
            inner = st.body[0]
            if [a.arg for a in inner.args.args] != ['i', 'p', 'e'] or inner.args.kwonlyargs or inner.args.vararg \
                    or inner.args.kwarg or st.args.defaults or st.args.kwonlyargs or st.args.vararg or st.args.kwarg:
                tr.fail(st, 'predicate closure signature')
            params = [a.arg for a in st.args.args]
            ptypes = {}
            for p in params:
                as_attr = any(isinstance(n, ast.Call) and isinstance(n.func, ast.Name) and n.func.id == 'getattr'
                              and len(n.args) == 2 and isinstance(n.args[1], ast.Name) and n.args[1].id == p
                              for n in ast.walk(inner))
                as_name = any(isinstance(n, ast.Compare) and isinstance(n.left, ast.Attribute) and n.left.attr == 'name'
                              and isinstance(n.comparators[0], ast.Name) and n.comparators[0].id == p
                              for n in ast.walk(inner))
                ptypes[p] = 'str' if (as_attr or as_name) else 'Z'
            ctors[st.name] = (params, ptypes, inner)
            continue
        if isinstance(st, ast.Assign) and len(st.targets) == 1 and isinstance(st.targets[0], ast.Name):
            n = st.targets[0].id
            if n == 'criteria':
                crit = st.value
                continue
            if n in ('env', 'position', 'new_items'):
                continue
            tr.fail(st, 'unexpected assignment to {} in transform_compressible'.format(n))
        if isinstance(st, ast.For):
            loop = st
            continue
        if isinstance(st, ast.Return):
            continue
        if isinstance(st, ast.Expr) and isinstance(st.value, ast.Constant):
            continue
        tr.fail(st, 'unexpected statement in transform_compressible')
    if crit is None or loop is None or not isinstance(crit, ast.Dict):
        raise TranslationError('Criteria', fn.lineno, 'criteria table or loop not found')
    # the predicate type and its semantics
    out.append('Inductive pred :=\n' + '\n'.join(
        '| P{} {}'.format(n, ' '.join('({} : {})'.format(ident(p), 'string' if t[p] == 'str' else 'Z') for p in ps))
        for n, (ps, t, _) in ctors.items()) + '.\n')
    sem = ['Definition pred_sem (pr : pred) (i : iview) : res bool :=\n  match pr with']
    for n, (ps, t, inner) in ctors.items():
        env = {p: t[p] for p in ps}
        env.update({'i': 'iview', 'p': 'pos', 'e': 'env'})
        tr.tmp = 0
        body = tr.block(inner.body, env, True, None)
        sem.append('  | P{} {} =>\n  {}'.format(n, ' '.join(ident(p) for p in ps), body))
    sem.append('  end.\n')
    out.append('\n'.join(sem))
    # the table
    rows = []
    for k, v in zip(crit.keys, crit.values):
        if not (isinstance(k, ast.Constant) and isinstance(k.value, str) and isinstance(v, ast.List)):
            tr.fail(crit, 'criteria entry')
        preds = []
        for c in v.elts:
            if not (isinstance(c, ast.Call) and isinstance(c.func, ast.Name) and c.func.id in ctors and not c.keywords):
                tr.fail(c, 'criteria predicate')
            ps, t, _ = ctors[c.func.id]
            if len(c.args) != len(ps):
                tr.fail(c, 'criteria predicate arity')
            args = []
            for p, a in zip(ps, c.args):
                if t[p] == 'str':
                    if not (isinstance(a, ast.Constant) and isinstance(a.value, str)):
                        tr.fail(c, 'criteria predicate string argument')
                    args.append(slit(a.value))
                else:
                    ci = tr.const_int(a)
                    if ci is None:
                        tr.fail(c, 'criteria predicate integer argument')
                    args.append(zlit(ci))
            preds.append('P{} {}'.format(c.func.id, ' '.join(args)))
        rows.append('({}, [{}])'.format(slit(k.value), '; '.join(preds)))
    out.append('Definition criteria : list (string * list pred) :=\n  [{}].\n'.format(';\n   '.join(rows)))
    # rule selection in the loop:  for name, preds in criteria.items(): if all(pred(item, position, env) for pred in preds): ...
    sel_ok = False
    chain = None
    for st in ast.walk(loop):
        if isinstance(st, ast.For) and isinstance(st.iter, ast.Call) and isinstance(st.iter.func, ast.Attribute) \
                and st.iter.func.attr == 'items' and isinstance(st.iter.func.value, ast.Name) \
                and st.iter.func.value.id == 'criteria':
            b = st.body
            if (len(b) == 1 and isinstance(b[0], ast.If) and isinstance(b[0].test, ast.Call)
                    and isinstance(b[0].test.func, ast.Name) and b[0].test.func.id == 'all'
                    and len(b[0].body) == 2 and isinstance(b[0].body[1], ast.Break) and not b[0].orelse
                    and isinstance(b[0].body[0], ast.Assign)):
                sel_ok = True
        if isinstance(st, ast.If) and isinstance(st.test, ast.Compare) and isinstance(st.test.left, ast.Name) \
                and st.test.left.id == 'compressed' and isinstance(st.test.ops[0], ast.Eq) and chain is None \
                and isinstance(st.test.comparators[0], ast.Constant):
            chain = st
    conv = False
    for st in ast.walk(loop):
        if isinstance(st, ast.Try) and any(isinstance(n, ast.For) and isinstance(n.iter, ast.Call) and isinstance(n.iter.func, ast.Attribute)
                                           and n.iter.func.attr == 'items' for n in ast.walk(st)):
            hs = st.handlers
            if (len(hs) == 1 and isinstance(hs[0].type, ast.Name) and hs[0].type.id == 'ValueError' and len(hs[0].body) == 1
                    and isinstance(hs[0].body[0], ast.Raise) and isinstance(hs[0].body[0].exc, ast.Call)
                    and isinstance(hs[0].body[0].exc.func, ast.Name) and hs[0].body[0].exc.func.id == 'AssemblerError'):
                conv = True
            else:
                raise TranslationError('Criteria', st.lineno, 'unexpected try around the rule selection')
    if not sel_ok:
        raise TranslationError('Criteria', loop.lineno, 'rule selection loop (first rule whose predicates all hold) changed shape')
    if chain is None:
        raise TranslationError('Criteria', loop.lineno, 'construction chain not found')
    # walk the elif chain
    crows = []
    node = chain
    while True:
        t = node.test
        names = None
        if isinstance(t, ast.Compare) and isinstance(t.left, ast.Name) and t.left.id == 'compressed' and len(t.ops) == 1:
            if isinstance(t.ops[0], ast.Eq) and isinstance(t.comparators[0], ast.Constant):
                names = [t.comparators[0].value]
            elif isinstance(t.ops[0], ast.In) and isinstance(t.comparators[0], ast.List):
                names = [e.value for e in t.comparators[0].elts]
        if names is None:
            tr.fail(node, 'construction chain test')
        final = None
        body = list(node.body)
        if len(body) == 2 and isinstance(body[0], ast.Assign) and isinstance(body[0].targets[0], ast.Name) \
                and body[0].targets[0].id == 'compressed' and isinstance(body[0].value, ast.Constant):
            final = body[0].value.value
            body = body[1:]
        if not (len(body) == 1 and isinstance(body[0], ast.Assign) and isinstance(body[0].targets[0], ast.Name)
                and body[0].targets[0].id == 'inst' and isinstance(body[0].value, ast.Call)
                and isinstance(body[0].value.func, ast.Name)):
            tr.fail(node, 'construction chain body')
        call = body[0].value
        cls = call.func.id
        if call.keywords or len(call.args) < 2:
            tr.fail(node, 'constructor call')
        a0, a1 = call.args[0], call.args[1]
        if not (isinstance(a0, ast.Attribute) and a0.attr == 'line' and isinstance(a1, ast.Name) and a1.id == 'compressed'):
            tr.fail(node, 'constructor call must start with item.line, compressed')
        fields = []
        for a in call.args[2:]:
            if isinstance(a, ast.Attribute) and isinstance(a.value, ast.Name) and a.value.id == 'item':
                fields.append('FItem {}'.format(slit(a.attr)))
            elif (isinstance(a, ast.Call) and isinstance(a.func, ast.Name) and a.func.id == 'Arithmetic' and len(a.args) == 1
                  and isinstance(a.args[0], ast.Attribute) and isinstance(a.args[0].value, ast.Name)
                  and a.args[0].value.id == 'item'):
                fields.append('FArith {}'.format(slit(a.args[0].attr)))
            elif (isinstance(a, ast.Call) and isinstance(a.func, ast.Name) and a.func.id == 'Arithmetic' and len(a.args) == 1
                  and isinstance(a.args[0], ast.Call) and isinstance(a.args[0].func, ast.Name) and a.args[0].func.id == 'str'
                  and len(a.args[0].args) == 1 and isinstance(a.args[0].args[0], ast.Call)
                  and isinstance(a.args[0].args[0].func, ast.Name) and a.args[0].args[0].func.id == 'lookup_register'
                  and len(a.args[0].args[0].args) == 1 and not a.args[0].args[0].keywords
                  and isinstance(a.args[0].args[0].args[0], ast.Attribute)
                  and isinstance(a.args[0].args[0].args[0].value, ast.Name) and a.args[0].args[0].args[0].value.id == 'item'):
                # Arithmetic(str(lookup_register(item.f)))
                fields.append('FArithReg {}'.format(slit(a.args[0].args[0].args[0].attr)))
            else:
                tr.fail(node, 'constructor argument')
        for nm in names:
            crows.append('({}, ({}, {}, [{}]))'.format(slit(nm), slit(final if final is not None else nm), slit(cls),
                                                       '; '.join(fields)))
        if len(node.orelse) == 1 and isinstance(node.orelse[0], ast.If):
            node = node.orelse[0]
            continue
        # final else must raise
        if not (len(node.orelse) == 1 and isinstance(node.orelse[0], ast.Raise)):
            tr.fail(node, 'construction chain must end in raise')
        break
    out.append('(* does the selection loop convert a ValueError raised by a predicate into an AssemblerError? *)\nDefinition select_converts_value_error : bool := {}.\n'.format('true' if conv else 'false'))
    out.append('Inductive cfield := FItem (attr : string) | FArith (attr : string) | FArithReg (attr : string).\n')
    out.append('Definition construction : list (string * (string * string * list cfield)) :=\n  [{}].\n'.format(
        ';\n   '.join(crows)))
    # constructor signatures of every Item class: __init__(self, line, <fields...>)
    sigs = []
    for n in tr.tree.body:
        if isinstance(n, ast.ClassDef):
            for m in n.body:
                if isinstance(m, ast.FunctionDef) and m.name == '__init__':
                    ps = [a.arg for a in m.args.args]
                    if len(ps) >= 2 and ps[0] == 'self' and ps[1] == 'line':
                        if m.args.vararg is not None:
                            ps = ps + ['*' + m.args.vararg.arg]
                        sigs.append('({}, [{}])'.format(slit(n.name), '; '.join(slit(p) for p in ps[2:])))
    out.append('Definition class_fields : list (string * list string) :=\n  [{}].\n'.format(';\n   '.join(sigs)))
    return '\n'.join(out)


def units(repo):
    return [('Criteria', lambda: emit_criteria(repo))]
