"""Structured generator of assembly programs (layout-heavy): instructions, every pseudo-instruction kind, data,
aligns, gaps; label references at every distance class, forward and backward.  Deterministic from a Random."""

REGS_C = ['x8', 'x9', 'x10', 'x11', 'x12', 'x13', 'x14', 'x15', 's0', 's1', 'a0', 'a5']
REGS_ANY = ['x0', 'x1', 'x2', 'x5', 'x6', 'x7', 'x16', 'x31', 'ra', 'sp', 't0', 't6', 'zero'] + REGS_C

# gap sizes hitting the edges of the branch / c.branch / c.j / jal / call ranges
GAPS_SMALL = [0, 0, 0, 2, 4, 6, 8, 30, 62, 120, 126, 128, 250, 252, 254, 256, 258]
GAPS_MED = [2040, 2042, 2044, 2046, 2048, 2050, 4086, 4088, 4090, 4092, 4094, 4096, 4098, 4100]
GAPS_BIG = [1048562, 1048564, 1048568, 1048570, 1048572, 1048574, 1048576, 1048578, 1048580, 2 * 1048576 + 6, 1052668, 1050620]


def filler(rng, compressible=None):
    """One non-reference instruction line."""
    r = rng.random()
    rc = lambda: rng.choice(REGS_C)
    ra = lambda: rng.choice(REGS_ANY)
    k = rng.randrange(16)
    if k == 0:
        d = rc(); return 'addi {}, {}, {}'.format(d, d, rng.choice([1, -1, 31, -32, 32, -33, 5]))
    if k == 1:
        return 'add {}, {}, {}'.format(ra(), ra(), ra())
    if k == 2:
        d = rc(); return 'and {}, {}, {}'.format(d, d, rc())
    if k == 3:
        return 'lw {}, {}({})'.format(rc(), rng.choice([0, 4, 124, 128, 2, -4, 2047]), rng.choice(REGS_C + ['sp']))
    if k == 4:
        return 'sw {}, {}({})'.format(rc(), rng.choice([0, 4, 124, 128, 252, 256]), rng.choice(REGS_C + ['sp']))
    if k == 5:
        d = ra(); return 'slli {}, {}, {}'.format(d, d, rng.choice([1, 5, 31]))
    if k == 6:
        return 'lui {}, {}'.format(ra(), rng.choice([1, 31, 32, 0xfffff, 0xfffe0, 0x12345, 0]))
    if k == 7:
        return rng.choice(['nop', 'ret', 'ebreak', 'ecall', 'fence', 'fence.i'])
    if k == 8:
        return '{} {}, {}'.format(rng.choice(['mv', 'not', 'neg', 'seqz', 'snez', 'sltz', 'sgtz']), ra(), ra())
    if k == 9:
        return 'li {}, {}'.format(ra(), rng.choice([0, 1, -1, 2047, 2048, -2048, -2049, 0x12345678, 0x7ffff800, 0xffffffff, -0x80000000, 31, -32, 0x1000, 0xfffff000]))
    if k == 10:
        return rng.choice(['jr', 'jalr']) + ' ' + ra()
    if k == 11:
        return 'xor {}, {}, {}'.format(ra(), ra(), ra())
    if k == 12:
        return 'addi sp, sp, {}'.format(rng.choice([16, -16, 496, -512, 512, 8, 0]))
    if k == 13:
        return 'addi {}, sp, {}'.format(rc(), rng.choice([4, 1020, 1024, 0, 6]))
    if k == 14:
        d = rc(); return '{} {}, {}, {}'.format(rng.choice(['srli', 'srai', 'andi']), d, d, rng.choice([1, 31, 7]))
    return 'sub {}, {}, {}'.format(ra(), ra(), ra())


def data_line(rng):
    k = rng.randrange(8)
    if k == 0:
        return 'db {}'.format(rng.choice([0, 1, 255, -1, -128, 0x7f]))
    if k == 1:
        return 'dh {}'.format(rng.choice([0, 0xffff, -1, 0x1234]))
    if k == 2:
        return 'dw {}'.format(rng.choice([0, 0xffffffff, -1, 0xdeadbeef]))
    if k == 3:
        return 'bytes 1 2 3 0xff {}'.format(rng.choice(['', '-1', '0b101']))
    if k == 4:
        return 'shorts 0x1234 -2'
    if k == 5:
        return 'string ' + rng.choice(['hello', 'a', 'ab', 'hello world', 'x' * 7, 'tab\\there', '', '\u00e9\u00e9', 'na\u00efve!', '\u4e2d\u6587', '\U0001f600', 'caf\u00e9s'])
    if k == 6:
        # also formats WITHOUT a byte-order character (native sizes: l / L / q are 8 bytes on the 64-bit hosts) and with the other prefixes
        return 'pack {}{} {}'.format(rng.choice(['<', '<', '<', '>', '', '', '=', '!', '@']), rng.choice(['B', 'H', 'I', 'h', 'i', 'b', 'L', 'l', 'q', 'Q']),
                                      rng.choice([0, 1, 100, 127]))
    return 'dd 0x1122334455667788'


def gap_line(n):
    if n <= 0:
        return None
    return 'string ' + 'g' * n


def reference(rng, label, cls):
    t, k = _reference(rng, label, cls)
    return t, k


def _reference(rng, label, cls):
    """A line referring to `label`; cls in {'near', 'mid', 'far'} steers the kind towards one that fits."""
    rc = lambda: rng.choice(REGS_C)
    ra = lambda: rng.choice(REGS_ANY)
    kinds_near = ['beq', 'bne', 'blt', 'bge', 'bltu', 'bgeu', 'beqz', 'bnez', 'blez', 'bgez', 'bltz', 'bgtz', 'bgt', 'ble',
                  'bgtu', 'bleu', 'cbeqz', 'j', 'jal', 'jalx', 'call', 'tail', 'xcj', 'xcjal', 'xcbeqz', 'xcbnez']
    kinds_mid = ['j', 'jal', 'jalx', 'call', 'tail', 'j', 'jal', 'call', 'tail', 'beq', 'bnez', 'xcj', 'xcjal']
    kinds_far = ['j', 'jal', 'jalx', 'call', 'tail', 'call', 'tail', 'li', 'hi_lo', 'dw', 'auipc']
    pool = {'near': kinds_near, 'mid': kinds_mid, 'far': kinds_far}[cls]
    if rng.random() < 0.05:
        pool = kinds_near + kinds_far + ['li', 'hi_lo', 'dw', 'auipc', 'pos', 'lwl']
    k = rng.choice(pool)
    if k in ('beq', 'bne', 'blt', 'bge', 'bltu', 'bgeu'):
        return '{} {}, {}, {}'.format(k, ra(), ra(), label), k
    if k == 'cbeqz':
        return '{} {}, x0, {}'.format(rng.choice(['beq', 'bne']), rc(), label), k
    if k in ('beqz', 'bnez', 'blez', 'bgez', 'bltz', 'bgtz'):
        return '{} {}, {}'.format(k, rng.choice(REGS_ANY), label), k
    if k in ('bgt', 'ble', 'bgtu', 'bleu'):
        return '{} {}, {}, {}'.format(k, ra(), ra(), label), k
    if k in ('j', 'jal', 'call', 'tail'):
        return '{} {}'.format(k, label), k
    if k == 'jalx':
        return 'jal {}, {}'.format(rng.choice(['x0', 'x1', 'ra', 'x5', 'zero']), label), k
    # EXPLICITLY written compressed transfers with the label as operand (D28)
    if k == 'xcj':
        return 'c.j {}'.format(label), k
    if k == 'xcjal':
        return 'c.jal {}'.format(label), k
    if k in ('xcbeqz', 'xcbnez'):
        return 'c.{} {}, {}'.format(k[2:], rc(), label), k
    if k == 'li':
        return 'li {}, {}'.format(ra(), rng.choice([label, '%position({}, 0x08000000)'.format(label), '{} + 4'.format(label), '%offset({})'.format(label), '%offset {}'.format(label)])), k
    if k == 'hi_lo':
        r = ra()
        e = rng.choice(['%position({}, 0x20000000)'.format(label), label, '%offset({})'.format(label)])
        return 'lui {r}, %hi({e})\naddi {r}, {r}, %lo({e})'.format(r=r, e=e), k
    if k == 'auipc':
        return 'auipc {}, %hi(%offset({}))'.format(ra(), label), k
    if k == 'dw':
        return rng.choice(['dw {}', 'dw %offset({})', 'dw %position({}, 0x1000)', 'pack <I {}', 'dd {}']).format(label), k
    if k == 'pos':
        return 'addi {}, x0, %lo(%position({}, 4))'.format(ra(), label), k
    if k == 'lwl':
        return 'lw {}, {}, {}'.format(rc(), rc(), label), k
    return 'j ' + label, 'j'


def program(rng, size='small', big_gap=False, aligns=True, data=True, consts=True):
    """Returns the source text.  size: 'small' (8-25 lines) / 'medium' (25-70)."""
    nseg = rng.randrange(2, 6) if size == 'small' else rng.randrange(5, 12)
    lines = []
    labels = ['L%d' % i for i in range(nseg)]
    if consts and rng.random() < 0.4:
        lines.append('K = {}'.format(rng.choice([4, 16, 0x100, -8, '2 * 8', '1 << 4'])))
        lines.append('R = {}'.format(rng.choice(['x9', 's0', 'a0', '8', 'x15'])))
    gap_budget = 1 if big_gap else 0
    seg_start = []
    for i in range(nseg):
        seg_start.append(len(lines))
        lines.append(labels[i] + ':')
        for _ in range(rng.randrange(0, 5)):
            r = rng.random()
            if r < 0.55:
                lines.append(filler(rng))
            elif r < 0.70 and data:
                lines.append(data_line(rng))
                if rng.random() < 0.9:
                    lines.append('align {}'.format(rng.choice([2, 4, 4, 8])))
            elif r < 0.80 and aligns:
                lines.append('align {}'.format(rng.choice([2, 4, 4, 8, 16, 64, 256, 4096])))
            else:
                # a reference: choose target and a kind that probably fits
                tgt = rng.randrange(nseg)
                lines.append(('REF', tgt))
        r = rng.random()
        if gap_budget and r < 0.4:
            gap_budget -= 1
            lines.append(('GAP', rng.choice(GAPS_BIG), 'far'))
        elif r < 0.25:
            lines.append(('GAP', rng.choice(GAPS_MED), 'mid'))
        elif r < 0.6:
            lines.append(('GAP', rng.choice(GAPS_SMALL), 'near'))
    # resolve REF / GAP placeholders
    out = []
    meta = []
    # rough segment distance classes
    gaps_after = {}
    seg = -1
    cls_of_seg = []
    for ln in lines:
        if isinstance(ln, str) and ln.endswith(':') and ln[:-1] in labels:
            seg += 1
            cls_of_seg.append('near')
        elif isinstance(ln, tuple) and ln[0] == 'GAP':
            cls_of_seg[seg] = ln[2]
    seg = -1
    for ln in lines:
        if isinstance(ln, str):
            if ln.endswith(':') and ln[:-1] in labels:
                seg += 1
            out.append(ln)
        elif ln[0] == 'GAP':
            g = gap_line(ln[1])
            if g is not None:
                # keep instruction alignment: odd gaps are never generated
                out.append(g)
        else:
            tgt = ln[1]
            lo, hi = min(seg, tgt), max(seg, tgt)
            classes = cls_of_seg[lo:hi]
            cls = 'far' if 'far' in classes else 'mid' if 'mid' in classes else 'near'
            text, kind = reference(rng, labels[tgt], cls)
            lineno = sum(x.count('\n') + 1 for x in out) + 1
            meta.append({'line': lineno, 'kind': kind, 'label': labels[tgt], 'text': text})
            out.append(text)
    if rng.random() < 0.3 and aligns:
        out.append('align 4')
    return '\n'.join(out) + '\n', meta


NSCEN = 23


def scenarios(rng, n):
    """Programs in which an early decision (li / call / tail size, a compression rule) is taken on a label-dependent
    value that later moves, or whose shape otherwise needs something specific.  Returns [(source, meta)]."""
    out = []
    def add(src, meta=None):
        out.append((src if src.endswith('\n') else src + '\n', meta or []))
    # deterministic sweep (always present): a CONSTANT as jump / branch / call target just inside the compressed reach at
    # decision time, with something in front of the jump that shrinks afterwards
    for kind, edge in [('j', 2046), ('jal', 2046), ('beqz x8,', 254), ('bnez x9,', 254), ('jal ra,', 2046), ('jal zero,', 2046)]:
        for pad, fill in ((16, 'addi x8, x8, 1\n'), (64, 'nop\n')):
            for delta in (0, 2, 4, pad // 2, pad - 2, pad):
                C = edge + pad + pad // 2 + delta
                add('C = {}\n'.format(C) + fill * (pad // 4) + 'align {}\n{} C\n'.format(pad, kind))
        for pre, cval in (('li t0, 1\n', edge + 8), ('li t0, 1\nli t1, 2\n', edge + 12), ('addi a0, a0, 1\nalign 4\n', edge + 6)):
            add('ENTRY = {}\n{}{} ENTRY\n'.format(cval, pre, kind))
    # deterministic sweep (always present): EXPLICITLY written compressed transfers to a label, forward and backward, with plain
    # and compressible filler in between, up to the edge of their reach (c.j / c.jal +-2 KiB, c.beqz / c.bnez +-256 B) (D28)
    for kind, ins, reach in (('xcj', 'c.j', 2046), ('xcjal', 'c.jal', 2046), ('xcbeqz', 'c.beqz x8,', 254), ('xcbnez', 'c.bnez a5,', 254)):
        text = '{} T'.format(ins)
        def body(dist, fill):
            if fill is None:
                return 'string {}\n'.format('g' * dist) if dist else ''
            return fill * (dist // 4)
        # forward: the transfer (2 bytes), `dist` bytes, the label: offset dist + 2 <= reach
        for dist, fill in ((0, None), (2, None), (4, 'lui x5, 0x12345\n'), (8, 'addi x8, x8, 1\n'), (reach - 2, 'addi x8, x8, 1\n'), (reach - 2, None)):
            add('lui x6, 1\n{}\n{}T:\nret\n'.format(text, body(dist, fill)), [{'line': 2, 'kind': kind, 'label': 'T', 'text': text}])
        # backward: the label, `dist` bytes, the transfer: offset -dist >= -reach - 2
        for dist, fill in ((2, None), (4, 'lui x5, 0x12345\n'), (8, 'addi x8, x8, 1\n'), (reach - 2, 'addi x8, x8, 1\n'), (reach, None), (reach + 2, None)):
            b_ = body(dist, fill)
            add('lui x6, 1\nT:\n{}{}\nret\n'.format(b_, text), [{'line': 3 + b_.count('\n'), 'kind': kind, 'label': 'T', 'text': text}])
    for k in range(n):
        t = k % NSCEN
        j = k // NSCEN          # deterministic walk through the parameter lists
        if t == 0:
            # li of a value that grows when the label moves down (decision on the pessimistic label)
            cnt = rng.randrange(1, 12)
            C = 2047 + 4 + 4 * cnt + rng.randrange(-6, 8 * cnt + 6)
            src = 'li t0, {} - L\n'.format(C) + 'li x5, 1\n' * cnt + 'L:\n'
            add(src, [{'line': 1, 'kind': 'li', 'label': 'L', 'text': 'li t0, {} - L'.format(C)}])
        elif t == 1:
            # load / store whose offset is a bare label, followed by something that shrinks
            reg = rng.choice(['x8', 'x9', 'sp'])
            body = rng.choice(['add x5, x6, x7', 'li x5, 1', 'nop', 'addi x8, x8, 1'])
            src = '{} x8, {}, L\n{}\nL:\n'.format(rng.choice(['lw', 'sw']), reg, body)
            add(src, [{'line': 1, 'kind': 'lwl', 'label': 'L', 'text': src.split('\n')[0]}])
        elif t == 2:
            # immediate that is zero only at the pessimistic label value (rules that drop a zero immediate)
            cnt = rng.randrange(1, 5)
            pess = 4 + 8 * cnt
            ins = rng.choice(['addi x5, x6, L - {}', 'jalr x0, x5, L - {}', 'jalr x1, x5, L - {}', 'addi x0, x0, L - {}']).format(pess)
            src = ins + '\n' + 'li x7, 1\n' * cnt + 'L:\n'
            add(src, [{'line': 1, 'kind': 'dropzero', 'label': 'L', 'text': ins, 'pess': pess}])
        elif t == 3:
            # far call / tail with chosen low offset bits
            lows = [4, 0x800, 0x802, 0, 2, 6, 0x7fc, 0x7fe, 0x804, 0x806, 0xffc, 0xffe, 0x7f8, 0x7fa]
            low = lows[j % len(lows)]
            N = (1 << 20) + 4096 * rng.randrange(0, 3) + low
            pre = rng.choice(['', 'nop\n', 'addi x8, x8, 1\n', 'li x5, 1\nli x6, 2\n'])
            kind = rng.choice(['call', 'tail'])
            src = pre + '{} far\nstring {}\nfar:\nret\n'.format(kind, 'g' * (N - 8))
            line = pre.count('\n') + 1
            add(src, [{'line': line, 'kind': kind, 'label': 'far', 'text': kind + ' far'}])
        elif t == 4:
            # backwards far call / tail
            lows = [0x800, 4, 0x802, 0, 2, 0x7fc, 0x7fe, 0xffc]
            low = lows[j % len(lows)]
            N = (1 << 20) + low
            kind = rng.choice(['call', 'tail'])
            src = 'far:\nret\nstring {}\n{} far\n'.format('g' * (N - 4), kind)
            add(src, [{'line': 4, 'kind': kind, 'label': 'far', 'text': kind + ' far'}])
        elif t == 5:
            # shift amounts spelled as constants / register names / literals
            shs = ['SH', 't0', '3', 'x5', '0x3', 'BIG', '31', 'zero', 'NONE']
            sh = shs[j % len(shs)]
            ins = rng.choice(['slli', 'srli', 'srai'])
            rd = rng.choice(['x8', 'x9', 'x5'])
            src = 'SH = 3\nBIG = 31\nNONE = 0\n{} {}, {}, {}\n'.format(ins, rd, rd, sh)
            add(src)
        elif t == 6:
            # register aliases and constants in operand positions
            # (a constant whose value is 0 -- the zero register, offset 0 -- is falsy in Python: seeded change C11-r4)
            base = ['x9', 'zero', 'x0', 'a1'][j % 4]
            dst = ['s0', 's0', '4 - 4', 'x0'][(j // 2) % 4]
            off = [8, 0, 8, 0][(j // 3) % 4]
            src = ('BASE = {}\nDST = {}\nOFF = {}\nlw DST, OFF(BASE)\naddi DST, DST, OFF\nsw BASE, DST, OFF\nli DST, OFF * 4\n'
                   'add DST, BASE, DST\nbeq BASE, DST, 8\n').format(base, dst, off)
            add(src)
        elif t == 7:
            # branch right at the compressed branch range edge, with compressible filler in between
            cnt = rng.randrange(120, 132)
            src = 'beq x8, x0, T\n' + 'addi x8, x8, 1\n' * cnt + 'T:\nret\n'
            add(src, [{'line': 1, 'kind': 'beq', 'label': 'T', 'text': 'beq x8, x0, T'}])
        elif t == 8:
            cnt = rng.randrange(1018, 1030)
            src = 'j T\n' + 'addi x8, x8, 1\n' * cnt + 'T:\nret\n'
            add(src, [{'line': 1, 'kind': 'j', 'label': 'T', 'text': 'j T'}])
        elif t == 9:
            # aligns after shrinking items: label after align
            src = 'li x5, 1\n' * rng.randrange(1, 4) + 'align {}\nA:\nj A\ncall A\ndw A\n'.format(rng.choice([4, 8, 16, 6, 3]))
            ln = src.split('\n')
            add(src, [{'line': ln.index('j A') + 1, 'kind': 'j', 'label': 'A', 'text': 'j A'},
                      {'line': ln.index('call A') + 1, 'kind': 'call', 'label': 'A', 'text': 'call A'},
                      {'line': ln.index('dw A') + 1, 'kind': 'dw', 'label': 'A', 'text': 'dw A'}])
        elif t == 10:
            # li of label-dependent values near both thresholds
            cnt = rng.randrange(0, 6)
            e = rng.choice(['L + {}'.format(2047 - 4 - 4 * cnt + rng.randrange(-4, 12)), 'L', '0 - L', 'L * 256', '%position(L, 2040)'])
            src = 'li t0, {}\n'.format(e) + 'li x5, 1\n' * cnt + 'L:\n'
            add(src)
        elif t == 11:
            # call / tail right at the 1 MiB threshold with shrinking items in between
            cnt = rng.randrange(0, 4)
            N = (1 << 20) - 4 - 8 * cnt + rng.choice([-8, -4, -2, 0, 2, 4, 8])
            kind = rng.choice(['call', 'tail'])
            src = '{} far\n'.format(kind) + 'li x5, 1\n' * cnt + 'string {}\nfar:\nret\n'.format('g' * N)
            add(src, [{'line': 1, 'kind': kind, 'label': 'far', 'text': kind + ' far'}])
        elif t == 12:
            # compressed-eligible instruction whose immediate is a constant expression
            src = 'K = 4\naddi x8, x8, K\nlw x8, K*2(x9)\naddi sp, sp, K * 4\nandi x8, x8, K - 5\n'
            add(src)
        elif t == 14:
            # a CONSTANT as jump / branch target (an absolute position): the distance grows when the items in front
            # of the jump shrink after the decision (aligns, second compression round)
            kind, edge = [('j', 2046), ('jal', 2046), ('beqz x8,', 254), ('bnez x9,', 254), ('call', 1048574), ('tail', 1048574)][j % 6]
            pad = rng.choice([16, 32, 64])
            fill = rng.choice(['nop\n', 'addi x8, x8, 1\n', 'mv x5, x6\n'])
            C = edge + pad + pad // 2 + rng.choice([0, 2, 4, 8, pad // 2, pad - 2, pad])
            src = 'C = {}\n'.format(C) + fill * (pad // 4) + 'align {}\n{} C\n'.format(pad, kind)
            add(src)
        elif t == 15:
            # li of a position-relative value of a constant: moves when the li itself moves
            pad = rng.choice([16, 32, 64])
            C = 2047 + pad + rng.randrange(-6, pad + 6)
            text = 'li t1, %offset C'
            src = 'C = {}\n'.format(C) + 'nop\n' * (pad // 4) + 'align {}\n{}\n'.format(pad, text)
            add(src, [{'line': pad // 4 + 3, 'kind': 'li_off_const', 'label': None, 'const': C, 'text': text}])
        elif t == 16:
            # explicit %offset in an instruction that is not a jump: rules with != 0 / multiple-of tests
            ins = ['addi x8, x8, %offset L', 'addi x0, x0, %offset L', 'lw x8, x9, %offset L', 'addi x2, x2, %offset L',
                   'jalr x0, x5, %offset L', 'andi x8, x8, %offset L'][j % 6]
            if j % 2 == 0:
                src = 'L:\nalign {}\n{}\n'.format(rng.choice([4, 8, 16]), ins)
            else:
                src = '{}\nadd x5, x5, x6\nalign {}\nL:\n'.format(ins, rng.choice([4, 8, 16]))
            add(src)
        elif t == 17:
            # a label sitting exactly where an align starts (end marker of a table, then the next block is aligned),
            # referenced from both sides: only what is BEHIND the align may move when its padding settles
            lead = rng.choice([0, 1, 2, 3, 5, 6])
            n = rng.choice([2, 4, 8, 16])
            pre = ['j mark', 'call mark'] if lead % 2 == 0 else []
            lines = pre + (['bytes ' + ' '.join(['1'] * lead)] if lead else []) + ['mark:', 'align {}'.format(n), 'after:',
                     'dw mark', 'li t0, mark', 'dw after', 'j after'] + (['j mark', 'tail mark'] if (lead % 2 == 0) else [])
            src = '\n'.join(lines) + '\n'
            meta = []
            for i, l in enumerate(lines, start=1):
                if l in ('dw mark', 'dw after'):
                    meta.append({'line': i, 'kind': 'dw', 'label': l.split()[1], 'text': l})
                elif l == 'li t0, mark':
                    meta.append({'line': i, 'kind': 'li', 'label': 'mark', 'text': l})
                elif l.split()[0] in ('j', 'call', 'tail'):
                    meta.append({'line': i, 'kind': l.split()[0], 'label': l.split()[1], 'text': l})
            add(src, meta)
        elif t == 18:
            # pseudo-instructions with LITERAL operands whose expansion (or one half of it) is compressible
            rd = rng.choice(['x8', 'x9', 't0', 'a5', 'sp', 'x1'])
            hi = rng.choice([1, 0x40021, 0x20004, 0x7ffff, 0xfffff, 0x12345])
            lo = rng.choice([1, 4, 8, 12, 24, 31, -1, -4, -32, 16, -16, 496, -512, 0])
            lines = ['li {}, {}'.format(rd, (hi << 12) + lo), 'li {}, {}'.format(rng.choice(['x8', 't1', 'a0']), rng.choice([0, 1, 31, -32, -1])),
                     'mv {}, {}'.format(rng.choice(['x8', 'a0', 't0']), rng.choice(['x9', 'a1', 'x0'])), 'nop', 'ret', 'jr t0', 'jalr a5',
                     'li {}, {}'.format(rd, rng.choice([2047, -2048, 32, -33]))]
            rng.shuffle(lines)
            add('\n'.join(lines) + '\n')
        elif t == 19:
            # two-instruction expansions (far tail / call to an absolute address, long li) in FRONT of a label that is
            # directly followed by a shrinking pseudo-instruction: the running position of the pass must count both halves
            k = 1 + j % 2
            far = rng.choice(['tail FAR', 'call FAR', 'li t3, 0x12345678'])
            shr = rng.choice(['li t0, 5', 'call L', 'tail L', 'li t1, -7'])
            lines = ['FAR = 0x200000'] + [far] * k + ['L:', shr, 'dw L', 'j L', 'dw %offset(L)', 'li a0, L', 'M:', 'nop', 'dw M']
            src = '\n'.join(lines) + '\n'
            meta = []
            for i, l in enumerate(lines, start=1):
                if l in ('dw L', 'dw M', 'dw %offset(L)'):
                    meta.append({'line': i, 'kind': 'dw', 'label': l[-2] if l.endswith(')') else l.split()[1], 'text': l})
                elif l == 'j L':
                    meta.append({'line': i, 'kind': 'j', 'label': 'L', 'text': l})
                elif l == 'li a0, L':
                    meta.append({'line': i, 'kind': 'li', 'label': 'L', 'text': l})
                elif l in ('call L', 'tail L'):
                    meta.append({'line': i, 'kind': l.split()[0], 'label': 'L', 'text': l})
            add(src, meta)
        elif t == 20:
            # known finding K1: a transfer whose target lies behind an align that absorbs what compression saves in
            # front of the transfer (distance grows with -c) -- at the edge of the branch / jump range
            kind, rng_max, al = [('beq x1, x2, L', 4094, 4096), ('j L', 1048574, 1 << 20), ('bnez x1, L', 4094, 4096)][j % 3]
            k = rng.choice([2, 3])
            src = 'add x8, x8, x9\n' * k + kind + '\nalign {}\n'.format(al) + 'dw 0\n' * (1 if k == 2 else 2) + 'L:\n'
            add(src)
        elif t == 21:
            # known finding K2: an ABSOLUTE label value inside a non-transfer immediate at the edge of the operand range; the label
            # moves down with -c, the immediate leaves its range (value decreasing or increasing in the label)
            k = rng.choice([1, 2, 3])
            form = [('addi x1, x0, {} - L', 2047 + 4 * k), ('addi x1, x0, L - {}', 2048 + 2 * k + 2), ('db {} - L', 127 + 4 * k),
                    ('addi x1, x0, %position(L, -{})', 2048 + 2 * k + 2)][j % 4]
            src = 'add x8, x8, x9\n' * k + 'L:\n' + form[0].format(form[1]) + '\n'
            add(src)
        elif t == 22:
            # known finding K3: a CONSTANT (an absolute position) as the target of a branch / jump or inside %offset, with the distance at
            # the edge of the range: what compresses in front of the line moves the LINE, the target stays, the distance grows
            k = rng.choice([1, 2, 3])
            form = [('beq x0, x0, K', 4094 + 4 * k), ('bne x8, x9, K', 4094 + 4 * k), ('jal x1, K', 1048574 + 4 * k),
                    ('addi x1, x0, %offset(K)', 2047 + 4 * k), ('bnez x8, K', 4094 + 4 * k), ('j K', 1048574 + 4 * k)][j % 6]
            src = 'K = {}\n'.format(form[1]) + 'add x8, x8, x9\n' * k + form[0] + '\n'
            add(src)
        else:
            src = 'start:\nauipc x5, %hi(%offset(start))\njalr x0, x5, %lo(%offset(start))\nlui x6, %hi(start)\nlw x7, x6, %lo(start)\n'
            add(src)
    return out
