"""Front-end engine for C13 (spelling variants) and C11 (constants / expressions).

(C) correspondence of the hand-written Gallina front end (coq/Model/Lexer.v, PyExpr.v, Parser.v) with the REAL code:
    * lex_check   : model tokens           vs asm.lex_tokens(line).tokens
    * front_check : model item / error     vs pipeline.ser_item(asm.parse_item(asm.lex_tokens(line)))  (compared in Coq)
    * eval_check  : PyExpr + aeval value   vs the real Arithmetic(text).eval(None, env, line)
    evaluated with coqc + vm_compute on generated case files (same scheme as pipeline.run_model).
(D) falsifiers, evaluated on the REAL assembler only:
    * C13: programs of tools/gen_programs.py x independent per-line / per-operand rewrites (separators, indentation,
      comments, blank lines, register spellings, integer literal spellings, imm(reg) form): bytes + labels identical,
      compression off and on.
    * C11: random expression trees (value computed independently while the tree is built), all 95 printable character
      literals, constants substituted by their value / the register they name at every substitution site, both modes.
"""
import concurrent.futures
import os
import re
import shutil
import subprocess
import tempfile

import gen_programs
import harness
import pipeline

VERIF = pipeline.VERIF
COQ = pipeline.COQ
WORKERS = int(os.environ.get('VERIF_WORKERS', '6'))

HEADER = '''From Coq Require Import ZArith List String.
From BB Require Import Base.PyBase Model.Items Model.Lexer Model.PyExpr Model.Parser.
Import ListNotations.
Open Scope Z_scope.
Open Scope string_scope.
'''


# ------------------------------------------------------------------------------------------------ model runner
def _shard(args):
    idx, text, workdir = args
    path = os.path.join(workdir, 'fe{}.v'.format(idx))
    with open(path, 'w') as f:
        f.write(text)
    p = subprocess.run(['timeout', '600', 'coqc', '-Q', COQ, 'BB', '-w', '-all', path], stdout=subprocess.PIPE,
                       stderr=subprocess.STDOUT, text=True, errors='replace')
    return idx, p.returncode, p.stdout


def run_coq(cases, shard=250):
    """cases: Gallina terms of type string.  Returns the list of result strings (None where evaluation failed)."""
    if not cases:
        return []
    workdir = tempfile.mkdtemp(prefix='bbfront')
    try:
        jobs = []
        for s in range(0, len(cases), shard):
            jobs.append((s // shard, HEADER + ''.join('Eval vm_compute in ({}).\n'.format(c) for c in cases[s:s + shard]), workdir))
        res = {}
        with concurrent.futures.ThreadPoolExecutor(max_workers=WORKERS) as ex:
            for idx, rc, out in ex.map(_shard, jobs):
                res[idx] = (rc, out)
        answers = []
        for s in range(0, len(cases), shard):
            rc, out = res[s // shard]
            n = len(cases[s:s + shard])
            found = re.findall(r'^\s*= "((?:[^"]|"")*)"\s*(?:%string)?\s*\n?\s*: string', out, re.M)
            if rc != 0 or len(found) != n:
                answers += [None] * n
                os.makedirs(os.path.join(VERIF, 'build', 'logs'), exist_ok=True)
                with open(os.path.join(VERIF, 'build', 'logs', 'front_shard_error.log'), 'w') as f:
                    f.write(out[-20000:])
            else:
                answers += [x.replace('""', '"') for x in found]
        return answers
    finally:
        shutil.rmtree(workdir, ignore_errors=True)


def codes(s):
    return '[' + '; '.join(str(ord(c)) for c in s) + ']'


def in_fragment(s):
    """Lines the character-list model speaks about: printable ASCII and tab."""
    return all(32 <= ord(c) < 127 or c == '\t' for c in s)


# ------------------------------------------------------------------------------------------------ observations
def observe_line(asm, text, file='<string>', num=1):
    """What the real front end does with one line: ('NONE',) | ('ITEM', item) | ('ASM', file, num) | ('RAW', exn)."""
    line = asm.Line(file, num, text)
    try:
        lt = asm.lex_tokens(line)
        toks = list(lt.tokens)
    except Exception as e:
        return ('RAW', pipeline.exn_model_name(harness.exc_class(e))), None
    if len(toks) == 0:
        return ('NONE',), toks
    try:
        it = asm.parse_item(lt)
    except Exception as e:
        c = pipeline.canon_exc(asm, e)
        if c[0] == 'ASM':
            return ('ASM', c[1], c[2]), toks
        return ('RAW', c[1]), toks
    return ('ITEM', it), toks


def observed_term(asm, obs):
    if obs[0] == 'NONE':
        return 'XNone'
    if obs[0] == 'ASM':
        return 'XAsm {{| lfile := {}; lnum := {} |}}'.format(pipeline.cstr(obs[1]), obs[2])
    if obs[0] == 'RAW':
        return 'XRaw {}'.format(obs[1])
    return 'XItem {}'.format(pipeline.ser_item(asm, obs[1]))


def correspond_lines(ctx, asm, lines):
    """lex_check + front_check for every line of `lines` (deduplicated)."""
    cases, meta = [], []
    for text in dict.fromkeys(lines):
        if not in_fragment(text) or len(text.strip()) == 0:
            continue
        obs, toks = observe_line(asm, text)
        if toks is not None and all(in_fragment(t) or '\n' in t for t in toks):
            if all(all(ord(c) < 128 for c in t) for t in toks):
                cases.append('lex_check {} [{}]'.format(codes(text), '; '.join(codes(t) for t in toks)))
                meta.append(('Model.Lexer', text, toks))
        if obs[0] == 'ITEM' and isinstance(obs[1], asm.IncludeBytes):
            continue
        try:
            term = observed_term(asm, obs)
        except pipeline.Unsupported:
            ctx.unsupported += 1
            continue
        cases.append('front_check "<string>" 1 {} ({})'.format(codes(text), term))
        meta.append(('Model.Parser', text, term))
    answers = run_coq(cases)
    for (unit, text, what), a in zip(meta, answers):
        if a == 'UNSUP':
            ctx.unsupported += 1
            continue
        ctx.traces_validated += 1
        if a != 'SAME':
            ctx.corr(unit, {'line': text}, what if isinstance(what, list) else what[:400],
                     'model evaluation failed' if a is None else 'model disagrees (' + a + ')')
    return len(cases)


def real_eval(asm, text, env):
    line = asm.Line('<string>', 1, text)
    try:
        return ('V', asm.Arithmetic(text).eval(None, dict(env), line))
    except asm.AssemblerError:
        return ('ERR',)
    except Exception as e:
        return ('RAW', harness.exc_class(e))


def correspond_exprs(ctx, asm, exprs):
    """exprs: [(text, env dict)]: the real Arithmetic.eval vs PyExpr + aeval."""
    cases, meta = [], []
    for text, env in exprs:
        if not in_fragment(text):
            continue
        r = real_eval(asm, text, env)
        if r[0] == 'RAW' or (r[0] == 'V' and abs(r[1]) >= 10 ** 70):
            ctx.unsupported += 1        # UnicodeDecodeError of a lone backslash / beyond the model's decimal renderer
            continue
        cases.append('eval_check {} {}'.format(codes(text), pipeline.ser_env(env)))
        meta.append((text, env, r))
    for (text, env, r), a in zip(meta, run_coq(cases)):
        if a == 'UNSUP':
            ctx.unsupported += 1
            continue
        ctx.traces_validated += 1
        want = 'V{}'.format(r[1]) if r[0] == 'V' else 'ERR'
        if a != want:
            ctx.corr('Model.PyExpr', {'expr': text, 'env': env}, want, a)


# ------------------------------------------------------------------------------------------------ expression trees
BIN = ['+', '-', '*', '//', '%', '<<', '>>', '&', '|', '^', '**']
PREC = {'|': 0, '^': 1, '&': 2, '<<': 3, '>>': 3, '+': 4, '-': 4, '*': 5, '//': 5, '%': 5, 'u': 6, '**': 7}


def lit(rng, v):
    """A spelling of the non-negative integer v."""
    k = rng.randrange(6)
    if k == 0:
        return hex(v)
    if k == 1:
        return bin(v)
    if k == 2 and rng.random() < 0.3:
        return oct(v)
    if k == 3:
        return '0X{:X}'.format(v)
    return str(v)


def gen_tree(rng, depth, names):
    """Returns (tree, value) with value computed here, independently of Python's eval; None value = undefined."""
    if depth == 0 or rng.random() < 0.25:
        if names and rng.random() < 0.3:
            n = rng.choice(sorted(names))
            return ('name', n), names[n]
        v = rng.choice([0, 1, 2, 3, 7, 8, 15, 16, 31, 32, 255, 256, 2047, 2048, 4095, 4096, 0xffff, 0x12345, 0x7fffffff,
                        0x80000000, 0xffffffff, rng.randrange(0, 1 << 16), rng.randrange(0, 1 << 32)])
        return ('num', v, lit(rng, v)), v
    if rng.random() < 0.2:
        op = rng.choice(['-', '+', '~'])
        t, v = gen_tree(rng, depth - 1, names)
        if v is None:
            return ('un', op, t), None
        return ('un', op, t), (-v if op == '-' else v if op == '+' else ~v)
    op = rng.choice(BIN)
    a, va = gen_tree(rng, depth - 1, names)
    if op in ('<<', '>>', '**'):
        e = rng.choice([0, 1, 2, 3, 4, 5, 8, 12, 16, 31, 32])
        if op == '**':
            e = rng.choice([0, 1, 2, 3, 4, 5])
        b, vb = ('num', e, lit(rng, e)), e
    else:
        b, vb = gen_tree(rng, depth - 1, names)
    t = ('bin', op, a, b)
    if va is None or vb is None:
        return t, None
    if op in ('//', '%') and vb == 0:
        return t, None
    if abs(va) > (1 << 200):
        return t, None
    v = {'+': lambda: va + vb, '-': lambda: va - vb, '*': lambda: va * vb, '//': lambda: va // vb, '%': lambda: va % vb,
         '<<': lambda: va << vb, '>>': lambda: va >> vb, '&': lambda: va & vb, '|': lambda: va | vb, '^': lambda: va ^ vb,
         '**': lambda: va ** vb}[op]()
    return t, v


def show(rng, t, redundant, ctxp=0, right=False):
    """Print with minimal (redundant=False) or additional parentheses; blanks are inserted at random."""
    sp = lambda: rng.choice(['', ' ', '  ', '\t']) if redundant is not None else ''
    if t[0] == 'num':
        s, p = t[2], 9
    elif t[0] == 'name':
        s, p = t[1], 9
    elif t[0] == 'un':
        # operand of a unary operator: a factor (unary or power or atom)
        s, p = t[1] + sp() + show(rng, t[2], redundant, 6), 6
    else:
        op = t[1]
        p = PREC[op]
        if op == '**':
            # left operand must be an atom-level thing, right operand a factor
            s = show(rng, t[2], redundant, 8) + sp() + op + sp() + show(rng, t[3], redundant, 6)
        else:
            s = show(rng, t[2], redundant, p) + sp() + op + sp() + show(rng, t[3], redundant, p + 1)
    if p < ctxp or (redundant and rng.random() < 0.3):
        return '(' + sp() + s + sp() + ')'
    return s


# ------------------------------------------------------------------------------------------------ rewrites (C13)
REG_SPELL = {}


def reg_spellings(asm):
    """Spellings of each register from the INDEPENDENT table of tools/isa.py (psABI names), not from asm.REGISTERS."""
    import isa
    if not REG_SPELL:
        by_num = {}
        for name, num in isa.REGNAMES.items():
            by_num.setdefault(num, []).append(name)
        for num, names in by_num.items():
            for k in names:
                if not k.isdigit():
                    REG_SPELL[k] = names
    return REG_SPELL


TOKEN_RE = re.compile(r'[()]|[^\s,()]+')
INT_RE = re.compile(r'(?<![\w.%])(0[xX][0-9a-fA-F]+|0[bB][01]+|[1-9][0-9]*|0)(?![\w.])')
COMMENTS = ['', ' comment', ' a, b (c)', "'", ' string x', ' L0:', '#', ' = 5', ' error x', ' include foo']
BASE_OFFSET = ['jalr', 'lb', 'lh', 'lw', 'lbu', 'lhu', 'sb', 'sh', 'sw', 'c.lw', 'c.sw']
STORES = ['sb', 'sh', 'sw', 'c.sw']


def split_line(text):
    """-> (indent, [(token, gap-after)]) for a line without comment."""
    toks = []
    pos = 0
    m = re.match(r'\s*', text)
    indent = m.group(0)
    pos = m.end()
    while pos < len(text):
        m = TOKEN_RE.match(text, pos)
        if not m:
            break
        t = m.group(0)
        pos = m.end()
        g = re.match(r'[\s,]*', text[pos:]).group(0)
        pos += len(g)
        toks.append([t, g])
    return indent, toks


def respell_int(rng, tok):
    def f(m):
        v = int(m.group(1), 0)
        return rng.choice([str(v), hex(v), bin(v), '0X{:X}'.format(v), '0B{:b}'.format(v)])
    return INT_RE.sub(f, tok)


def ws(rng, empty_ok=False):
    s = ''.join(rng.choice([' ', ' ', '\t']) for _ in range(rng.randrange(0 if empty_ok else 1, 4)))
    return s


def opsep(rng):
    """A separator between operands: any mix of commas, blanks and tabs with at least one of them."""
    while True:
        s = ''.join(rng.choice([' ', ',', '\t', ' ']) for _ in range(rng.randrange(1, 5)))
        if s:
            return s


def rewrite_line(rng, asm, text, counts):
    """One independent rewrite of a source line using only the documented freedoms."""
    if text.strip() == '':
        return text
    body = text
    stripped = text.lstrip()
    if stripped.startswith(('string ', 'error ')):
        # only indentation is free on these lines (a comment would become part of the text)
        counts('indent-special')
        return ws(rng, True) + stripped
    indent, toks = split_line(body)
    if not toks:
        return text
    head = toks[0][0].lower()
    is_label = len(toks) == 1 and toks[0][0].endswith(':')
    is_const = len(toks) >= 3 and toks[1][0] == '='
    regs = reg_spellings(asm)
    # imm(reg) <-> reg, imm
    if head in BASE_OFFSET and rng.random() < 0.5:
        tt = [t for t, _ in toks]
        if len(tt) == 6 and tt[3] == '(' and tt[5] == ')':
            a, off, b = tt[1], tt[2], tt[4]
            new = [head, b, a, off] if head in STORES else [head, a, b, off]
            toks = [[t, ', '] for t in new]
            toks[0][1] = ' '
            toks[-1][1] = ''
            counts('form:to-reg-imm')
        elif len(tt) == 4 and '(' not in tt and not tt[3].startswith('%'):
            a, b, off = tt[1], tt[2], tt[3]
            new = [head, b, off, '(', a, ')'] if head in STORES else [head, a, off, '(', b, ')']
            gaps = [' ', ', ', '', '', '', '']
            toks = [[t, g] for t, g in zip(new, gaps)]
            counts('form:to-imm(reg)')
    out = []
    for i, (t, g) in enumerate(toks):
        nt = t
        if i > 0 and not is_label:
            if t in regs and rng.random() < 0.6:
                nt = rng.choice(regs[t])
                counts('reg-spelling')
            elif rng.random() < 0.5 and not (head == 'pack' and i == 1):
                nt2 = respell_int(rng, t)
                if nt2 != t:
                    counts('int-spelling')
                nt = nt2
        # gap after the token
        last = i == len(toks) - 1
        nxt = toks[i + 1][0] if not last else None
        if last:
            ng = ws(rng, True)
        elif ',' in g:
            ng = opsep(rng)
            counts('sep:operand')
        elif g == '':
            ng = ws(rng, True) if (t in '()' or nxt in '()') else g
        else:
            # whitespace-only gap (after the mnemonic, around '=', inside an expression): stays whitespace-only
            ng = ws(rng)
        out.append(nt + ng)
    line = ws(rng, True) + ''.join(out)
    counts('indent')
    if rng.random() < 0.5:
        line += rng.choice(['#', ' #', '\t# ']) + rng.choice(COMMENTS)
        counts('trailing-comment')
    return line


def rewrite_pieces(rng, asm, src, counts):
    """-> [(original line, [variant lines])]"""
    out = []
    for text in src.split('\n'):
        piece = []
        if rng.random() < 0.15:
            piece.append(rng.choice(['', '   ', '\t', '# whole line comment', '   # indented, comment (x)', "#'"]))
            counts('blank-or-comment-line')
        piece.append(rewrite_line(rng, asm, text, counts))
        out.append((text, piece))
    return out


def join_pieces(pieces):
    return '\n'.join('\n'.join(p) for _, p in pieces)


def rewrite_program(rng, asm, src, counts):
    return join_pieces(rewrite_pieces(rng, asm, src, counts))


def outcome(asm, src, compress):
    labels, consts = {}, {}
    try:
        b = asm.assemble(src, compress=compress, labels=labels, constants=consts)
        return ('OK', bytes(b), sorted(labels.items()), sorted(consts.items()))
    except Exception as e:
        c = pipeline.canon_exc(asm, e)
        return ('FAIL', c[0], c[1] if c[0] == 'RAW' else None)


def brief(o):
    if o[0] == 'OK':
        return {'status': 'OK', 'len': len(o[1]), 'bytes': o[1][:48].hex() + ('...' if len(o[1]) > 48 else ''), 'labels': o[2][:10]}
    return {'status': o[1], 'exn': o[2]}


def c13_programs(ctx):
    rng = ctx.rng
    n = 150 if ctx.quick() else 3000
    progs = []
    for i in range(n):
        size = 'small' if i % 3 else 'medium'
        src, _ = gen_programs.program(rng, size=size, big_gap=False)
        progs.append(src)
    # base+offset instructions in both operand forms (all 11 mnemonics), constants and aliases as operands
    for i in range(12 if ctx.quick() else 200):
        lines = ['OFF = {}'.format(rng.choice([0, 4, 8, 64])), 'BASE = {}'.format(rng.choice(['x9', 's1', 'sp', 'a0']))]
        for m in BASE_OFFSET:
            rc = lambda: rng.choice(gen_programs.REGS_C)
            off = rng.choice(['0', '4', '8', '124', 'OFF']) if m.startswith('c.') else rng.choice(['0', '4', '-4', '2047', '-2048', '0x10', 'OFF'])
            a, b = rc(), rng.choice([rc(), 'BASE']) if not m.startswith('c.') else rc()
            lines.append('{} {}, {}({})'.format(m, a, off, b) if rng.random() < 0.5 else '{} {}, {}, {}'.format(m, a, b, off))
        progs.append('\n'.join(lines) + '\n')
    for src, _ in gen_programs.scenarios(rng, 28 if ctx.quick() else 140):
        if len(src) < 20000:
            progs.append(src)
    return progs


def falsify_c13(ctx, asm, lines_out=None):
    rng = ctx.rng
    nrew = 6 if ctx.quick() else 12
    counts = ctx.count
    for src in c13_programs(ctx):
        base = {c: outcome(asm, src, c) for c in (False, True)}
        if lines_out is not None:
            lines_out.extend(src.split('\n'))
        for k in range(nrew):
            pieces = rewrite_pieces(rng, asm, src, counts)
            var = join_pieces(pieces)
            if lines_out is not None and k < 2:
                lines_out.extend(var.split('\n'))
            for c in (False, True):
                if base[c][0] != 'OK':
                    continue
                ctx.evaluations += 1
                o = outcome(asm, var, c)
                ctx.nontriv(hash((var, c)))
                if o[:3] != base[c][:3]:
                    small_src, small_var = shrink_pieces(asm, pieces, c)
                    ctx.cex('spelling variant assembles differently (compress={})'.format(c),
                            {'source': small_src, 'variant': small_var, 'compress': c},
                            brief(outcome(asm, small_var, c)), brief(outcome(asm, small_src, c)),
                            {'kind': 'spelling-variant'})
                    if len(ctx.counterexamples) > 20:
                        return
    ctx.sample({'variant-example': rewrite_program(rng, asm, 'K = 2 * 8\nL0:\nlw x8, 4(x9)\naddi s0, s0, K\nbeq x8, x0, L0\nstring a b', lambda *_: None)})


def shrink_pieces(asm, pieces, c):
    """Revert rewritten lines to their original spelling while the difference persists (bounded)."""
    src = '\n'.join(t for t, _ in pieces)
    base = outcome(asm, src, c)
    cur = list(pieces)
    budget = 150
    for i in range(len(cur)):
        if budget <= 0:
            break
        if cur[i][1] == [cur[i][0]]:
            continue
        budget -= 1
        trial = cur[:i] + [(cur[i][0], [cur[i][0]])] + cur[i + 1:]
        if outcome(asm, join_pieces(trial), c)[:3] != base[:3]:
            cur = trial
    return src, join_pieces(cur)


def replay_c13(asm, inp):
    a = outcome(asm, inp['source'], inp['compress'])
    b = outcome(asm, inp['variant'], inp['compress'])
    return a[0] == 'OK' and a[:3] != b[:3]


# ------------------------------------------------------------------------------------------------ C11 falsifier
PRINTABLE = [chr(i) for i in range(32, 127)]


def char_source(c):
    return "'\\\\'" if c == '\\' else "'{}'".format(c)


def falsify_c11_chars(ctx, asm):
    for c in PRINTABLE:
        for form in ('const', 'db'):
            ctx.evaluations += 1
            ctx.nontriv(('char', c, form))
            if form == 'const':
                src = 'X = {}\ndb X\n'.format(char_source(c))
            else:
                src = 'db {}\n'.format(char_source(c))
            o = outcome(asm, src, False)
            want = bytes([ord(c)])
            if o[0] != 'OK' or o[1] != want or (form == 'const' and dict(o[3]).get('X') != ord(c)):
                ctx.cex("character literal {} does not evaluate to {}".format(char_source(c), ord(c)),
                        {'kind': 'char', 'source': src, 'char': c}, brief(o) if o[0] != 'OK' else {'status': 'OK', 'bytes': o[1].hex(), 'constants': o[3]},
                        'constant / data byte equal to ord({!r}) = {}'.format(c, ord(c)),
                        {'kind': 'char-literal', 'char': c})


def falsify_c11_exprs(ctx, asm, exprs_out):
    rng = ctx.rng
    n = 400 if ctx.quick() else 8000
    for i in range(n):
        names = {'A': rng.choice([0, 1, 5, 4096, -3]), 'B_2': rng.randrange(0, 1 << 20), 'zz': -1}
        t, v = gen_tree(rng, rng.randrange(1, 7), names)
        for redundant in (False, True):
            text = show(rng, t, redundant)
            exprs_out.append((text, names))
            if v is None or abs(v) >= (1 << 63):
                continue
            ctx.evaluations += 1
            ctx.nontriv(text)
            defs = ''.join('{} = {}\n'.format(k, val) for k, val in names.items())
            src = defs + 'X = {}\ndd X\n'.format(text) if rng.random() < 0.5 else defs + 'X  =\t{} # c\ndd X\n'.format(text)
            o = outcome(asm, src, False)
            import struct
            want = struct.pack('<q', v) if v < 0 else struct.pack('<Q', v)
            if o[0] != 'OK' or dict(o[3]).get('X') != v or o[1] != want:
                ctx.cex('constant expression {!r} is not its integer value {}'.format(text, v),
                        {'kind': 'expr', 'source': src, 'value': v}, brief(o) if o[0] != 'OK' else {'X': dict(o[3]).get('X')},
                        'X == {}'.format(v), {'kind': 'const-expr'})
    ctx.count('expression-trees', n)


SITES = [
    # (template using {K}, what K is: 'int' or 'reg')
    ('addi x8, x8, {K}', 'int'), ('lw x8, {K}(x9)', 'int'), ('sw x8, {K}(sp)', 'int'), ('lw x10, x11, {K}', 'int'),
    ('lui x5, {K}', 'int'), ('auipc x6, {K}', 'int'), ('slli x8, x8, {K}', 'sh'), ('srai x9, x9, {K}', 'sh'),
    ('srli x5, x5, {K}', 'sh'), ('li t0, {K}', 'int'), ('li s0, {K} * 3', 'int'), ('db {K}', 'byte'), ('dh {K}', 'int'),
    ('dw {K}', 'int'), ('dd {K}', 'int'), ('pack <i {K}', 'int'), ('pack <B {K}', 'byte'),
    ('lui x7, %hi({K})', 'int'), ('addi x7, x7, %lo({K})', 'int'), ('lui x5, %hi(%position(here, {K}))', 'int'),
    ('addi x5, x5, %lo(%position(here, {K}))', 'int'), ('andi x8, x8, {K}', 'int'), ('c.addi x8, {K}', 'small'),
    ('c.li x9, {K}', 'small'), ('addi sp, sp, {K} * 16', 'small'),
    ('add {K}, x9, x10', 'reg'), ('add x8, {K}, x10', 'reg'), ('and x8, x8, {K}', 'reg'), ('lw {K}, 4(x9)', 'reg'),
    ('lw x8, 4({K})', 'reg'), ('sw {K}, 8(x9)', 'reg'), ('mv {K}, x9', 'reg'), ('mv a0, {K}', 'reg'), ('li {K}, 5', 'reg'),
    ('beq {K}, x0, here', 'reg'), ('jalr x0, 0({K})', 'reg'), ('jr {K}', 'reg'), ('c.mv {K}, x9', 'reg'), ('addi {K}, {K}, 1', 'reg'),
    ('slli {K}, {K}, 2', 'reg'), ('neg {K}, x9', 'reg'),
]


def falsify_c11_subst(ctx, asm):
    rng = ctx.rng
    rounds = 3 if ctx.quick() else 12
    for r in range(rounds):
        for tmpl, kind in SITES:
            if kind == 'reg':
                # round 0: the constant whose VALUE is 0 (x0 / zero / 0 -- falsy in Python: seeded change C11-r4)
                reg = rng.choice(['x0', 'zero', '0']) if r == 0 else \
                    rng.choice(['x8', 'x9', 's0', 'a0', 'x15', 't0', 'x1', 'sp', '8', '15', 'x0', 'zero', 'x31', 't6'])
                defn, lit_ = reg, reg
            else:
                v = {'int': rng.choice([0, 1, 4, 8, 16, 124, 2047, -1, -8, -2048, 31, 5]),
                     'sh': rng.choice([0, 1, 3, 5, 31]), 'byte': rng.choice([0, 1, 127, 255]),
                     'small': rng.choice([1, 4, -1, 16, 31, -32, 0])}[kind]
                if r == 0 and not tmpl.startswith('c.'):
                    v = 0
                if tmpl.startswith(('lui', 'auipc')) and '%' not in tmpl:
                    v = abs(v)
                if tmpl.startswith(('lw', 'sw', 'c.')) and v < 0 and kind != 'small':
                    v = -v
                defn = rng.choice([str(v), hex(v) if v >= 0 else str(v), '{} + {}'.format(v - 3, 3), '({} * 2) // 2'.format(v)])
                lit_ = str(v)
            pre = rng.choice(['', 'nop\n', 'addi x8, x8, 1\n'])
            post = 'here:\nret\n'
            with_const = 'K = {}\n{}{}\n{}'.format(defn, pre, tmpl.format(K='K'), post)
            literal = '{}{}\n{}'.format(pre, tmpl.format(K=lit_), post)
            # a later constant defined through K
            if kind != 'reg' and rng.random() < 0.3:
                with_const = 'K = {}\nK2 = K\n{}{}\n{}'.format(defn, pre, tmpl.format(K='K2'), post)
            for c in (False, True):
                ctx.evaluations += 1
                ctx.nontriv(('site', tmpl, c, defn))
                a, b = outcome(asm, literal, c), outcome(asm, with_const, c)
                if a[0] != 'OK':
                    continue        # the literal program itself is not accepted: nothing to compare
                if b[0] != 'OK' or a[1] != b[1] or a[2] != b[2]:
                    ctx.cex('constant at site `{}` differs from the literal (compress={})'.format(tmpl, c),
                            {'kind': 'subst', 'source': with_const, 'literal': literal, 'compress': c}, brief(b), brief(a),
                            {'kind': 'const-subst', 'site': tmpl.split()[0]})
    ctx.count('substitution-sites', len(SITES))


def falsify_c11_redefine(ctx, asm):
    """A constant is the value of its (latest) defining expression over the EARLIER definitions: names assigned twice,
    constants derived from a reassigned name, a caller-supplied dictionary that already binds the name, and the same
    dictionary handed to a second call whose source defines other values."""
    import struct
    rng = ctx.rng
    for i in range(40 if ctx.quick() else 400):
        a0, k1, k2 = rng.randrange(1, 50), rng.randrange(2, 9), rng.randrange(1, 30)
        # A = a0 ; B = A + k2 ; A = B * k1 ; C = A + B
        src = 'A = {}\nB = A + {}\nA = B * {}\nC = A + B\ndw A\ndw B\ndw C\n'.format(a0, k2, k1)
        B = a0 + k2; A = B * k1; C = A + B
        want = struct.pack('<III', A, B, C)
        for pre in (None, {'A': 7}, {'C': 1, 'Q': 2}):
            ctx.evaluations += 1
            ctx.nontriv(('redefine', a0, k1, k2, str(pre)))
            d = dict(pre) if pre is not None else {}
            try:
                out = bytes(asm.assemble(src, constants=d))
                got = (out, {k: d.get(k) for k in 'ABC'})
            except Exception as e:
                got = (type(e).__name__, None)
            if got[0] != want or got[1] != {'A': A, 'B': B, 'C': C}:
                ctx.cex('reassigned constant: A = {}, B = A + {}, A = B * {}, C = A + B gives {} (caller dict {})'.format(a0, k2, k1, got[1], pre),
                        {'kind': 'redefine', 'source': src, 'constants': pre, 'want': [A, B, C]}, str(got)[:200], [A, B, C],
                        {'kind': 'const-redefine'})
        # one dictionary, two calls with different definitions of the same name
        d = {}
        for step, v in enumerate([a0, a0 + 100 + k1]):
            ctx.evaluations += 1
            src2 = 'STEP = {}\naddi a0, zero, STEP\ndw STEP * 2\n'.format(v)
            try:
                out = bytes(asm.assemble(src2, constants=d))
                ok = d.get('STEP') == v and out[4:8] == struct.pack('<I', v * 2) and (int.from_bytes(out[:4], 'little') >> 20) == v
            except Exception:
                ok = False
            if not ok:
                ctx.cex('a constants dictionary reused for a second call keeps the earlier value of STEP (call {} defines {})'.format(step + 1, v),
                        {'kind': 'redefine-calls', 'values': [a0, a0 + 100 + k1]}, d.get('STEP'), v, {'kind': 'const-redefine'})


def replay_c11(asm, inp):
    k = inp.get('kind')
    if k == 'redefine':
        import struct
        d = dict(inp['constants']) if inp.get('constants') else {}
        try:
            out = bytes(asm.assemble(inp['source'], constants=d))
        except Exception:
            return True
        A, B, C = inp['want']
        return out != struct.pack('<III', A, B, C) or {k: d.get(k) for k in 'ABC'} != {'A': A, 'B': B, 'C': C}
    if k == 'redefine-calls':
        d = {}
        bad = False
        for v in inp['values']:
            try:
                asm.assemble('STEP = {}\naddi a0, zero, STEP\n'.format(v), constants=d)
            except Exception:
                return True
            bad = bad or d.get('STEP') != v
        return bad
    if k == 'char':
        o = outcome(asm, inp['source'], False)
        return not (o[0] == 'OK' and o[1] == bytes([ord(inp['char'])]))
    if k == 'expr':
        o = outcome(asm, inp['source'], False)
        return not (o[0] == 'OK' and dict(o[3]).get('X') == inp['value'])
    if k == 'subst':
        a, b = outcome(asm, inp['literal'], inp['compress']), outcome(asm, inp['source'], inp['compress'])
        return a[0] == 'OK' and (b[0] != 'OK' or a[1:3] != b[1:3])
    return False


# ------------------------------------------------------------------------------------------------ line pools
ODD_LINES = [
    'lw x8, 4(x9)', 'lw x8 4 ( x9 )', 'sw x8,4(x9)#c', 'jalr x0, 0(x1)', 'jalr x1', 'jal L', 'jal x1, L', 'jal x1, 8', 'fence',
    'fence 15, 15', 'fence 1', 'c.lw x8, 4(x9)', 'c.sw x9, 0(x8)', 'c.sw x8, x9, 0', 'lr.w x1, x2', 'lr.w x1, x2, 1, 1',
    'lr.w x1 x2 1', 'sc.w x1, x2, x3', 'amoadd.w x1, x2, x3, 1, 0', 'amoadd.w x1 x2 x3 1', 'amoadd.w x1', 'ecall', 'ecall 1',
    'X = 5', 'X=5', 'X = ', 'X = 1 +', 'X = (1', 'X = 1 2', 'X = 1,2', "X = 'a'", "X = ','", "X = '#'", "X = '('", "X = ' '",
    "X = '\\n'", "X = '\\\\'", "X = ''", "X = '", "X = 'ab'", 'X = %hi(5)', 'X = %offset(L)', 'x1 = 5', 'L:', 'L::', ':', 'L: x',
    'ADDI x1, x1, 1', 'Lw X8, 4(X9)', 'DB 1', 'db', 'db 1 2', 'dw L', 'dw %offset(L)', 'dw %offset L', 'dw %offset(L, 4)',
    'dw %position(L, 4)', 'dw %position L 4 + 4', 'dw %position(L)', 'dw %position', 'dw %hi(%position(L, 0x1000))', 'dw %hi',
    'dw %lo L', 'dw %lo()', 'dw %hi(', 'pack <I 5', 'pack <I', 'pack', 'align 4', 'align', 'align x', 'align 4 4', 'align 0x10',
    'bytes 1 2 3', 'BYTES 1, 2', 'bytes', 'shorts 1 -1', 'string hello', 'string  two', '  string x # y', 'string', 'STRING a',
    'STRING a b', 'string a\\tb', 'string a\\\\b', 'error boom', 'error', 'ERROR a', 'ERROR a b', '\tstring\tx', 'string\tx',
    'errorx y', 'strings 1', 'addi x1, x1', 'addi', 'addi x1', 'lw x8, 4(x9', 'lw x8, 4 x9)', 'lw x8, (x9)', 'lw x8, 1 2(x9)',
    'sw x1, x2', 'sw', 'sw x1', 'beq x1, x2, L', 'beq x1, x2, 8', 'beq x1, x2, -0x8', 'beq x1, x2', 'beq x1, x2, L, 4', 'lui x1, 5',
    'lui x1', 'lui', 'add x1, x2, x3', 'add x1, x2', 'add x1, x2, x3, x4', 'slli x1, x1, 3', 'slli x1, x1, K', 'mv x1, x2', 'mv x1',
    'nop', 'nop 1', 'li t0, 5', 'li t0', 'li', 'li t0, %hi(5)', 'li t0, %position(L, 4)', 'li t0, 1 + 2', 'call L', 'tail L',
    'ret', 'c.addi x8, 1', 'c.addi', 'c.addi16sp 16', 'c.addi16sp', 'c.nop', 'c.nop 1', 'c.ebreak', 'c.ebreak 1', 'c.jr x1',
    'c.jr', 'c.mv x1, x2', 'c.mv x1', 'c.swsp x8, 4', 'c.swsp', 'c.addi4spn x8, 4', 'c.lw x8', 'c.sub x8, x9', 'c.sub x8',
    'c.beqz x8, L', 'c.beqz x8, 4', 'c.j L', 'c.j 4', 'c.j', 'c.jal -2', 'c.jal L', 'c.bnez x9, L', 'C.J L', 'C.BEQZ x8, L', 'c.j L + 2',
    'c.j %offset L', 'c.j %offset(L)', 'c.beqz x8, %offset L', 'c.bnez x8, 1 + 1', 'c.bnez x8, 1+1', 'c.j 0x10', 'c.j -0b10', 'c.j (', 'c.beqz x8, (',
    'c.beqz x8', 'c.srli x8, L', 'c.andi x8, K', 'c.srai x8, 3', 'c.j 1_0', 'c.beqz x8, x9', 'c.jal %hi(L)', 'c.j %position(L, 4)', 'foo', 'foo bar', '( )', '(', ')', ',', ', ,', 'a,,b',
    ',string x', 'csrrw x0, x1, 0x300', 'fence.i', 'ebreak', 'X = 0x10 | 0b11 ^ 3 & ~1', 'X = 2 ** 3 ** 2', 'X = -2 ** 2',
    'X = 7 // 2 % 3', 'X = 1 << 4 >> 2', 'X = (((1)))', 'X = ()', 'X = 1 / 2', 'X = 1 // 0', 'X = 08', 'X = 0_1', 'X = 1_000',
    'X = 0x', 'X = 1__0', 'X = a b', 'X = x8', 'X = - - 1', 'X = + ~ 1', 'X = 1 - -1', 'X = 2**-1',
    'align 0', 'align -4', 'align 1', 'lw x8, %lo((x9)', 'sw x8 4(x9) 1', 'c.sw x8 4(', 'c.lw x8, 4((x9)', 'lw x8, %lo', 'sw x8, %hi(',
    "X = '\\x'", "X = '\\u12'", "addi x1, x1, '\\N{x}'", "X = '\\7'", "X = '\\x4'",
    'lw x8, %lo(5)(x9)', 'dw %offset a b', 'dw %offset(a b)', 'dw %position(a', 'dw %position a', 'li t0, %lo(', 'jalr x1, 4(x2', 'jalr x1, 4(x2)',
]


def random_line(rng):
    alphabet = ['lw', 'x8', 'sw', '4', '(', ')', ',', ' ', '\t', '#', 'L', ':', '=', 'X', '+', '1', '%hi', '%lo', '%offset',
                '%position', 'string', 'error', "'", 'addi', 'li', 'db', 'c.lw', '-', '*', '0x1f', 'align', 'K', 'jal', 'beq']
    return ''.join(rng.choice(alphabet) + rng.choice(['', ' ', ' ', ', ']) for _ in range(rng.randrange(1, 8)))


def correspondence(ctx, asm, extra_lines, exprs):
    rng = ctx.rng
    lines = list(ODD_LINES)
    lines += [random_line(rng) for _ in range(300 if ctx.quick() else 5000)]
    cap = 2500 if ctx.quick() else 40000
    extra = list(dict.fromkeys(l for l in extra_lines if len(l) < 400))
    rng.shuffle(extra)
    lines += extra[:cap]
    n = correspond_lines(ctx, asm, lines)
    ctx.count('front-end-lines', n)
    # expressions
    ex = list(exprs)
    for t in ['1 +', '(1', '1 2', "'a'", "','", "' '", "'ab'", "''", "'", 'A', 'nosuch', '1 // 0', '1 % 0', '2 ** 3 ** 2', '-2 ** 2',
              '~5', '1 << 70', '1 >> 70', '0x10', '0b11', '0o17', '1_0', '08', '1 / 2', 'A B', 'x8', 'zero', '', '()', '(A)', '- - 1',
              '7 // -2', '-7 // 2', '-7 % 3', '7 % -3', '-1 >> 1', '-8 >> 1', '~-1', '-1 & 0xff', '-1 | 1', '-1 ^ 5', '2 ** 0', '0 ** 0']:
        ex.append((t, {'A': 5, 'x8': 8, 'zero': 0}))
    cap = 1200 if ctx.quick() else 20000
    correspond_exprs(ctx, asm, ex[:cap])
    ctx.count('expression-strings', min(len(ex), cap))
