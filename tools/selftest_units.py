#!/venv/bin/python
"""Self-test of the decision extractors tools/units_guards.py and tools/units_book.py: each of the edits below changes ONE decision of
asm.py that the hand-written pass model repeats; the regenerated table must CHANGE (or fall back to its sentinel), otherwise the
theorems of Proofs/Guards.v / Proofs/Book.v would keep checking against a source that no longer says what they assume.
An edit whose pattern is not found in the current source is skipped (the source may have been edited); an edit that leaves the
generated text unchanged is a failure of the translator.  Run by `tools/check.py setup` (non-zero exit on failure)."""
import os
import shutil
import sys
import tempfile

HERE = os.path.dirname(os.path.abspath(__file__))
sys.path.insert(0, HERE)
import units_guards  # noqa: E402
import units_book  # noqa: E402

EDITS = [
    ('guards', 'is_settled evaluates against env', "        expr.eval(position, constants, line)\n    except AssemblerError:", "        expr.eval(position, env, line)\n    except AssemblerError:"),
    ('guards', 'guard hands env to is_settled', "not is_settled(item.imm, position, constants, item.line)", "not is_settled(item.imm, position, env, item.line)"),
    ('guards', 'reference test against env', "and isinstance(item.imm, Offset) and item.imm.reference not in constants)", "and isinstance(item.imm, Offset) and item.imm.reference not in env)"),
    ('guards', 'Offset.eval sign', "        return dest - position\n", "        return position - dest\n"),
    ('guards', 'Position.eval', "        return base + dest\n", "        return base - dest\n"),
    ('guards', 'Hi.eval uses relocate_lo', "        value = self.expr.eval(position, env, line)\n        return relocate_hi(value)", "        value = self.expr.eval(position, env, line)\n        return relocate_lo(value)"),
    ('guards', 'is_position_relative forgets Hi', "    if isinstance(expr, (Position, Hi, Lo)):", "    if isinstance(expr, (Position, Lo)):"),
    ('guards', 'auipc pair evaluated 2 bytes back', "            imm = item.imm.eval(position - 4, env, item.line)", "            imm = item.imm.eval(position - 2, env, item.line)"),
    ('guards', 'resolve_immediates environment', "        # resolve the immediate field\n        env = ChainMap(constants, labels)", "        # resolve the immediate field\n        env = ChainMap(labels, constants)"),
    ('guards', 'duplicate label test dropped', "        if item.name in defined:\n            raise AssemblerError('duplicate label", "        if False:\n            raise AssemblerError('duplicate label"),
    ('guards', 'constants evaluated with labels', "        env = ChainMap(constants, REGISTERS)\n        value = item.expr.eval(None, env, item.line)", "        env = ChainMap(constants, labels)\n        value = item.expr.eval(None, env, item.line)"),
    ('guards', 'alias test by truthiness', "            if value not in constants:\n                continue", "            if not constants.get(value):\n                continue"),
    ('guards', 'alias rebuild from args()', "        new_item = item.__class__(*d.values())\n        new_items.append(new_item)\n\n        log_conversion('resolve_register_aliases'", "        new_item = item.__class__(item.line, item.name, *item.args())\n        new_items.append(new_item)\n\n        log_conversion('resolve_register_aliases'"),
    ('guards', 'eval globals at module level', "            result = eval(self.expr, {'__builtins__': None}, env)", "            result = eval(self.expr, EVAL_GLOBALS, env)"),
    ('guards', 'expression text rewritten before eval', "            result = eval(self.expr, {'__builtins__': None}, env)", "            result = eval(self.expr.replace('$', str(position)), {'__builtins__': None}, env)"),
    ('guards', 'integer test dropped', "        if type(result) != int:", "        if False:"),
    ('book', 'far tail forgets to advance', "                inst = UTypeInstruction(item.line, 'auipc', rd='x6', imm=Hi(imm))\n                position += inst.size()\n", "                inst = UTypeInstruction(item.line, 'auipc', rd='x6', imm=Hi(imm))\n"),
    ('book', 'compressed item advances by the old size', "            # add compressed inst to items and break the search loop\n            position += inst.size()", "            # add compressed inst to items and break the search loop\n            position += item.size()"),
    ('book', 'align advances by its pessimistic size', "        position += padding\n        blob = Blob(item.line, b'\\x00' * padding)", "        position += item.size()\n        blob = Blob(item.line, b'\\x00' * padding)"),
    ('book', 'resolve_immediates appends without advancing', "        new_item = item.__class__(*d.values())\n        position += new_item.size()\n        new_items.append(new_item)\n\n        if not trivial:", "        new_item = item.__class__(*d.values())\n        new_items.append(new_item)\n\n        if not trivial:"),
]


def main(repo):
    src_path = os.path.join(repo, 'bronzebeard', 'asm.py')
    src = open(src_path).read()
    base = {'guards': units_guards.emit(repo), 'book': units_book.emit(repo)}
    tmp = tempfile.mkdtemp(prefix='bbselftest')
    failed, skipped, ok = [], [], 0
    try:
        os.makedirs(os.path.join(tmp, 'bronzebeard'))
        for unit, what, old, new in EDITS:
            if src.count(old) != 1:
                skipped.append(what)
                continue
            open(os.path.join(tmp, 'bronzebeard', 'asm.py'), 'w').write(src.replace(old, new))
            try:
                out = (units_guards if unit == 'guards' else units_book).emit(tmp)
            except Exception as e:          # fail closed counts as a reaction
                out = 'ERROR ' + repr(e)
            if out == base[unit]:
                failed.append(what)
            else:
                ok += 1
    finally:
        shutil.rmtree(tmp, ignore_errors=True)
    print('[selftest_units] {} edits change the generated tables, {} skipped (pattern not in the source), {} NOT NOTICED {}'.format(
        ok, len(skipped), len(failed), failed))
    return 1 if failed else 0


if __name__ == '__main__':
    sys.exit(main(sys.argv[1] if len(sys.argv) > 1 else os.environ.get('VERIF_REPO', '/repo')))
