"""Translation unit `Book`: the POSITION BOOKKEEPING of the passes that keep a running `position`, path by path.

For transform_compressible, transform_pseudo_instructions, resolve_aligns, resolve_immediates and resolve_labels every path through the
body of `for item in items:` is enumerated (if / elif / else, try / except, continue, raise) and the sequence of its bookkeeping
events is recorded:

    BPos e    `position += e`                         (e as source text, e.g. "inst.size()")
    BApp s    `new_items.append(v)`                    (s = the size that item has, as source text: "v.size()", or X for a
                                                         Blob(item.line, b'\\x00' * X) -- the padding of resolve_aligns)
    BBind v   `v = <constructor call>`                 (so that `inst.size()` before and after a re-binding are told apart)
    BLab      an update of the label table

The pass model (Model/Passes.v gpass) advances the position by the total size of what it appends.  Proofs/Book.v checks, by
computation on this table, that the SOURCE does the same on every path: each appended item is paired with exactly one
`position += <its size>` (no re-binding in between), nothing else moves the position.  Dropping or duplicating one
`position += inst.size()` (seeded change C08-r2) makes that check false.  Fail closed: any other statement touching
`position` or `new_items` is a TranslationError."""
import ast
import os

from py2coq import TranslationError, HEADER

UNIT_NAMES = ['Book']
PASSES = ['resolve_labels', 'transform_compressible', 'transform_pseudo_instructions', 'resolve_aligns', 'resolve_immediates']


def fail(node, what):
    raise TranslationError('Book', getattr(node, 'lineno', 0), what)


def slit(s):
    return '"' + s.replace('"', '""') + '"'


def touches(node, names):
    return any(isinstance(n, ast.Name) and n.id in names for n in ast.walk(node))


def writes(node):
    """does the statement (tree) assign to position / new_items or call a method of new_items?"""
    for n in ast.walk(node):
        if isinstance(n, ast.Name) and n.id in ('position', 'new_items') and isinstance(n.ctx, (ast.Store, ast.Del)):
            return True
        if isinstance(n, ast.Attribute) and isinstance(n.value, ast.Name) and n.value.id == 'new_items':
            return True
    return False


def zero_blob(value):
    """Blob(item.line, b'\\x00' * X) -> source text of X"""
    if isinstance(value, ast.Call) and isinstance(value.func, ast.Name) and value.func.id == 'Blob' and len(value.args) == 2 \
            and not value.keywords:
        d = value.args[1]
        if isinstance(d, ast.BinOp) and isinstance(d.op, ast.Mult) and isinstance(d.left, ast.Constant) and d.left.value == b'\x00':
            return ast.unparse(d.right)
    return None


class Walker:
    def __init__(self):
        self.zero = {}          # variable -> X when it is currently bound to a zero blob of X bytes (per path, threaded below)

    def stmts(self, body, zero):
        """-> list of (events, status, zero)"""
        res = [([], 'fall', zero)]
        for st in body:
            new = []
            for ev, status, z in res:
                if status != 'fall':
                    new.append((ev, status, z))
                    continue
                for ev2, st2, z2 in self.stmt(st, z):
                    new.append((ev + ev2, st2, z2))
            res = new
            if len(res) > 4000:
                fail(st, 'too many paths')
        return res

    def stmt(self, st, zero):
        if isinstance(st, ast.If):
            return self.stmts(st.body, zero) + self.stmts(st.orelse, zero)
        if isinstance(st, ast.Try):
            out = self.stmts(st.body, zero)
            if any(ev for ev, _, _ in out) and st.handlers:
                # a handler would run after a PREFIX of these events: only understood when the body has none
                fail(st, 'bookkeeping inside a try body')
            for h in st.handlers:
                out += self.stmts(h.body, zero)
            if st.finalbody or st.orelse:
                fail(st, 'try ... else / finally')
            return out
        if isinstance(st, ast.With):
            return self.stmts(st.body, zero)
        if isinstance(st, (ast.For, ast.While)):
            if writes(st):
                fail(st, 'inner loop changing position / new_items')
            return [([], 'fall', zero)]
        if isinstance(st, ast.Continue):
            return [([], 'continue', zero)]
        if isinstance(st, ast.Raise):
            return [([], 'raise', zero)]
        if isinstance(st, ast.Return):
            return [([], 'return', zero)]
        if isinstance(st, ast.AugAssign) and isinstance(st.target, ast.Name) and st.target.id == 'position':
            if not isinstance(st.op, ast.Add):
                fail(st, 'position may only be advanced with +=')
            return [([('BPos', ast.unparse(st.value))], 'fall', zero)]
        if isinstance(st, ast.Expr) and isinstance(st.value, ast.Call):
            f = ast.unparse(st.value.func)
            if f == 'new_items.append':
                a = st.value.args
                if len(a) != 1 or not isinstance(a[0], ast.Name):
                    fail(st, 'new_items.append(<variable>)')
                v = a[0].id
                return [([('BApp', zero[v] if v in zero else v + '.size()')], 'fall', zero)]
            if f.startswith('new_items.'):
                fail(st, 'new_items may only be appended to')
            if f == 'labels.update':
                return [([('BLab', '')], 'fall', zero)]
            if touches(st, {'position'}) and not f.startswith('log_'):
                pass        # position only READ as an argument: fine
            return [([], 'fall', zero)]
        if isinstance(st, ast.Assign):
            for t in st.targets:
                for n in ast.walk(t):
                    if isinstance(n, ast.Name) and n.id in ('position', 'new_items'):
                        fail(st, 'assignment to position / new_items inside the loop')
            evs = []
            z = dict(zero)
            for t in st.targets:
                names = [n.id for n in ast.walk(t) if isinstance(n, ast.Name) and isinstance(n.ctx, ast.Store)]
                for v in names:
                    z.pop(v, None)
                    evs.append(('BBind', v))
                if isinstance(t, ast.Name):
                    x = zero_blob(st.value)
                    if x is not None:
                        z[t.id] = x
            return [(evs, 'fall', z)]
        if isinstance(st, (ast.Pass, ast.Assert)):
            return [([], 'fall', zero)]
        if isinstance(st, ast.AugAssign):
            if touches(st.target, {'position', 'new_items'}):
                fail(st, 'augmented assignment')
            return [([], 'fall', zero)]
        if isinstance(st, ast.Expr):
            return [([], 'fall', zero)]
        fail(st, 'statement kind ' + type(st).__name__)


def pass_paths(fn):
    loops = [st for st in fn.body if isinstance(st, ast.For)]
    if len(loops) != 1 or ast.unparse(loops[0].target) != 'item' or ast.unparse(loops[0].iter) != 'items':
        fail(fn, 'exactly one `for item in items` loop expected in ' + fn.name)
    # outside the loop: position = 0, new_items = [] and nothing else touching them
    for st in fn.body:
        if st is loops[0]:
            continue
        if isinstance(st, ast.Assign) and ast.unparse(st) in ('position = 0', 'new_items = []'):
            continue
        if isinstance(st, ast.Return):
            if ast.unparse(st) != 'return new_items':
                fail(st, 'pass must return new_items')
            continue
        if isinstance(st, ast.FunctionDef):
            continue
        if touches(st, {'position', 'new_items'}):
            fail(st, 'statement outside the loop touching position / new_items')
    starts = [ast.unparse(st) for st in fn.body if isinstance(st, ast.Assign)]
    if 'position = 0' not in starts or 'new_items = []' not in starts:
        fail(fn, 'position = 0 / new_items = [] missing in ' + fn.name)
    w = Walker()
    out = []
    seen = set()
    for ev, status, _ in w.stmts(loops[0].body, {}):
        key = (tuple(ev), status)
        if key in seen:
            continue
        seen.add(key)
        out.append((ev, status))
    return out


def emit(repo):
    path = os.path.join(repo, 'bronzebeard', 'asm.py')
    tree = ast.parse(open(path).read())
    fns = {n.name: n for n in tree.body if isinstance(n, ast.FunctionDef)}
    rows = []
    for nm in PASSES:
        if nm not in fns:
            fail(tree, 'pass {} not found'.format(nm))
        for ev, status in pass_paths(fns[nm]):
            rows.append((nm, status, ev))
    out = [HEADER.format(src='asm.py (position / new_items bookkeeping of the passes that keep a running position, path by path)')]
    out.append('Inductive bev := BPos (e : string) | BApp (size : string) | BBind (v : string) | BLab.')
    out.append('(* (pass, how the path ends: fall / continue / raise / return, events in order) *)')
    out.append('Definition paths : list (string * string * list bev) :=\n  [{}].'.format(';\n   '.join(
        '({}, {}, [{}])'.format(slit(nm), slit(status), '; '.join(
            'BLab' if k == 'BLab' else '{} {}'.format(k, slit(v)) for k, v in ev)) for nm, status, ev in rows)))
    return '\n'.join(out) + '\n'


def units(repo):
    return [('Book', lambda: emit(repo))]
