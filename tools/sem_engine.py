"""Engine of C05 (pseudo-instructions have exactly their documented effect).

Falsifier: assembles pseudo-instructions with the REAL assembler (alone and inside programs, compression off and on),
loads the emitted bytes of each pseudo-instruction line into the memory of the extracted Spec machine (build/bbsem =
coq/Spec/Sem.v: fetch by the low two bits, decode32 / decode16 + expand_c, step), runs it on random register files and
compares pc, all 31 registers and the set of memory writes with the DOCUMENTED effect computed here, independently, in
Python from docs/instruction_reference.rst (Description column + the li / call / tail sections).

Correspondence: the hand-written pass model (coq/Model/Passes.v: expand_pseudo / pseudo_rule, about which the theorems
of coq/Props/C05.v are proved) against the real assembler on pseudo-heavy programs (tools/pipeline.py)."""
import os
import re
import subprocess

import gen_programs
import harness
import isa
import pipeline

VERIF = os.path.dirname(os.path.dirname(os.path.abspath(__file__)))
M32 = 1 << 32

UNARY = ['mv', 'not', 'neg', 'seqz', 'snez', 'sltz', 'sgtz']
BRANCHZ = ['beqz', 'bnez', 'blez', 'bgez', 'bltz', 'bgtz']
BRANCH2 = ['bgt', 'ble', 'bgtu', 'bleu']
JUMPS = ['j', 'jal']
JUMPR = ['jr', 'jalr']
CALLTAIL = ['call', 'tail']
ALL27 = ['nop', 'li'] + UNARY + BRANCHZ + BRANCH2 + JUMPS + JUMPR + ['ret'] + CALLTAIL + ['fence']
assert len(ALL27) == 27
# number of operands of the pseudo form (jal / jalr / fence share their mnemonic with a real instruction)
ARITY = {'nop': 0, 'ret': 0, 'fence': 0, 'li': None, 'j': 1, 'jal': 1, 'jr': 1, 'jalr': 1, 'call': 1, 'tail': 1}
ARITY.update({n: 2 for n in UNARY + BRANCHZ})
ARITY.update({n: 3 for n in BRANCH2})


def sgn(x):
    return x - M32 if x >= (1 << 31) else x


# ---- the documented effects (docs/instruction_reference.rst), on 32-bit register values -------------------------
DOC_UNARY = {
    'mv': lambda x: x,                              # Copy register
    'not': lambda x: x ^ 0xffffffff,                # One's complement
    'neg': lambda x: (-x) % M32,                    # Two's complement
    'seqz': lambda x: 1 if x == 0 else 0,           # Set if == zero
    'snez': lambda x: 1 if x != 0 else 0,           # Set if != zero
    'sltz': lambda x: 1 if sgn(x) < 0 else 0,       # Set if < zero
    'sgtz': lambda x: 1 if sgn(x) > 0 else 0,       # Set if > zero
}
DOC_BRANCHZ = {
    'beqz': lambda x: x == 0, 'bnez': lambda x: x != 0, 'blez': lambda x: sgn(x) <= 0,
    'bgez': lambda x: sgn(x) >= 0, 'bltz': lambda x: sgn(x) < 0, 'bgtz': lambda x: sgn(x) > 0,
}
DOC_BRANCH2 = {
    'bgt': lambda x, y: sgn(x) > sgn(y), 'ble': lambda x, y: sgn(x) <= sgn(y),
    'bgtu': lambda x, y: x > y, 'bleu': lambda x, y: x <= y,
}


def isa_int(t):
    try:
        int(t.replace(' ', ''), 0)
        return True
    except ValueError:
        return False


def doc_table():
    """The pseudo-instruction table of docs/instruction_reference.rst: name -> (operand names, documented expansion or None)."""
    path = os.path.join(harness.REPO, 'docs', 'instruction_reference.rst')
    out = {}
    try:
        text = open(path).read()
    except OSError:
        return out
    sec = text.split('Pseudo Instructions', 1)[-1].split('Expansion of', 1)[0]
    for m in re.finditer(r'^:code:`([^`]+)`\s+(?::code:`([^`]+)`|See below)\s+\S', sec, re.M):
        sig = m.group(1).replace(',', ' ').split()
        out[sig[0]] = (sig[1:], m.group(2))
    return out


def doc_expansion_text(sig, expansion, ops, aliases, ints, labels, here):
    """The documented expansion with the operands of this use filled in, in the emulator's `name operands` form."""
    bind = dict(zip(sig, ops))
    t = expansion.replace(',', ' ').replace('(', ' ( ').replace(')', ' ) ').split()
    name, rest = t[0], t[1:]
    if len(rest) == 5 and rest[2] == '(':            # jalr rd, imm(rs1)
        rest = [rest[0], rest[3], rest[1]]
    vals = []
    for x in rest:
        if x == 'offset':
            vals.append(labels[bind['offset']] - here)
        elif x == 'iorw':
            vals.append(15)
        elif x in bind:
            vals.append(regnum(bind[x], aliases, ints))
        elif x in isa.REGNAMES and not x.lstrip('-').isdigit():
            vals.append(isa.REGNAMES[x])
        else:
            vals.append(int(x, 0))
    return ' '.join([name] + [str(v) for v in vals])


class Skip(Exception):
    """The probe's operands are outside what this oracle interprets (counted, not compared)."""


class Bbsem:
    def __init__(self):
        self.path = os.path.join(VERIF, 'build', 'bbsem')

    def available(self):
        return os.path.exists(self.path)

    def batch(self, lines, timeout=3000):
        if not lines:
            return []
        p = subprocess.run([self.path], input='\n'.join(lines) + '\n', stdout=subprocess.PIPE, stderr=subprocess.PIPE,
                           text=True, timeout=timeout)
        out = p.stdout.split('\n')
        if out and out[-1] == '':
            out.pop()
        if len(out) != len(lines):
            raise RuntimeError('bbsem: {} answers for {} queries (rc={}, stderr={})'.format(
                len(out), len(lines), p.returncode, p.stderr[-300:]))
        return out


# ---- reading a source line (independent of the assembler's parser; only the generated shapes) --------------------
def tokens_of(text):
    t = text.split('#')[0].replace('(', ' ( ').replace(')', ' ) ').replace(',', ' ')
    return t.split()


def source_constants(src):
    """NAME = value lines: register aliases (NAME = x9) and integer constants (python-evaluated, in order)."""
    regs, ints = {}, {}
    for l in src.split('\n'):
        t = tokens_of(l)
        if len(t) >= 3 and t[1] == '=':
            rhs = ' '.join(t[2:])
            if rhs in isa.REGNAMES and not rhs.isdigit():
                regs[t[0]] = isa.REGNAMES[rhs]
                ints[t[0]] = isa.REGNAMES[rhs]
            else:
                try:
                    v = eval(rhs.replace(' ( ', '(').replace(' ) ', ')'), {'__builtins__': {}}, dict(ints))
                    if type(v) is int:
                        ints[t[0]] = v
                except Exception:
                    pass
    return regs, ints


def probe_of_line(text):
    """(name, operand tokens) when the line is one of the 27 pseudo-instructions, else None."""
    if text.lstrip().startswith(('string ', 'error ')):
        return None
    t = tokens_of(text)
    if not t or (len(t) >= 2 and t[1] == '=') or t[0].endswith(':'):
        return None
    head = t[0].lower()
    if head not in ARITY:
        return None
    ops = t[1:]
    if head == 'li':
        return (head, ops) if len(ops) >= 2 else None
    if len(ops) != ARITY[head]:
        return None            # jal rd, L / jalr rd, rs, imm / fence a, b are real instructions
    return head, ops


def regnum(tok, aliases, ints):
    if tok in aliases:
        return aliases[tok]
    if tok in ints and 0 <= ints[tok] <= 31:
        return ints[tok]
    if tok in isa.REGNAMES:
        return isa.REGNAMES[tok]
    raise Skip('register ' + tok)


def li_value(ops, labels, ints, here):
    """Value of the operand of li: integer literal / expression over constants and labels / %position / %offset."""
    toks = list(ops)
    if toks and toks[0] in ('%position', '%offset'):
        inner = [x for x in toks[1:] if x not in ('(', ')')]
        if toks[0] == '%offset':
            if len(inner) != 1 or inner[0] not in labels:
                raise Skip('li %offset operand')
            return labels[inner[0]] - here
        if len(inner) < 2 or inner[0] not in labels:
            raise Skip('li %position operand')
        return labels[inner[0]] + li_value(inner[1:], labels, ints, here)
    if any(x.startswith('%') for x in toks):
        raise Skip('li nested modifier')
    text = ' '.join(toks).replace(' ( ', '(').replace(' ) ', ')')
    env = dict(labels)
    env.update(ints)           # constants shadow labels
    try:
        v = eval(text, {'__builtins__': {}}, env)
    except Exception:
        raise Skip('li expression')
    if type(v) is not int:
        raise Skip('li non-int')
    return v


def doc_effect(name, ops, regs, pc, size, labels, aliases, ints, here, base, nblobs=1):
    """(registers x0..x31 after, pc after) that the instruction reference documents.  regs: list of 32 (regs[0] = 0);
    pc: address of the pseudo-instruction; size: bytes it occupies; labels: label -> offset; here: its own offset."""
    new = list(regs)

    def R(tok):
        return regs[regnum(tok, aliases, ints)]

    def W(n, v):
        if n != 0:
            new[n] = v % M32

    def target(tok):
        if tok in ints and tok not in labels:
            raise Skip('constant as target')
        if tok not in labels:
            raise Skip('target ' + tok)
        return (base + labels[tok]) % M32
    npc = (pc + size) % M32
    if name in ('nop', 'fence'):
        pass
    elif name == 'li':
        W(regnum(ops[0], aliases, ints), li_value(ops[1:], labels, ints, here))
    elif name in UNARY:
        W(regnum(ops[0], aliases, ints), DOC_UNARY[name](R(ops[1])))
    elif name in BRANCHZ:
        if DOC_BRANCHZ[name](R(ops[0])):
            npc = target(ops[1])
    elif name in BRANCH2:
        if DOC_BRANCH2[name](R(ops[0]), R(ops[1])):
            npc = target(ops[2])
    elif name == 'j':
        npc = target(ops[0])
    elif name == 'jal':
        npc = target(ops[0]); W(1, pc + size)
    elif name == 'jr':
        npc = R(ops[0]) & ~1
    elif name == 'jalr':
        npc = R(ops[0]) & ~1; W(1, pc + size)
    elif name == 'ret':
        npc = regs[1] & ~1
    elif name == 'call':
        npc = target(ops[0]); W(1, pc + size)
    elif name == 'tail':
        npc = target(ops[0])
        if nblobs == 2:
            # the documented far form "auipc x6, %hi(offset) ; jalr x0, x6, %lo(offset)" leaves pc + (%hi(offset) << 12) in the
            # scratch register x6 (instruction reference, "Expansion of tail offset")
            off = labels[ops[0]] - here
            W(6, pc + (((off + 0x800) >> 12) << 12))
    else:
        raise Skip(name)
    return new, npc


# ---- register files -------------------------------------------------------------------------------------------------
SPECIAL = [0, 1, 2, 0x7fffffff, 0x80000000, 0x80000001, 0xffffffff, 0xfffffffe, 0x7ff, 0x800, 0xfff, 0x1000, 0xfffff800]


def regfile(rng, involved):
    regs = [0] * 32
    for i in range(1, 32):
        regs[i] = rng.choice(SPECIAL) if rng.random() < 0.25 else rng.randrange(M32)
    inv = [r for r in involved if r]
    if inv:
        k = rng.randrange(5)
        if k == 0:
            for r in inv:
                regs[r] = rng.choice(SPECIAL)
        elif k == 1 and len(inv) >= 2:
            regs[inv[1]] = regs[inv[0]]
        elif k == 2 and len(inv) >= 2:
            regs[inv[1]] = (regs[inv[0]] + rng.choice([1, -1, 1 << 31])) % M32
    return regs


BASES = [0, 0x08000000, 0x20000000, 0x7ffff000, 0x80000000, 0xfffff000, 0x1000]


# ---- one assembled program -> probes ---------------------------------------------------------------------------------
def offsets_of_lines(chunks):
    """line -> (offset of its first chunk, [bytes of its chunks]); label offsets are recomputed from the chunk sizes."""
    off = 0
    per = {}
    for (_, ln, b) in chunks:
        per.setdefault(ln, [off, []])[1].append(b)
        off += len(b)
    return per, off


def label_offsets(src, chunks):
    res = {}
    for i, l in enumerate(src.split('\n'), start=1):
        t = tokens_of(l)
        if len(t) == 1 and t[0].endswith(':') and not l.lstrip().startswith('string '):
            res[t[0].rstrip(':')] = sum(len(b) for (_, ln, b) in chunks if ln < i)
    return res


class Run:
    """Collects emulator queries for many probes and judges them in one batch."""

    def __init__(self, ctx, sem):
        self.ctx, self.sem = ctx, sem
        self.q, self.meta = [], []
        self.docs = doc_table()
        if sorted(self.docs) != sorted(ALL27):
            ctx.notes.append('docs/instruction_reference.rst lists pseudo-instructions {} (expected the 27 of the property)'.format(sorted(self.docs)))

    def add_program(self, prog, real, files=1, only_lines=None):
        ctx = self.ctx
        src = prog['source']
        aliases, ints = source_constants(src)
        per, total = offsets_of_lines(real['chunks'])
        labels = label_offsets(src, real['chunks'])
        n = 0
        for i, text in enumerate(src.split('\n'), start=1):
            if only_lines is not None and i not in only_lines:
                continue
            pr = probe_of_line(text)
            if pr is None:
                continue
            name, ops = pr
            if i not in per:
                ctx.cex('line {} "{}" emitted no bytes'.format(i, text[:60]), self.inp(prog, i, name, None, None), 'no chunk',
                        'the machine code of ' + name, {'kind': 'pseudo-effect', 'pseudo': name, 'what': 'no-bytes'})
                continue
            off, blobs = per[i]
            for _ in range(files):
                self.add_probe(prog, i, text, name, ops, off, blobs, labels, aliases, ints)
                n += 1
        return n

    def inp(self, prog, line, name, regs, base):
        return {'source': prog['source'], 'compress': prog.get('compress', False), 'line': line, 'pseudo': name,
                'regs': regs, 'base': base}

    def add_probe(self, prog, line, text, name, ops, off, blobs, labels, aliases, ints, regs=None, base=None):
        ctx = self.ctx
        rng = ctx.rng
        try:
            involved = [regnum(o, aliases, ints) for o in ops[:2] if o in aliases or o in isa.REGNAMES]
        except Skip:
            involved = []
        if regs is None:
            regs = regfile(rng, involved)
        if base is None:
            base = rng.choice(BASES)
        size = sum(len(b) for b in blobs)
        pc = (base + off) % M32
        try:
            want = doc_effect(name, ops, regs, pc, size, labels, aliases, ints, off, base, len(blobs))
        except Skip as e:
            ctx.count('skipped-' + str(e).split()[0])
            return
        code = b''.join(blobs)
        self.q.append('run {} {} {} {}:{}'.format(len(blobs), pc, ','.join(str(v) for v in regs[1:]), pc, code.hex()))
        doc = None
        sig_exp = self.docs.get(name)
        if sig_exp and sig_exp[1] and not prog.get('compress', False) and len(blobs) == 1:
            try:
                doc = doc_expansion_text(sig_exp[0], sig_exp[1], ops, aliases, ints, labels, off)
            except Exception:
                doc = None
        self.meta.append((prog, line, text, name, ops, regs, base, pc, size, want, [len(b) for b in blobs], doc))

    def judge(self):
        ctx = self.ctx
        answers = self.sem.batch(self.q)
        for a, (prog, line, text, name, ops, regs, base, pc, size, want, shape, doc) in zip(answers, self.meta):
            ctx.evaluations += 1
            compress = prog.get('compress', False)
            form = '+'.join(str(x) for x in shape)
            ctx.count('pseudo-' + name)
            head, _, trace = a.partition(' | ')
            h = head.split()
            inp = self.inp(prog, line, name, regs, base)
            mt = {'kind': 'pseudo-effect', 'pseudo': name, 'form': form, 'compress': compress}
            if name == 'li':
                rest = ' '.join(ops[1:])
                mt['operand'] = '%offset' if '%offset' in rest else '%position' if '%position' in rest else \
                    'literal' if isa_int(rest) else 'expression'

            brief = 'line {} "{}" ({}compressed, bytes {}) from pc={:#x}'.format(
                line, text.strip()[:50], '' if compress else 'un', form, pc)
            if doc is not None:
                # not part of the property (only the EFFECT is): recorded so that a drift between the Expansion column of the
                # reference and the emitted instruction shows up in the evidence
                if trace.strip() == doc:
                    ctx.count('doc-expansion-column-agrees')
                else:
                    ctx.count('doc-expansion-column-differs')
                    if len(ctx.notes) < 8:
                        ctx.notes.append('"{}": documented expansion `{}`, emitted `{}`'.format(text.strip(), doc, trace.strip()))
            if h[0] != 'ok':
                ctx.cex('{}: emitted code does not execute ({}); decoded: {}'.format(brief, head, trace), inp,
                        {'emulator': head, 'decoded': trace}, 'documented effect of ' + name, dict(mt, what='stuck'))
                continue
            got_pc = int(h[1])
            got = [0] + [int(x) for x in h[2].split(',')]
            nw = int(h[3])
            wregs, wpc = want
            if name == 'li':
                key = (name, ops[0], wregs[isa.REGNAMES[ops[0]]] if ops[0] in isa.REGNAMES else None, form, compress)
            else:
                key = (name, tuple(ops[:2]), form, compress)
            ctx.nontriv(key)
            bad = []
            if got_pc != wpc:
                bad.append('pc = {:#x}, documented {:#x}'.format(got_pc, wpc))
            for r in range(1, 32):
                if got[r] != wregs[r]:
                    bad.append('x{} = {:#x}, documented {:#x} (before: {:#x})'.format(r, got[r], wregs[r], regs[r]))
            if nw:
                bad.append('{} byte(s) of memory written'.format(nw))
            if bad:
                ctx.cex('{}: {}; decoded: {}'.format(brief, '; '.join(bad[:4]), trace), inp,
                        {'pc': got_pc, 'regs': got[1:], 'mem_writes': nw, 'decoded': trace},
                        {'pc': wpc, 'regs': wregs[1:], 'mem_writes': 0},
                        dict(mt, what='pc' if got_pc != wpc else 'register' if not nw else 'memory'))
        n = len(self.q)
        self.q, self.meta = [], []
        return n


# ---- program families --------------------------------------------------------------------------------------------------
def spell(rng, n):
    return rng.choice(['x%d' % n, isa.ABI[n]]) if n != 8 else rng.choice(['x8', 's0', 'fp'])


def pair_programs(rng, name, pairs):
    """Lines `name ra, rb[, T]` for the given register pairs; branch targets: one label in the middle (forward for the
    first half, backward for the second)."""
    progs = []
    for s in range(0, len(pairs), 256):
        part = pairs[s:s + 256]
        lines = []
        for k, (a, b) in enumerate(part):
            if k == len(part) // 2:
                lines.append('T:')
            if name in UNARY:
                lines.append('{} {}, {}'.format(name, spell(rng, a), spell(rng, b)))
            else:
                lines.append('{} {}, {}, T'.format(name, spell(rng, a), spell(rng, b)))
        progs.append({'source': '\n'.join(lines) + '\n', 'family': 'pairs-' + name})
    return progs


def single_program(rng):
    lines = ['B:', 'nop', 'ret', 'fence', 'j F', 'jal F', 'call F', 'tail F', 'j B', 'jal B', 'call B', 'tail B']
    for r in range(32):
        for nm in BRANCHZ:
            lines.append('{} {}, {}'.format(nm, spell(rng, r), rng.choice(['F', 'B'])))
        lines.append('jr ' + spell(rng, r))
        lines.append('jalr ' + spell(rng, r))
        lines.append('li {}, {}'.format(spell(rng, r), rng.choice([0, 1, -1, 2047, -2048, 2048, -2049, 0x12345678, 0xdeadbeef, -0x80000000])))
        lines.append('li {}, {}'.format(spell(rng, r), rng.randrange(-(1 << 31), 1 << 32)))
    lines += ['F:', 'nop', 'NOP', 'RET', 'Li t0, 5', 'MV a0, a1']
    return {'source': '\n'.join(lines) + '\n', 'family': 'single'}


UPPER_QUICK = [0, 1, 0x7ffff, 0x80000, 0xfffff, 0x12345]
UPPER_ALL = sorted(set(UPPER_QUICK + [2, 0x7fffe, 0x80001, 0xffffe, 0xabcde, 0x55555, 0xaaaaa, 0x3ffff, 0x40000, 0xbffff, 0xc0000,
                                      0x7fff, 0x8000, 0xff, 0x100, 0xfff00, 0xf0f0f, 0x0f0f0, 0x00fff, 0x01000, 0x10000, 0xf0000, 0x7f000, 0x80fff,
                                      0x0001f, 0x00020, 0xfffe0, 0xfffdf, 0x00010, 0xffff0] + [(0x9e377 * k) & 0xfffff for k in range(1, 29)]))[:64]


def li_values(ctx):
    quick = ctx.quick()
    ups = UPPER_QUICK if quick else UPPER_ALL
    lows = range(8192) if not quick else sorted(set(list(range(0, 8192, 7)) + [0x7fe, 0x7ff, 0x800, 0x801, 0xffe, 0xfff, 0x1000, 0x1001,
                                                                                  0x17ff, 0x1800, 0x1801, 0x1fff, 31, 32, 33]))
    for u in ups:
        for l in lows:
            yield ((u << 12) + l) % M32
    for v in [0, 1, 0x7fffffff, 0x80000000, 0xffffffff, 0xfffff800, 0xfffff7ff, 0x7ffff800, 0x7ffff7ff, 0x7fffffff - 0x7ff, 0x800, 0x7ff]:
        yield v
    for _ in range(500 if quick else 20000):
        yield ctx.rng.randrange(M32)


def li_spelling(rng, v, k):
    """The same 32-bit pattern written as a positive, negative or out-of-range integer (li documents `imm` as any value)."""
    m = k % 8
    if m == 0:
        return hex(v)
    if m == 1:
        return str(v - M32) if v >= (1 << 31) else str(v)
    if m == 2:
        return str(v - M32)                     # negative spelling of every pattern (down to -2^32 + 1)
    if m == 3:
        return hex(v + M32 * rng.choice([1, 2, 0x1000]))   # beyond 32 bits: documented as mod 2^32 by the property
    if m == 4:
        return bin(v)
    return str(v)


def li_programs(ctx):
    rng = ctx.rng
    vals = list(dict.fromkeys(li_values(ctx)))
    progs = []
    per = 1500
    for s in range(0, len(vals), per):
        lines = []
        for k, v in enumerate(vals[s:s + per]):
            rd = (s + k) % 32 if (s + k) % 5 else rng.choice([0, 2, 5, 10, 31])
            lines.append('li {}, {}'.format(spell(rng, rd), li_spelling(rng, v, s + k)))
        progs.append({'source': '\n'.join(lines) + '\n', 'family': 'li-values'})
    return progs


BR_GAPS = [0, 2, 4, 250, 252, 254, 256, 2044, 2046, 2048, 4084, 4086, 4088, 4090, 4092, 4094]
J_GAPS = [0, 2, 2040, 2044, 2046, 2048, 4096, 65536, 1048564, 1048568, 1048570, 1048572, 1048574]
CT_LOWS = [0, 2, 4, 0x7fa, 0x7fc, 0x7fe, 0x800, 0x802, 0x804, 0xffc, 0xffe]
CT_GAPS = [0, 2, 2046, 4096, 1048560, 1048564, 1048566, 1048568, 1048570, 1048572, 1048574, 1048576, 1048578, 1048580] + \
    [(1 << 20) + 4096 * k + low for k, low in zip([1, 0, 2, 0, 1, 3, 0, 1, 0, 2, 7], CT_LOWS)] + [(1 << 21) + 6, 3 * (1 << 20) + 0x7fe]


def gap(n):
    return ['string ' + 'g' * n] if n > 0 else []


def ref_line(rng, kind):
    ra = lambda: spell(rng, rng.randrange(32))
    rc = lambda: 'x%d' % rng.randrange(8, 16)
    if kind in BRANCHZ:
        return '{} {}, T'.format(kind, rng.choice([ra(), rc(), rc()]))
    if kind in BRANCH2:
        return '{} {}, {}, T'.format(kind, ra(), ra())
    return '{} T'.format(kind)


def distance_programs(ctx):
    """Every distance class (near / far, forward / backward, at the edges of each range) for each referring pseudo."""
    rng = ctx.rng
    quick = ctx.quick()
    progs = []

    def add(kind, g, back, pre):
        ref = ref_line(rng, kind)
        if back:
            lines = ['T:', 'ret'] + gap(g) + pre + [ref]
        else:
            lines = pre + [ref] + gap(g) + ['T:', 'ret']
        progs.append({'source': '\n'.join(lines) + '\n', 'family': 'distance-' + kind, 'gap': g})
    pres = [[], ['nop'], ['li x5, 1', 'li x6, 0x12345'], ['addi x8, x8, 1', 'mv a0, a1']]
    for kind in BRANCHZ + BRANCH2:
        gs = BR_GAPS if not quick else rng.sample(BR_GAPS, 6) + [4090, 4092]
        for g in gs:
            for back in (False, True):
                add(kind, g, back, rng.choice(pres))
    for kind in JUMPS:
        gs = J_GAPS if not quick else rng.sample(J_GAPS[:8], 4) + J_GAPS[8:]
        for g in gs:
            for back in (False, True):
                add(kind, g, back, rng.choice(pres))
    for kind in CALLTAIL:
        gs = CT_GAPS if not quick else CT_GAPS[:4] + rng.sample(CT_GAPS[4:14], 5) + rng.sample(CT_GAPS[14:], 6)
        for g in gs:
            for back in (False, True):
                add(kind, g, back, rng.choice(pres))
    return progs


def li_label_programs(ctx):
    """li whose operand depends on a label: the value is the operand on the FINAL addresses (%offset: relative to the li)."""
    rng = ctx.rng
    progs = []
    lows = [0, 4, 0x7f8, 0x7fc, 0x7fe, 0x800, 0x802, 0x804, 0x808, 0xffc, 0x1000, 0x17fe, 0x1802, 0x2800]
    exprs = ['L', 'L + 4', '%position(L, 0x08000000)', '%position(L, 0x20000800)', '2135 - L', '0 - L', '%offset(L)', '%offset L', 'L * 2']
    n = 0
    for e in exprs:
        for low in (lows if not ctx.quick() else rng.sample(lows, 6)):
            for back in (False, True):
                cnt = rng.randrange(0, 4)
                big = rng.choice([0, 0, 0x1000, 0x12000])
                g = big + low
                fill = ['li x7, 1'] * cnt
                rd = spell(rng, rng.choice([5, 10, 1, 31, 6]))
                head = []
                if n % 3 == 0:
                    # rd written as a constant that names the register: the second alias pass rebuilds BOTH instructions of the
                    # expansion, and the rebuilt addi must still take its immediate at the position of the lui
                    head = ['WR = {}'.format(rd)]
                    rd = 'WR'
                li = 'li {}, {}'.format(rd, e)
                if back:
                    lines = head + ['L:'] + gap(g) + fill + [li]
                else:
                    lines = head + [li] + fill + gap(g) + ['L:']
                progs.append({'source': '\n'.join(lines) + '\n', 'family': 'li-label'})
                n += 1
    # a value that crosses the one-instruction threshold when the label moves down (decision on the pessimistic label)
    for cnt in (1, 3, 8):
        for C in range(2047 + 4 + 4 * cnt - 2, 2047 + 4 + 8 * cnt + 3, 2 if ctx.quick() else 1):
            progs.append({'source': 'li t0, {} - L\n'.format(C) + 'li x5, 1\n' * cnt + 'L:\n', 'family': 'li-label'})
            progs.append({'source': 'li a0, L + {}\n'.format(4094 - C) + 'li x5, 1\n' * cnt + 'L:\n', 'family': 'li-label'})
    return progs


def alias_programs(rng):
    src = ('W = s0\nV = x5\nZ = zero\nN = 9\nK = 40\nB:\nmv W, V\nnot V, W\nneg N, V\nseqz W, Z\nsnez Z, W\nbeqz W, T\nbgt V, W, T\n'
           'bleu N, Z, B\njr W\njalr V\nli W, K * 4\nli V, -K\nsltz W, W\nsgtz V, V\nT:\n')
    return [{'source': src, 'family': 'alias'}]


def alone_programs(rng):
    progs = []
    for nm in ALL27:
        for _ in range(2):
            a, b = spell(rng, rng.randrange(32)), spell(rng, rng.randrange(32))
            if nm in ('nop', 'ret', 'fence'):
                src = nm
            elif nm == 'li':
                src = 'li {}, {}'.format(a, rng.choice([5, -5, 0x12345678, 0x80000000, 0xfffff800, 4096, 2048]))
            elif nm in UNARY:
                src = '{} {}, {}'.format(nm, a, rng.choice([a, b]))
            elif nm in BRANCHZ:
                src = 'T:\n{} {}, T'.format(nm, a)
            elif nm in BRANCH2:
                src = '{} {}, {}, T\nT:'.format(nm, a, rng.choice([a, b]))
            elif nm in JUMPR:
                src = '{} {}'.format(nm, a)
            else:
                src = rng.choice(['T:\n{} T', '{} T\nT:']).format(nm)
            progs.append({'source': src + '\n', 'family': 'alone'})
    return progs


def mixed_programs(ctx, n):
    rng = ctx.rng
    progs = []
    for i in range(n):
        src, meta = gen_programs.program(rng, 'small' if i % 3 else 'medium', big_gap=(i % 8 == 0))
        progs.append({'source': src, 'family': 'mixed'})
    for k, (src, meta) in enumerate(gen_programs.scenarios(rng, max(14, n // 4))):
        progs.append({'source': src, 'family': 'scenario'})
    return progs


def both_modes(progs):
    out = []
    for p in progs:
        out.append(dict(p, compress=False))
        out.append(dict(p, compress=True))
    return out


# ---- explore ---------------------------------------------------------------------------------------------------------
def all_pairs(rng, quick, name):
    pairs = [(a, b) for a in range(32) for b in range(32)]
    return pairs


def explore(ctx):
    asm = harness.real_asm()
    sem = Bbsem()
    rng = ctx.rng
    if not sem.available():
        ctx.corr('bbsem unavailable', {}, None, None)
        return
    if ctx.counterexamples:
        return                  # re-invoked at depth after the bounded run already produced concrete failing inputs
    quick = ctx.quick()
    # (C) correspondence of the pass model (expand_pseudo / pseudo_rule and the passes around it) on pseudo-heavy programs
    corr = both_modes(alone_programs(rng) + alias_programs(rng) + [p for p in distance_programs(ctx) if p.get('gap', 0) < 70000][:: (4 if quick else 1)]
                      + li_label_programs(ctx)[:: (6 if quick else 1)] + mixed_programs(ctx, 24 if quick else 400))
    corr.append({'source': '\n'.join('li x%d, %d' % (k % 32, v) for k, v in enumerate(
        [0, 1, -1, 2047, 2048, -2048, -2049, 0x7ffff800, 0xfffff800, 0xffffffff, 0x80000000, -0x80000000, 0x12345678, 1 << 32, (1 << 32) + 5])) + '\n',
        'family': 'li-values', 'compress': False})
    ctx.count('correspondence-programs', len(corr))
    reals = pipeline.correspond(ctx, asm, corr, unit='Model.Passes (expand_pseudo / pseudo_rule)')
    run = Run(ctx, sem)
    files = 1 if quick else 3
    for p, real in zip(corr, reals):
        ctx.count('status-' + real['status'])
        if real['status'] == 'OK':
            run.add_program(p, real, files)
    run.judge()

    # (D) the falsifier proper
    def go(progs, files=files):
        if ctx.deep and ctx.counterexamples:
            return              # searching at depth because something broke: a concrete failing input is in hand
        for p in progs:
            real = pipeline.run_real(asm, p['source'], p.get('compress', False))
            ctx.count('status-' + real['status'])
            if real['status'] != 'OK':
                ctx.count('refused-' + p.get('family', '?'))
                if p.get('family') in ('li-values', 'single', 'alias', 'alone') or p.get('family', '').startswith('pairs-'):
                    ctx.cex('program of family {} refused: {}'.format(p.get('family'), pipeline.brief(real)),
                            {'source': p['source'][:2000], 'compress': p.get('compress', False)}, pipeline.brief(real),
                            'assembles', {'kind': 'pseudo-effect', 'what': 'refused', 'family': p.get('family')})
                continue
            run.add_program(p, real, files)
            if len(run.q) > 20000:
                run.judge()
        run.judge()
    # all 27 pseudos x all register pairs
    for nm in UNARY + BRANCH2:
        go(both_modes(pair_programs(rng, nm, all_pairs(rng, quick, nm))))
    go(both_modes([single_program(rng), single_program(rng)]))
    # li over the value space
    go(both_modes(li_programs(ctx)), files=1)
    # distances
    go(both_modes(distance_programs(ctx)))
    go(both_modes(li_label_programs(ctx)))
    if not quick:
        go(both_modes(mixed_programs(ctx, 1500)))
    ctx.sample({'source': 'mv x5, x5 / li x6, 0xfffff800 / call far ...', 'checked': 'pc, x1..x31, memory writes after executing the emitted bytes'})


def replay(ctx, rec):
    asm = harness.real_asm()
    sem = Bbsem()
    inp = rec['input']
    if 'line' not in inp:
        real = pipeline.run_real(asm, inp['source'], inp.get('compress', False))
        return real['status'] != 'OK'
    prog = {'source': inp['source'], 'compress': inp.get('compress', False)}
    real = pipeline.run_real(asm, prog['source'], prog['compress'])
    if real['status'] != 'OK':
        return True
    run = Run(ctx, sem)
    src = prog['source']
    aliases, ints = source_constants(src)
    per, _ = offsets_of_lines(real['chunks'])
    labels = label_offsets(src, real['chunks'])
    line = inp['line']
    text = src.split('\n')[line - 1]
    pr = probe_of_line(text)
    if pr is None or line not in per:
        return True
    off, blobs = per[line]
    if inp.get('regs') is None:
        run.add_probe(prog, line, text, pr[0], pr[1], off, blobs, labels, aliases, ints)
    else:
        run.add_probe(prog, line, text, pr[0], pr[1], off, blobs, labels, aliases, ints, regs=inp['regs'], base=inp['base'])
    run.judge()
    return bool(ctx.counterexamples)
