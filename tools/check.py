#!/venv/bin/python
"""Orchestrator of the bronzebeard verification checks.

  tools/check.py setup
  tools/check.py <ID> [--tier quick|thorough]
  tools/check.py replay <path>

A check: (1) regenerate coq/Gen from /repo's working tree, (2) make Props/<ID>.vo, (3) rebuild the extracted
executables if needed, (4) correspondence + falsifier of the property (tools/props/<ID>.py), (5) verdict,
evidence, replay files.  See DESIGN.md section 7.
"""
import fcntl
import glob
import hashlib
import importlib
import json
import os
import random
import re
import shutil
import subprocess
import sys
import time

VERIF = os.path.dirname(os.path.dirname(os.path.abspath(__file__)))
COQ = os.path.join(VERIF, 'coq')
BUILD = os.path.join(VERIF, 'build')
REPO = os.environ.get('VERIF_REPO', '/repo')
PY = '/venv/bin/python'
GUARD = 'BRONZEBEARD_VERIF'
WIDE_BUDGET_S = 420      # no further bounded round is started after this many seconds (source changed, nothing found yet)

os.environ['PYTHONPATH'] = REPO
os.environ['PYTHONHASHSEED'] = '0'
os.environ['PIP_NO_INDEX'] = '1'
os.environ[GUARD] = '1'
sys.path.insert(0, os.path.join(VERIF, 'tools'))
sys.path.insert(0, REPO)

import py2coq  # noqa: E402

TRUSTED_BASE = [
    'Coq 8.16.1 kernel incl. the vm_compute virtual machine (no native_compute)',
    'tools/py2coq.py translator (CPython ast parser; Python int ops <-> Z ops; c_uint32 <-> mod 2^32)',
    'hand-written Spec (coq/Spec/*.v) of RISC-V / Intel HEX / DfuSe written from the manuals',
    'hand-written models of Python built-ins (coq/Base/PyBase.v) tied by differential tests',
    'extraction (ExtrOcamlBasic, ExtrOcamlString only; no Extract Constant / Extract Inductive of our own), OCaml 4.13.1, ocaml/*.ml drivers',
    'the Python harness tools/*.py and its generators',
]


def log(*a):
    print('[check]', *a, file=sys.stderr, flush=True)


def run(cmd, cwd=None, timeout=3600, env=None):
    p = subprocess.run(cmd, cwd=cwd, stdout=subprocess.PIPE, stderr=subprocess.STDOUT, timeout=timeout,
                       env=env, text=True, errors='replace')
    return p.returncode, p.stdout


class Lock:
    def __enter__(self):
        os.makedirs(BUILD, exist_ok=True)
        self.f = open(os.path.join(BUILD, '.lock'), 'w')
        fcntl.flock(self.f, fcntl.LOCK_EX)
        return self

    def __exit__(self, *a):
        fcntl.flock(self.f, fcntl.LOCK_UN)
        self.f.close()


# --------------------------------------------------------------------------------------------- build
def coq_files():
    """_CoqProject is regenerated from the files on disk (Gen units included)."""
    files = []
    for d in ('Base', 'Gen', 'Spec', 'Model', 'Proofs', 'Props'):
        files += sorted(glob.glob(os.path.join(COQ, d, '*.v')))
    return [os.path.relpath(f, COQ) for f in files]


def regen():
    status = py2coq.generate(REPO, os.path.join(COQ, 'Gen'))
    proj = '-Q . BB\n-arg -w -arg -notation-overridden,-deprecated-hint-without-locality,-extraction-reserved-identifier\n' \
        + '\n'.join(coq_files()) + '\n'
    p = os.path.join(COQ, '_CoqProject')
    changed = py2coq.write_if_changed(p, proj)
    if changed or not os.path.exists(os.path.join(COQ, 'Makefile')):
        rc, out = run(['coq_makefile', '-f', '_CoqProject', '-o', 'Makefile'], cwd=COQ)
        if rc != 0:
            raise RuntimeError('coq_makefile failed: ' + out)
    return status


def make(targets, timeout=2400):
    cmd = ['timeout', str(timeout), 'make', '-j16', '-k'] + targets
    rc, out = run(cmd, cwd=COQ, timeout=timeout + 60)
    return rc, out


def print_assumptions(props_file):
    """Re-run coqc on the (cheap) Props file to capture its Print Assumptions output."""
    rc, out = run(['timeout', '600', 'coqc', '-Q', '.', 'BB', '-w', '-notation-overridden', props_file], cwd=COQ)
    theorems = re.findall(r'^\s*(?:Theorem|Corollary)\s+(\w+)', open(os.path.join(COQ, props_file)).read(), re.M)
    closed = out.count('Closed under the global context')
    axioms = []
    for m in re.finditer(r'^Axioms:\n((?:.+\n)+?)(?=\S|\Z)', out, re.M):
        axioms.append(m.group(1))
    ax_names = sorted(set(re.findall(r'^(\S+)\s*:', '\n'.join(axioms), re.M)))
    return rc, out, theorems, closed, ax_names


EXTRACT_SETS = {
    # name -> (Extract file, driver sources, vo dirs whose change forces a rebuild)
    'bbmodel': ('ExtractModel.v', ['zconv.ml', 'bbmodel_ext.ml', 'bbmodel.ml'], ['Base', 'Gen', 'Model']),
    'bbspec': ('ExtractSpec.v', ['zconv.ml', 'bbspec_ext.ml', 'bbspec.ml'], ['Base', 'Spec']),
}

# further executables: tools/exes_*.json = {name: [Extract file, [driver sources], [vo dirs]]}
for _f in sorted(glob.glob(os.path.join(VERIF, 'tools', 'exes_*.json'))):
    for _k, _v in json.load(open(_f)).items():
        EXTRACT_SETS[_k] = (_v[0], _v[1], _v[2])

ML_ORDER_HINT = ['BinNums', 'Datatypes', 'Bool', 'Specif', 'Decimal', 'Hexadecimal', 'Number', 'Nat', 'PeanoNat',
                 'BinPosDef', 'BinPos', 'BinNatDef', 'BinNat', 'BinIntDef', 'BinInt', 'Ascii', 'String', 'List']


def build_exe(name):
    """Extract and compile one executable; returns (ok, log)."""
    vfile, drivers, dirs = EXTRACT_SETS[name]
    exe = os.path.join(BUILD, name)
    src_v = os.path.join(COQ, vfile)
    if not os.path.exists(src_v):
        return False, 'missing ' + vfile
    deps = [src_v] + [os.path.join(VERIF, 'ocaml', d) for d in drivers]
    for d in dirs:
        deps += glob.glob(os.path.join(COQ, d, '*.vo'))
    if os.path.exists(exe) and all(os.path.getmtime(d) <= os.path.getmtime(exe) for d in deps if os.path.exists(d)):
        return True, 'up to date'
    xdir = os.path.join(BUILD, 'x_' + name)
    shutil.rmtree(xdir, ignore_errors=True)
    os.makedirs(xdir)
    rc, out = run(['timeout', '900', 'coqc', '-Q', COQ, 'BB', '-w', '-all', src_v], cwd=xdir)
    for junk in glob.glob(os.path.join(COQ, os.path.splitext(vfile)[0] + '.*')):
        if not junk.endswith('.v'):
            try:
                os.remove(junk)
            except OSError:
                pass
    if rc != 0:
        if os.path.exists(exe):
            os.remove(exe)
        return False, out[-3000:]
    for d in drivers:
        shutil.copy(os.path.join(VERIF, 'ocaml', d), xdir)
    # order modules by ocamldep
    mls = [f for f in os.listdir(xdir) if f.endswith('.ml')]
    rc, out = run(['ocamlfind', 'ocamldep', '-sort'] + sorted(f for f in os.listdir(xdir) if f.endswith(('.ml', '.mli'))), cwd=xdir)
    if rc != 0:
        return False, out[-3000:]
    order = out.split()
    rc, out = run(['ocamlfind', 'ocamlopt', '-w', '-a', '-o', exe] + order, cwd=xdir, timeout=900)
    if rc != 0:
        if os.path.exists(exe):
            os.remove(exe)
        return False, out[-3000:]
    return True, 'rebuilt'


class Exe:
    """Batch interface to a line-oriented executable."""
    def __init__(self, name):
        self.path = os.path.join(BUILD, name)
        self.name = name

    def available(self):
        return os.path.exists(self.path)

    def batch(self, lines, timeout=1800):
        if not lines:
            return []
        data = '\n'.join(lines) + '\n'
        p = subprocess.run([self.path], input=data, stdout=subprocess.PIPE, stderr=subprocess.PIPE, text=True,
                           timeout=timeout)
        out = p.stdout.split('\n')
        if out and out[-1] == '':
            out.pop()
        if len(out) != len(lines):
            raise RuntimeError('{}: {} answers for {} queries (rc={}, stderr={})'.format(
                self.name, len(out), len(lines), p.returncode, p.stderr[-500:]))
        return out


# --------------------------------------------------------------------------------------------- context
class Ctx:
    def __init__(self, pid, tier, seed):
        self.pid, self.tier, self.seed = pid, tier, seed
        self.rng = random.Random(seed)
        self.model = Exe('bbmodel')
        self.spec = Exe('bbspec')
        self.evaluations = 0
        self.nontrivial = set()
        self.samples = []
        self.dist = {}
        self.counterexamples = []      # genuine failures of the property on the implementation
        self.corr_broken = []          # model / implementation disagreements
        self.traces_validated = 0
        self.notes = []
        self.deep = False              # proof or correspondence broke: search harder
        self.rule = ''
        self.exhaustive = False
        self.unsupported = 0

    def quick(self):
        return self.tier == 'quick' and not self.deep

    def count(self, key, n=1):
        self.dist[key] = self.dist.get(key, 0) + n

    def sample(self, s, cap=12):
        if len(self.samples) < cap:
            self.samples.append(s)

    def nontriv(self, key):
        if len(self.nontrivial) < 2000000:
            self.nontrivial.add(key if isinstance(key, (str, int, tuple)) else repr(key))

    def cex(self, what, inp, observed, expected, match=None):
        """A concrete input on which the IMPLEMENTATION violates the property."""
        self.counterexamples.append({'what': what, 'input': inp, 'observed': observed, 'expected': expected,
                                     'match': match or {}})

    def corr(self, unit, inp, impl, model):
        """Model and implementation disagree."""
        if len(self.corr_broken) < 50:
            self.corr_broken.append({'unit': unit, 'input': inp, 'impl': impl, 'model': model})


def cex_classes(cexs):
    out = {}
    for c in cexs:
        k = json.dumps(c.get('match', {}), sort_keys=True)
        out[k] = out.get(k, 0) + 1
    return out


def load_known():
    p = os.path.join(VERIF, 'known_findings.json')
    if not os.path.exists(p):
        return {'findings': [], 'fixed': []}
    return json.load(open(p))


def finding_matches(f, cex):
    """A finding matches a counterexample when every key of its `match` equals the counterexample's."""
    m = f.get('match', {})
    cm = cex.get('match', {})
    if not m:
        return False
    for k, v in m.items():
        if k not in cm:
            return False
        if isinstance(v, list):
            if cm[k] not in v:
                return False
        elif cm[k] != v:
            return False
    return True


def write_replay(pid, rec):
    os.makedirs(os.path.join(VERIF, 'replays'), exist_ok=True)
    h = hashlib.sha1(json.dumps(rec, sort_keys=True, default=str).encode()).hexdigest()[:12]
    path = os.path.join('replays', '{}-{}.json'.format(pid, h))
    rec['replay'] = 'tools/check.py replay ' + path
    with open(os.path.join(VERIF, path), 'w') as f:
        json.dump(rec, f, indent=1, default=str)
    return path


def props_deps(pid):
    """Gen units the property's module declares."""
    mod = importlib.import_module('props.' + pid)
    return mod


def do_check(pid, tier, seed):
    t0 = time.time()
    mod = importlib.import_module('props.' + pid)
    ctx = Ctx(pid, tier, seed)
    broken = []          # theorem files / translation units / correspondences that no longer check
    props_file = 'Props/{}.v'.format(pid)
    build_log = ''
    with Lock():
        status = regen()
        for unit in mod.GEN_UNITS:
            if status.get(unit) is not None:
                broken.append('translation:{}: {}'.format(unit, status[unit]))
        rc, out = make([props_file + 'o'])
        build_log = out
        proof_ok = (rc == 0)
        if not proof_ok:
            m = re.findall(r'File "\./([^"]+)", line (\d+)', out)
            where = ', '.join(sorted(set('{}:{}'.format(a, b) for a, b in m))) or 'make'
            broken.append('proof:{} ({})'.format(props_file, where))
        theorems, closed, axioms, pa_out = [], 0, [], ''
        if proof_ok:
            rc2, pa_out, theorems, closed, axioms = print_assumptions(props_file)
            if rc2 != 0:
                proof_ok = False
                broken.append('proof:{} (recheck)'.format(props_file))
            allowed = set(getattr(mod, 'ALLOWED_AXIOMS', []))
            bad = [a for a in axioms if a not in allowed]
            if bad:
                proof_ok = False
                broken.append('axioms:{}'.format(','.join(bad)))
        # thorough tier: independent re-check of the compiled theory and everything it depends on
        coqchk_info = None
        if proof_ok and tier == 'thorough' and os.environ.get('VERIF_NO_COQCHK') != '1':
            rcc, outc = run(['timeout', '3000', 'coqchk', '-o', '-silent', '-Q', '.', 'BB', 'BB.Props.' + pid], cwd=COQ, timeout=3100)
            m = re.search(r'\* Axioms:\s*(.*?)\n\s*\n', outc, re.S)
            ax = (m.group(1).strip() if m else 'unparsed')
            coqchk_info = {'rc': rcc, 'axioms': ax}
            if rcc != 0:
                proof_ok = False
                broken.append('coqchk:{}'.format(outc[-300:].replace('\n', ' | ')))
            elif ax != '<none>' and not set(re.findall(r'[\w.]+', ax)) <= set(getattr(mod, 'ALLOWED_AXIOMS', [])):
                proof_ok = False
                broken.append('coqchk-axioms:{}'.format(ax[:300]))
        # executables
        exes = getattr(mod, 'EXES', ['bbmodel', 'bbspec'])
        # build the cone of the executables (Model / Spec files) too
        # ALWAYS the whole of Base / Gen / Spec / Model: the correspondence evaluates model terms with coqc against these
        # compiled files, and a .vo left over from a run on another tree (a Gen file changed and changed back) would make
        # that evaluation fail with `inconsistent assumptions` -- a false alarm on a tree where the property holds
        need = [f + 'o' for f in coq_files() if f.split('/')[0] in ('Base', 'Gen', 'Spec', 'Model')]
        for e in exes:
            for d in EXTRACT_SETS[e][2]:
                need += [f + 'o' for f in coq_files() if f.startswith(d + '/')]
        if need:
            rc3, out3 = make(sorted(set(need)))
            if rc3 != 0:
                build_log += out3
        for e in exes:
            ok, lg = build_exe(e)
            if not ok:
                broken.append('executable:{}: {}'.format(e, lg[-400:].replace('\n', ' | ')))
    proof_broken = bool(broken)
    ctx.deep = False
    os.makedirs(os.path.join(BUILD, 'logs'), exist_ok=True)
    with open(os.path.join(BUILD, 'logs', pid + '.build.log'), 'w') as f:
        f.write(build_log + '\n' + pa_out)

    # correspondence + falsifier
    try:
        mod.explore(ctx)
    except Exception as e:   # harness failure: fail closed
        import traceback
        traceback.print_exc()
        broken.append('harness:{}'.format(repr(e)[:300]))
    for c in ctx.corr_broken:
        tag = 'correspondence:{}'.format(c['unit'])
        if tag not in broken:
            broken.append(tag)
    if broken and not ctx.counterexamples:
        # a proof or a correspondence broke and the bounded run found no failing input: search again at depth
        ctx.deep = True
        try:
            mod.explore(ctx)
        except Exception as e:
            broken.append('harness:{}'.format(repr(e)[:300]))
    # The source differs from the one the bounded generators were sized on (tools/fingerprints.json) and nothing was found and
    # nothing broke: this is no alarm, but code that is tied to the model by differential runs only has been edited, so the
    # bounded search is repeated with further seeds before the check answers.
    src_changed = []
    if tier == 'quick' and os.environ.get('VERIF_NO_WIDE') != '1':
        import fingerprint
        src_changed = fingerprint.changed(REPO)
    wide_rounds = 0
    if src_changed and not broken and not ctx.counterexamples:
        for extra in (1, 2, 3):
            if time.time() - t0 > WIDE_BUDGET_S:
                break
            ctx.seed = seed + 7919 * extra
            ctx.rng = random.Random(ctx.seed)
            wide_rounds += 1
            try:
                mod.explore(ctx)
            except Exception as e:
                import traceback
                traceback.print_exc()
                broken.append('harness:{}'.format(repr(e)[:300]))
            for c in ctx.corr_broken:
                tag = 'correspondence:{}'.format(c['unit'])
                if tag not in broken:
                    broken.append(tag)
            if broken or ctx.counterexamples:
                break
        ctx.seed = seed
        if broken and not ctx.counterexamples:
            ctx.deep = True
            try:
                mod.explore(ctx)
            except Exception as e:
                broken.append('harness:{}'.format(repr(e)[:300]))
    if src_changed:
        ctx.notes.append('source differs from tools/fingerprints.json in {}; {} further bounded round(s) with other seeds'.format(
            ', '.join(src_changed[:12]), wide_rounds))

    known = load_known()
    findings = [f for f in known.get('findings', []) if f.get('property') == pid]
    new_cex, known_hits = [], {}
    for c in ctx.counterexamples:
        hit = None
        for f in findings:
            if finding_matches(f, c):
                hit = f
                break
        if hit is None:
            new_cex.append(c)
        else:
            known_hits.setdefault(hit['id'], (hit, c))

    violations = 0
    lines = []
    if new_cex:
        violations = len(new_cex)
        c = new_cex[0]
        rec = {'property': pid, 'kind': 'counterexample', 'seed': seed, 'tier': tier, 'broken': broken,
               'input': c['input'], 'observed': c['observed'], 'expected': c['expected'], 'what': c['what'],
               'others': [x['what'] for x in new_cex[1:20]]}
        path = write_replay(pid, rec)
        lines.append('VIOLATION property={} replay={}'.format(pid, path))
    elif broken:
        violations = 1
        kind = 'translation-failed' if any(b.startswith('translation') for b in broken) else \
            'proof-broken' if any(b.startswith(('proof', 'axioms')) for b in broken) else 'correspondence-broken'
        rec = {'property': pid, 'kind': kind, 'seed': seed, 'tier': tier, 'broken': broken,
               'disagreements': ctx.corr_broken[:10],
               'build_log_tail': build_log[-4000:] if not proof_ok else '',
               'searched': {'evaluations': ctx.evaluations, 'rule': ctx.rule}}
        path = write_replay(pid, rec)
        lines.append('VIOLATION property={} replay={} no-failing-input-found'.format(pid, path))
    for fid, (f, c) in sorted(known_hits.items()):
        lines.append('KNOWN-FINDING: property={} {} [{}] e.g. {}'.format(pid, f['what'], fid,
                                                                       json.dumps(c['input'], default=str)[:200]))
    # listed findings that did not show up in this run are still announced (they are listed, not re-derived)
    for f in findings:
        if f['id'] not in known_hits:
            lines.append('KNOWN-FINDING: property={} {} [{}] (not re-observed in this run)'.format(pid, f['what'], f['id']))

    n_obl = len(theorems) if theorems else len(re.findall(r'^\s*(?:Theorem|Corollary)\s+(\w+)',
                                                            open(os.path.join(COQ, props_file)).read(), re.M))
    discharged = closed + (len(theorems) - closed if proof_ok and theorems else 0) if proof_ok else 0
    ev = {
        'property_id': pid, 'tier': tier, 'seed': seed, 'level': 'proof',
        'coverage': {
            'obligations': max(n_obl, 1),
            'discharged': discharged if proof_ok else 0,
            'theorems': theorems,
            'axioms_reported_by_Print_Assumptions': axioms,
            'closed_under_global_context': closed,
            'checker_cmd': 'cd coq && make -j16 {}o && coqc -Q . BB {}   (Print Assumptions under every theorem); thorough: coqchk -o -Q . BB BB.Props.{}'.format(props_file, props_file, pid),
            'coqchk': coqchk_info,
            'trusted_base': TRUSTED_BASE + list(getattr(mod, 'TRUSTED_EXTRA', [])),
            'gen_units': {u: ('ok' if status.get(u) is None else status.get(u)) for u in mod.GEN_UNITS},
            'evaluations': ctx.evaluations,
            'distinct_nontrivial': len(ctx.nontrivial),
            'rule': ctx.rule,
            'samples': ctx.samples,
            'input_distribution': ctx.dist,
            'traces_validated_against_impl': ctx.traces_validated,
            'unsupported_by_model': ctx.unsupported,
            'exhaustive': ctx.exhaustive,
            'broken': broken,
            'known_findings_reobserved': sorted(known_hits.keys()),
            'counterexample_classes': cex_classes(ctx.counterexamples),
            'notes': ctx.notes,
        },
        'assumptions': list(getattr(mod, 'ASSUMPTIONS', [])),
        'wall_s': round(time.time() - t0, 2),
        'violations': violations,
    }
    n_dis, n_obl_ev = ev['coverage']['discharged'], ev['coverage']['obligations']
    if ev['coverage']['discharged'] < 1:
        # the proof did not check on this tree: report it under other keys so the file stays schema-valid
        ev['coverage']['obligations_total'] = ev['coverage'].pop('obligations')
        ev['coverage']['discharged_count'] = ev['coverage'].pop('discharged')
        ev['coverage']['evaluations'] = max(ev['coverage']['evaluations'], 1)
    os.makedirs(os.path.join(VERIF, 'evidence'), exist_ok=True)
    with open(os.path.join(VERIF, 'evidence', pid + '.json'), 'w') as f:
        json.dump(ev, f, indent=1, default=str)
    for l in lines:
        print(l)
    print('{}: theorems {}/{} ; evaluations {} ; distinct non-trivial {} ; broken {} ; counterexamples {} (new {}) ; {:.1f}s'.format(
        pid, n_dis, n_obl_ev, ctx.evaluations, len(ctx.nontrivial),
        len(broken), len(ctx.counterexamples), len(new_cex), time.time() - t0))
    return 1 if violations else 0


def do_setup():
    t0 = time.time()
    with Lock():
        status = regen()
        for u, e in status.items():
            log('translate', u, 'OK' if e is None else 'FAILED ' + e)
        rc, out = make([], timeout=3000)
        print(out[-3000:])
        if rc != 0:
            log('make failed')
        for e in EXTRACT_SETS:
            ok, lg = build_exe(e)
            log('executable', e, 'OK' if ok else 'FAILED', lg[-300:])
        # every property plug-in must load (a typo in a claim text must not silently drop a check)
        for i in range(1, 21):
            try:
                importlib.import_module('props.C%02d' % i)
            except Exception as e:
                print('CANNOT IMPORT props.C%02d: %r' % (i, e))
                rc = rc or 5
        # the decision extractors must react to an edit of every decision they read (tools/selftest_units.py)
        rcs, outs = run([PY, os.path.join(VERIF, 'tools', 'selftest_units.py'), REPO])
        print(outs.strip())
        if rcs != 0:
            rc = rc or 4
        # forbidden words
        rcg, outg = run(['grep', '-rnE', r'\b(Admitted|admit|Axiom|Parameter|Conjecture|Unset Guard|bypass_check|Admit Obligations)\b',
                         '--include=*.v', COQ])
        if outg.strip():
            print('FORBIDDEN WORDS FOUND:\n' + outg)
            rc = rc or 3
    log('setup done in {:.0f}s'.format(time.time() - t0))
    return 0 if rc == 0 else 1


def do_replay(path):
    rec = json.load(open(os.path.join(VERIF, path) if not os.path.isabs(path) else path))
    pid = rec['property']
    mod = importlib.import_module('props.' + pid)
    ctx = Ctx(pid, 'quick', rec.get('seed', 0))
    if rec.get('kind') != 'counterexample':
        print('replay: {} records a broken proof / correspondence, not an input: {}'.format(path, rec.get('broken')))
        return 1
    with Lock():
        regen()
        for e in getattr(mod, 'EXES', ['bbmodel', 'bbspec']):
            build_exe(e)
    still = mod.replay(ctx, rec)
    print('replay: property {} {} on input {}'.format(pid, 'STILL FAILS' if still else 'no longer fails',
                                                       json.dumps(rec['input'], default=str)[:300]))
    return 1 if still else 0


def main():
    a = sys.argv[1:]
    if not a:
        print(__doc__)
        return 2
    if a[0] == 'setup':
        return do_setup()
    if a[0] == 'replay':
        return do_replay(a[1])
    pid = a[0]
    tier = os.environ.get('VERIF_TIER', 'quick')
    if '--tier' in a:
        tier = a[a.index('--tier') + 1]
    seed = int(os.environ.get('VERIF_SEED', '20260926'))
    return do_check(pid, tier, seed)


if __name__ == '__main__':
    sys.exit(main())
