"""Gen unit `Effects` (property C16): whole-file effect summary of bronzebeard/asm.py, regenerated from the AST.

For every function / method / nested function / lambda of the file the summary lists the SET of effects its body may
have (flow-insensitive):

  EWrite r what     store to attribute/subscript, augmented assignment, `del`, mutating method call (append, extend,
                    update, pop, clear, insert, remove, setdefault, sort, add, discard, __setitem__, ...), the builtin
                    `eval` (may store into its locals mapping), unknown external calls (may mutate their arguments);
                    r is the receiver class
  ECall g args      call of a function of this file (direct; every method of that name for x.m(...); every
                    address-taken function for calls through a value), with, for each parameter of g, the class of
                    the object passed and of what is reachable from it
  ESetIter what     iteration order of a set-typed value is consumed
  EGlobalDecl what  global / nonlocal statement
  f_mutdef          indices of parameters with a mutable default

Receiver classes (conservative, intraprocedural, with interprocedural return summaries):
  RFresh / RFreshAttr   local bound only to literals, comprehensions, constructor calls, copy.deepcopy, known
                        fresh-returning library calls, immutable values / attribute slot of such an object
  RParam i / RParamDeep i   the object bound to parameter i / something reachable from it
  RGlobal g             module-level mutable object, enclosing-scope variable, module attribute, anything else
  ChainMap(a, ...) is an alias of a for stores;  vars(x) is an alias of x.

Fail closed: any statement / expression kind not handled below raises TranslationError (the Gen file becomes a stub
and Props/C16.v no longer compiles).  Soundness of this summary w.r.t. CPython is TRUSTED (DESIGN.md section 8)."""
import ast
import os

from py2coq import TranslationError, HEADER

UNIT_NAMES = ['Effects']
UNIT = 'Effects'

MUTATING_METHODS = {'append', 'extend', 'update', 'pop', 'popitem', 'clear', 'insert', 'remove', 'setdefault', 'sort',
                    'reverse', 'add', 'discard', '__setitem__', '__delitem__', '__setattr__', '__delattr__',
                    'difference_update', 'intersection_update', 'symmetric_difference_update', '__iadd__', '__ior__',
                    'appendleft', 'extendleft', 'popleft', 'rotate', 'new_child', 'write', 'writelines', 'truncate',
                    'addHandler', 'removeHandler', 'setLevel', 'add_argument'}
# external methods that neither mutate their receiver nor their arguments; True = result is an immutable value
PURE_METHODS = {
    'format': True, 'lower': True, 'upper': True, 'strip': True, 'lstrip': True, 'rstrip': True, 'startswith': True,
    'endswith': True, 'encode': True, 'decode': True, 'replace': True, 'join': True, 'isdigit': True, 'find': True,
    'count': True, 'index': True, 'hex': True, 'to_bytes': True, 'bit_length': True,
    'split': False, 'splitlines': False, 'keys': False, 'values': False, 'items': False, 'get': False, 'copy': False,
    'match': False, 'group': True, 'groups': False, 'search': False, 'read': True, 'parse_args': False,
    'info': True, 'debug': True, 'warning': True, 'error': True,     # logging: output only
    'union': False, 'intersection': False, 'difference': False, 'symmetric_difference': False, 'issubset': True,
    '__enter__': False, '__exit__': True,
}
# methods of file objects etc. that write OUTSIDE the interpreter (files): not an effect on later assemble() calls'
# inputs as far as the property goes, but they are still recorded as writes through their receiver (fresh objects).

# external callables: name -> (immutable result?, result aliases/contains args?)
PURE_FUNCS = {
    'len': (True,), 'int': (True,), 'str': (True,), 'repr': (True,), 'ord': (True,), 'chr': (True,), 'bool': (True,),
    'type': (True,), 'isinstance': (True,), 'issubclass': (True,), 'hasattr': (True,), 'abs': (True,), 'bytes': (True,),
    'all': (True,), 'any': (True,), 'sum': (True,), 'hex': (True,), 'bin': (True,), 'print': (True,),
    'min': (False,), 'max': (False,), 'sorted': (False,), 'list': (False,), 'dict': (False,), 'set': (False,),
    'frozenset': (False,), 'tuple': (False,), 'bytearray': (False,), 'enumerate': (False,), 'zip': (False,),
    'range': (False,), 'reversed': (False,), 'iter': (False,), 'open': (False,), 'divmod': (True,), 'round': (True,),
    'os.path.join': (True,), 'os.path.dirname': (True,), 'os.path.abspath': (True,), 'os.path.exists': (True,),
    'os.path.isdir': (True,), 'os.path.isfile': (True,), 'os.path.basename': (True,), 'os.path.getsize': (True,),
    'os.getcwd': (True,), 're.sub': (True,), 're.split': (False,), 're.compile': (False,), 're.match': (False,),
    'struct.pack': (True,), 'struct.unpack': (False,), 'struct.calcsize': (True,),
    'c_int32': (False,), 'c_uint32': (False,), 'partial': (False,), 'copy.copy': (False,),
    'logging.getLogger': (False,), 'logging.NullHandler': (False,), 'argparse.ArgumentParser': (False,),
    'ValueError': (False,), 'SystemExit': (False,), 'TypeError': (False,), 'KeyError': (False,),
    'Exception': (False,), 'RuntimeError': (False,), 'NotImplementedError': (False,),
}
FRESH_DEEP_FUNCS = {'copy.deepcopy'}                       # result shares nothing with the arguments
ORDER_INSENSITIVE = {'len', 'set', 'frozenset', 'sorted', 'min', 'max', 'sum', 'any', 'all', 'bool', 'isinstance',
                     'type', 'hasattr'}
BUILTIN_CONSTS = {'None', 'True', 'False', '__name__', '__file__', 'NotImplemented', 'Ellipsis'}
OK_DECORATORS = {'abc.abstractmethod', 'abstractmethod', 'staticmethod_NOT_SUPPORTED'}
FRESH = frozenset()
HANDLED_DUNDERS = {'__init__', '__len__', '__str__', '__repr__', '__format__'}
BUILTIN_EXC = {'SyntaxError', 'TypeError', 'ValueError', 'KeyError', 'IndexError', 'AttributeError', 'Exception',
               'OSError', 'IOError', 'FileNotFoundError', 'ZeroDivisionError', 'NameError', 'RuntimeError',
               'AssertionError', 'StopIteration', 'OverflowError', 'UnicodeDecodeError', 'UnicodeEncodeError',
               'NotImplementedError', 'SystemExit', 'BaseException', 'KeyboardInterrupt'}
for _e in BUILTIN_EXC:
    PURE_FUNCS[_e] = (False,)


def fail(node, what):
    raise TranslationError(UNIT, getattr(node, 'lineno', 0), what)


def dotted(node):
    """a.b.c -> 'a.b.c' for pure Name/Attribute chains, else None"""
    parts = []
    while isinstance(node, ast.Attribute):
        parts.append(node.attr)
        node = node.value
    if isinstance(node, ast.Name):
        parts.append(node.id)
        return '.'.join(reversed(parts))
    return None


class Fn:
    def __init__(self, qual, node, parent, cls):
        self.qual, self.node, self.parent, self.cls = qual, node, parent, cls
        a = node.args
        self.params = [x.arg for x in a.posonlyargs + a.args]
        self.npos = len(self.params)
        self.vararg = a.vararg.arg if a.vararg else None
        if self.vararg:
            self.params.append(self.vararg)
        self.kwonly = [x.arg for x in a.kwonlyargs]
        self.params += self.kwonly
        self.kwarg = a.kwarg.arg if a.kwarg else None
        if self.kwarg:
            self.params.append(self.kwarg)
        self.nested = {}          # name -> qual of nested defs
        self.local_modules = set()
        self.local_imports = {}
        self.locals = set()
        self.globals_decl = set()
        self.nonlocals_decl = set()
        self.effects = set()
        self.mutdef = []
        # return summary: (own atoms, deep atoms, immutable?, set-typed?)
        self.ret = (FRESH, FRESH, True, False)
        self.has_return_value = False

    def index(self, name):
        return self.params.index(name)


class Analyser:
    def __init__(self, path):
        self.path = path
        with open(path) as f:
            self.src = f.read()
        self.tree = ast.parse(self.src)
        self.lines = self.src.splitlines()
        self.fns = {}             # qual -> Fn
        self.classes = {}         # name -> (ClassDef, [base names])
        self.methods = {}         # method name -> [qual]
        self.mod_funcs = {}       # module-level def name -> qual
        self.mod_mutable = {}     # module-level mutable object -> kind
        self.mod_sets = set()
        self.mod_immutable_tables = set()   # dict tables whose values are immutable constants
        self.mod_consts = set()   # immutable module-level names
        self.mod_callable_alias = {}   # NAME = partial(f, ...) -> [f]; NAME = userfn(...) -> None (closure: indirect)
        self.mod_callable_tables = {}  # dict NAME whose values are all callable aliases
        self.modules = set()
        self.imported = {}        # from-imports: local name -> dotted external name
        self.address_taken = set()
        self.lambda_count = 0
        self.param_sets = set()   # (function, parameter index) that some call site binds to a set-typed value
        self.dispatchers = {}     # pseudo-function name -> set of targets (all with one identical signature)

    # ------------------------------------------------------------------------------------------ collection
    def collect(self):
        for n in self.tree.body:
            if isinstance(n, ast.Import):
                for a in n.names:
                    self.modules.add((a.asname or a.name).split('.')[0])
            elif isinstance(n, ast.ImportFrom):
                for a in n.names:
                    self.imported[a.asname or a.name] = a.name if n.module in ('collections', 'ctypes', 'functools') \
                        else '{}.{}'.format(n.module, a.name)
            elif isinstance(n, ast.FunctionDef):
                self.add_fn(n.name, n, None, None)
                self.mod_funcs[n.name] = n.name
            elif isinstance(n, ast.ClassDef):
                self.add_class(n)
            elif isinstance(n, ast.Assign):
                if len(n.targets) != 1 or not isinstance(n.targets[0], ast.Name):
                    fail(n, 'module-level assignment to a non-name')
                self.module_binding(n.targets[0].id, n.value, n)
            elif isinstance(n, ast.Expr):
                self.module_expr(n)
            elif isinstance(n, ast.If):
                # only `if __name__ == '__main__': <calls>` is accepted
                t = n.test
                ok = (isinstance(t, ast.Compare) and isinstance(t.left, ast.Name) and t.left.id == '__name__'
                      and not n.orelse and all(isinstance(s, ast.Expr) and isinstance(s.value, ast.Call) for s in n.body))
                if not ok:
                    fail(n, 'module-level if')
            else:
                fail(n, 'module-level statement ' + type(n).__name__)

    def add_fn(self, qual, node, parent, cls):
        for d in node.decorator_list:
            if dotted(d) not in OK_DECORATORS:
                fail(d, 'decorator')
        if qual in self.fns:
            fail(node, 'duplicate function name ' + qual)
        fn = Fn(qual, node, parent, cls)
        self.fns[qual] = fn
        a = node.args
        defaults = [None] * (len(a.posonlyargs + a.args) - len(a.defaults)) + list(a.defaults)
        names = [x.arg for x in a.posonlyargs + a.args]
        pairs = list(zip(names, defaults)) + list(zip([x.arg for x in a.kwonlyargs], a.kw_defaults))
        for name, d in pairs:
            if d is not None and not self.immutable_default(d):
                fn.mutdef.append(fn.index(name))
        # locals / nested defs / declarations
        body = node.body if isinstance(node.body, list) else [ast.Expr(node.body)]
        for sub in self.walk_own(body):
            if isinstance(sub, (ast.FunctionDef, ast.AsyncFunctionDef)):
                if isinstance(sub, ast.AsyncFunctionDef):
                    fail(sub, 'async def')
                q = qual + '.' + sub.name
                fn.nested[sub.name] = q
                fn.locals.add(sub.name)
                self.add_fn(q, sub, fn, None)
            elif isinstance(sub, ast.Lambda):
                self.lambda_count += 1
                q = '{}.<lambda{}>'.format(qual, self.lambda_count)
                sub._qual = q
                self.add_fn(q, sub, fn, None)
                self.address_taken.add(q)
            elif isinstance(sub, ast.ClassDef):
                fail(sub, 'class inside a function')
            elif isinstance(sub, ast.Global):
                fn.globals_decl.update(sub.names)
            elif isinstance(sub, ast.Nonlocal):
                fn.nonlocals_decl.update(sub.names)
            elif isinstance(sub, ast.Name) and isinstance(sub.ctx, (ast.Store, ast.Del)):
                fn.locals.add(sub.id)
            elif isinstance(sub, ast.ExceptHandler) and sub.name:
                fn.locals.add(sub.name)
            elif isinstance(sub, ast.Import):
                for al in sub.names:
                    fn.local_modules.add((al.asname or al.name).split('.')[0])
            elif isinstance(sub, ast.ImportFrom):
                for al in sub.names:
                    fn.local_imports[al.asname or al.name] = '{}.{}'.format(sub.module, al.name)
        fn.locals -= fn.globals_decl
        fn.locals -= fn.nonlocals_decl
        fn.locals -= set(fn.params)
        return fn

    def walk_own(self, body):
        """all nodes of a function body, not descending into nested function / lambda / class bodies"""
        stack = list(reversed(body))
        while stack:
            n = stack.pop()
            yield n
            if isinstance(n, (ast.FunctionDef, ast.AsyncFunctionDef, ast.Lambda, ast.ClassDef)):
                # defaults and decorators are evaluated in the enclosing scope
                if not isinstance(n, ast.ClassDef):
                    for d in n.args.defaults + [k for k in n.args.kw_defaults if k is not None]:
                        stack.append(d)
                continue
            stack.extend(reversed(list(ast.iter_child_nodes(n))))

    def immutable_default(self, d):
        if isinstance(d, ast.Constant):
            return True
        if isinstance(d, ast.UnaryOp) and isinstance(d.operand, ast.Constant):
            return True
        if isinstance(d, ast.Tuple):
            return all(self.immutable_default(e) for e in d.elts)
        if isinstance(d, ast.Name) and (d.id in BUILTIN_CONSTS or d.id in self.mod_consts):
            return True
        return False

    def add_class(self, n):
        bases = []
        for b in n.bases:
            d = dotted(b)
            if d is None:
                fail(b, 'class base')
            bases.append(d)
        if n.keywords or n.decorator_list:
            fail(n, 'class keywords / decorators')
        self.classes[n.name] = (n, bases)
        for s in n.body:
            if isinstance(s, ast.FunctionDef):
                if s.name.startswith('__') and s.name.endswith('__') and s.name not in HANDLED_DUNDERS:
                    fail(s, 'special method {} (implicit calls of it are not tracked)'.format(s.name))
                q = n.name + '.' + s.name
                self.add_fn(q, s, None, n.name)
                self.methods.setdefault(s.name, []).append(q)
            elif isinstance(s, ast.Expr) and isinstance(s.value, ast.Constant):
                pass
            elif isinstance(s, ast.Pass):
                pass
            else:
                fail(s, 'class-level statement ' + type(s).__name__)   # class attributes are shared mutable state

    def const_value(self, v):
        if isinstance(v, ast.Constant):
            return True
        if isinstance(v, ast.UnaryOp) and isinstance(v.operand, ast.Constant):
            return True
        if isinstance(v, ast.BinOp):
            return self.const_value(v.left) and self.const_value(v.right)
        if isinstance(v, ast.Name):
            return v.id in self.mod_consts or v.id in BUILTIN_CONSTS
        if isinstance(v, ast.Tuple):
            return all(self.const_value(e) for e in v.elts)
        return False

    def module_binding(self, name, v, node):
        if self.const_value(v):
            self.mod_consts.add(name)
            return
        if isinstance(v, ast.Dict):
            self.mod_mutable[name] = 'dict'
            if all(self.const_value(x) for x in v.values):
                self.mod_immutable_tables.add(name)
            elif all(isinstance(x, ast.Name) and x.id in self.mod_callable_alias for x in v.values):
                self.mod_callable_tables[name] = set(x.id for x in v.values)
            return
        if isinstance(v, (ast.Set, ast.SetComp)) or (isinstance(v, ast.Call) and dotted(v.func) in ('set', 'frozenset')):
            self.mod_mutable[name] = 'set'
            self.mod_sets.add(name)
            return
        if isinstance(v, (ast.List, ast.ListComp, ast.DictComp)):
            self.mod_mutable[name] = 'list'
            return
        if isinstance(v, ast.Call):
            d = dotted(v.func)
            d = self.imported.get(d, d)
            if d == 'partial' and v.args and isinstance(v.args[0], ast.Name) and v.args[0].id in self.mod_funcs:
                self.mod_callable_alias[name] = [v.args[0].id]
                self.address_taken.add(v.args[0].id)
                return
            if d in self.mod_funcs:
                # result of a user function at import time (closure constructors): a callable reached indirectly
                self.mod_callable_alias[name] = None
                self.module_level_calls.append(v)
                return
            # any other object (logger, ...) is a module-level mutable object
            self.mod_mutable[name] = 'object'
            return
        fail(node, 'module-level value ' + type(v).__name__)

    module_level_calls = []

    def module_expr(self, n):
        v = n.value
        if isinstance(v, ast.Constant):
            return
        # NAME.update(...) / log.addHandler(...) at import time: initialisation of module tables
        if isinstance(v, ast.Call) and isinstance(v.func, ast.Attribute) and isinstance(v.func.value, ast.Name) \
                and v.func.value.id in self.mod_mutable:
            tgt = v.func.value.id
            if v.func.attr == 'update' and len(v.args) == 1:
                a = v.args[0]
                src = a.id if isinstance(a, ast.Name) else None
                if tgt in self.mod_callable_tables or (self.mod_mutable[tgt] == 'dict' and tgt not in self.mod_immutable_tables
                                                       and src in self.mod_callable_tables):
                    if src in self.mod_callable_tables:
                        self.mod_callable_tables.setdefault(tgt, set()).update(self.mod_callable_tables[src])
                    else:
                        self.mod_callable_tables.pop(tgt, None)
                if tgt in self.mod_immutable_tables and src not in self.mod_immutable_tables:
                    self.mod_immutable_tables.discard(tgt)
            else:
                self.mod_immutable_tables.discard(tgt)
                self.mod_callable_tables.pop(tgt, None)
            return
        fail(n, 'module-level expression statement')

    # ------------------------------------------------------------------------------------------ expression classes
    def run(self):
        self.module_level_calls = []
        self.collect()
        # an empty dict that is only filled by .update of callable tables is a callable table too (INSTRUCTIONS = {})
        # (handled in module_expr: tgt dict + src callable table)
        for it in range(60):
            self.changed = False
            for fn in list(self.fns.values()):
                FnPass(self, fn).run()
            if not self.changed:
                break
        else:
            raise TranslationError(UNIT, 0, 'effect analysis did not reach a fixpoint')
        return self

    def super_targets(self, cname, meth):
        """methods super().meth may denote inside class cname (single inheritance chains inside the file);
        [] = only external bases define it; None = cannot tell"""
        out = []
        for b in self.classes[cname][1]:
            seen = set()
            while True:
                if b not in self.classes:
                    break                       # external base (Exception, abc.ABC, object): external method
                if b in seen:
                    return None
                seen.add(b)
                if b + '.' + meth in self.fns:
                    out.append(b + '.' + meth)
                    break
                bs = self.classes[b][1]
                if len(bs) > 1:
                    return None
                if not bs:
                    break
                b = bs[0]
        return out

    def constructor_of(self, cname, seen=()):
        """qual of the __init__ that runs for class cname, or None (external / object)"""
        if cname not in self.classes or cname in seen:
            return None
        if cname + '.__init__' in self.fns:
            return cname + '.__init__'
        for b in self.classes[cname][1]:
            r = self.constructor_of(b, seen + (cname,))
            if r:
                return r
        return None


class FnPass:
    """One pass over one function with the current interprocedural summaries; records effects in fn.effects and
    updates fn.ret; sets an.changed when anything grew."""

    def __init__(self, an, fn):
        self.an, self.fn = an, fn
        self.own = getattr(fn, 'l_own', None) or {}
        self.deep = getattr(fn, 'l_deep', None) or {}
        self.mut = getattr(fn, 'l_mut', None) or set()       # locals with some binding not known immutable
        self.setty = getattr(fn, 'l_set', None) or set()
        self.bound = getattr(fn, 'l_bound', None) or set()
        fn.l_own, fn.l_deep, fn.l_mut, fn.l_set, fn.l_bound = self.own, self.deep, self.mut, self.setty, self.bound

    # ---- lattice helpers
    def grow(self, table, key, atoms):
        old = table.get(key, FRESH)
        new = old | atoms
        if new != old:
            table[key] = new
            self.an.changed = True

    def effect(self, e):
        self.new_effects.add(e)

    def what(self, node):
        ln = getattr(node, 'lineno', 0)
        txt = self.an.lines[ln - 1].strip() if 0 < ln <= len(self.an.lines) else ''
        txt = ''.join(ch if 32 <= ord(ch) < 127 and ch != '"' else '?' for ch in txt)[:60]
        return 'L{} {}'.format(ln, txt)

    def write(self, atoms, node, attr_of_fresh=False):
        w = self.what(node)
        if not atoms:
            self.effect(('W', ('fa',) if attr_of_fresh else ('f',), w))
        for a in sorted(atoms):
            self.effect(('W', a, w))

    # ---- name resolution
    def resolve_name(self, name, node):
        """-> ('local',) ('param', i) ('func', qual) ('class', name) ('global', name) ('const',) ('module', name)
              ('enclosing', name) ('callalias', name) ('ext', dotted)"""
        fn = self.fn
        if name in fn.globals_decl:
            return self.module_name(name, node)
        if name in fn.nonlocals_decl:
            return ('enclosing', name)
        if name in fn.params:
            return ('param', fn.index(name))
        if name in fn.nested:
            return ('func', fn.nested[name])
        if name in fn.locals:
            return ('local',)
        if name in fn.local_modules:
            return ('module', name)
        if name in fn.local_imports:
            return ('ext', fn.local_imports[name])
        p = fn.parent
        while p is not None:
            if name in p.nested:
                return ('func', p.nested[name])
            if name in p.params or name in p.locals:
                return ('enclosing', p.qual + '.' + name)
            p = p.parent
        return self.module_name(name, node)

    def module_name(self, name, node):
        an = self.an
        if name in an.mod_funcs:
            return ('func', an.mod_funcs[name])
        if name in an.classes:
            return ('class', name)
        if name in an.mod_mutable:
            return ('global', name)
        if name in an.mod_callable_alias:
            return ('callalias', name)
        if name in an.mod_consts or name in BUILTIN_CONSTS:
            return ('const',)
        if name in an.modules:
            return ('module', name)
        if name in an.imported:
            return ('ext', an.imported[name])
        if name in BUILTIN_EXC:
            return ('ext', name)
        if name in PURE_FUNCS or name in ('eval', 'getattr', 'vars', 'super', 'setattr', 'delattr', 'exec', 'globals',
                                          'locals', 'next', 'map', 'filter', 'input', 'compile', '__import__'):
            return ('ext', name)
        fail(node, 'unresolved name ' + name)

    # ---- expression classification: returns (own, deep, immutable, settyped)
    def ev(self, e):
        m = getattr(self, 'e_' + type(e).__name__, None)
        if m is None:
            fail(e, 'expression ' + type(e).__name__)
        return m(e)

    def join(self, items):
        own, deep, imm, st = FRESH, FRESH, True, False
        for o, d, i, s in items:
            own, deep, imm, st = own | o, deep | d, imm and i, st or s
        return own, deep, imm, st

    def e_Constant(self, e):
        return FRESH, FRESH, True, False

    def e_JoinedStr(self, e):
        for v in e.values:
            self.ev(v)
        return FRESH, FRESH, True, False

    def e_FormattedValue(self, e):
        self.ev(e.value)
        self.implicit_dunder(['__str__', '__repr__', '__format__'], e.value, e)
        return FRESH, FRESH, True, False

    def e_Name(self, e):
        r = self.resolve_name(e.id, e)
        k = r[0]
        if k == 'local':
            imm = e.id not in self.mut and e.id in self.bound
            return self.own.get(e.id, FRESH), self.deep.get(e.id, FRESH), imm, e.id in self.setty
        if k == 'param':
            # the parameter object, plus whatever the parameter NAME was rebound to inside the function
            key = '<param>' + e.id
            return (frozenset([('p', r[1])]) | self.own.get(key, FRESH),
                    frozenset([('pd', r[1])]) | self.deep.get(key, FRESH), False,
                    key in self.setty or (self.fn.qual, r[1]) in self.an.param_sets)
        if k == 'func':
            # a function object is a module-level (or enclosing-scope) object: stores through it are global writes
            self.an.address_taken.add(r[1])
            if self.an.fns[r[1]].parent is not None:
                return FRESH, FRESH, False, False      # a closure: created afresh by each call of the enclosing function
            a = frozenset([('g', 'def:' + r[1])])
            return a, a, False, False
        if k in ('class', 'callalias'):
            a = frozenset([('g', k + ':' + e.id)])
            return a, a, False, False
        if k == 'const':
            return FRESH, FRESH, True, False
        if k == 'global':
            a = frozenset([('g', r[1])])
            return a, a, False, r[1] in self.an.mod_sets
        if k in ('enclosing', 'module', 'ext'):
            a = frozenset([('g', '{}:{}'.format(k, r[1]))])
            if k == 'ext':
                return FRESH, FRESH, True, False
            return a, a, False, False
        fail(e, 'name kind')

    def class_ref(self, name):
        pass

    def sub_of(self, v):
        """class of an object reached from v (attribute / element)"""
        o, d, i, s = v
        return d | frozenset(a for a in o if a[0] == 'g'), d | frozenset(a for a in o if a[0] == 'g'), False, False

    def e_Attribute(self, e):
        d = dotted(e)
        if d is not None:
            root = d.split('.')[0]
            if isinstance(self.root_name(e), ast.Name) and self.resolve_name(root, e)[0] == 'module':
                a = frozenset([('g', 'module:' + d)])
                return a, a, False, False
        if e.attr == 'value' and isinstance(e.value, ast.Call) and self.ext_name(e.value.func) in ('c_int32', 'c_uint32'):
            self.ev(e.value)
            return FRESH, FRESH, True, False
        return self.sub_of(self.ev(e.value))

    def root_name(self, e):
        while isinstance(e, (ast.Attribute, ast.Subscript)):
            e = e.value
        return e

    def e_Subscript(self, e):
        self.ev(e.slice)
        v = self.ev(e.value)
        if isinstance(e.value, ast.Name) and self.resolve_name(e.value.id, e)[0] == 'global' \
                and e.value.id in self.an.mod_immutable_tables:
            return FRESH, FRESH, True, False
        return self.sub_of(v)

    def e_Slice(self, e):
        for x in (e.lower, e.upper, e.step):
            if x is not None:
                self.ev(x)
        return FRESH, FRESH, True, False

    def e_Starred(self, e):
        v = self.ev(e.value)
        if v[3]:
            self.effect(('S', self.what(e)))
        return self.sub_of(v)

    def e_UnaryOp(self, e):
        self.ev(e.operand)
        return FRESH, FRESH, True, False

    def e_Compare(self, e):
        self.ev(e.left)
        for c in e.comparators:
            self.ev(c)
        return FRESH, FRESH, True, False

    def e_BoolOp(self, e):
        return self.join([self.ev(v) for v in e.values])

    def e_IfExp(self, e):
        self.ev(e.test)
        return self.join([self.ev(e.body), self.ev(e.orelse)])

    def e_BinOp(self, e):
        l, r = self.ev(e.left), self.ev(e.right)
        st = l[3] or r[3]
        if isinstance(e.op, ast.Mult):
            imm = l[2] and r[2]
        else:
            imm = (l[2] or r[2]) and not st
        if imm:
            return FRESH, FRESH, True, False
        return FRESH, l[1] | r[1] | self.sub_of(l)[0] | self.sub_of(r)[0], False, st

    def container(self, elts):
        vs = [self.ev(x) for x in elts]
        deep = FRESH
        for v in vs:
            deep = deep | v[0] | v[1]
        return FRESH, deep, False, False

    def e_List(self, e):
        return self.container(e.elts)

    def e_Tuple(self, e):
        o, d, i, s = self.container(e.elts)
        return o, d, not d and all(self.ev(x)[2] for x in e.elts), False

    def e_Set(self, e):
        o, d, i, s = self.container(e.elts)
        return o, d, False, True

    def e_Dict(self, e):
        return self.container([k for k in e.keys if k is not None] + list(e.values))

    def comp(self, e, elts, is_set):
        for g in e.generators:
            it = self.ev(g.iter)
            if it[3]:
                self.effect(('S', self.what(g.iter)))
            self.bind_target(g.target, self.sub_of(it), g.iter)
            for c in g.ifs:
                self.ev(c)
        o, d, i, s = self.container(elts)
        return o, d, False, is_set

    def e_ListComp(self, e):
        return self.comp(e, [e.elt], False)

    def e_SetComp(self, e):
        return self.comp(e, [e.elt], True)

    def e_GeneratorExp(self, e):
        return self.comp(e, [e.elt], False)

    def e_DictComp(self, e):
        return self.comp(e, [e.key, e.value], False)

    def e_NamedExpr(self, e):
        v = self.ev(e.value)
        self.bind_target(e.target, v, e)
        return v

    def e_Lambda(self, e):
        return FRESH, FRESH, True, False

    # ---- calls
    def ext_name(self, f):
        d = dotted(f)
        if d is None:
            return None
        root = d.split('.')[0]
        r = self.resolve_name(root, f) if isinstance(self.root_name(f), ast.Name) else None
        if r is None:
            return None
        if r[0] == 'ext':
            return r[1] + d[len(root):]
        if r[0] == 'module':
            return d
        return None

    def arg_values(self, call):
        pos = []
        for a in call.args:
            if isinstance(a, ast.Starred):
                pos.append(('*', self.ev(a)))
            else:
                pos.append(('1', self.ev(a)))
        kws = []
        for k in call.keywords:
            kws.append((k.arg, self.ev(k.value) if k.arg is not None else self.sub_of(self.ev(k.value))))
        return pos, kws

    def recv_pair(self, v):
        """(own atoms incl. nothing deeper, atoms reachable) of an argument"""
        return v[0], v[0] | v[1]

    def emit_call(self, target, selfv, pos, kws, node):
        """ECall to user function `target`; selfv = value bound to the first parameter (methods) or None"""
        g = self.an.fns[target]
        n = len(g.params)
        slots = [None] * n        # each: (own atoms, deep atoms) or None = omitted
        def put(j, v):
            if v[3]:
                for tq in [target] + sorted(self.an.dispatchers.get(target, ())):
                    if (tq, j) not in self.an.param_sets:
                        self.an.param_sets.add((tq, j))
                        self.an.changed = True
            o, d = self.recv_pair(v)
            if slots[j] is None:
                slots[j] = (o, d)
            else:
                slots[j] = (slots[j][0] | o, slots[j][1] | d)
        p = list(pos)
        if selfv is not None:
            p = [('1', selfv)] + p
        j = 0
        for kind, v in p:
            if kind == '*':
                # spread: may land in any remaining positional slot and the vararg
                for q in range(j, g.npos + (1 if g.vararg else 0)):
                    put(q, v)
                continue
            if j < g.npos:
                put(j, v)
                j += 1
            elif g.vararg:
                put(g.npos, (FRESH, v[0] | v[1], False, False))
            else:
                pass      # arity mismatch: this candidate would raise TypeError before running
        for name, v in kws:
            if name is None:
                for q in range(n):
                    put(q, v)
            elif name in g.params and name != g.vararg and name != g.kwarg:
                put(g.index(name), v)
            elif g.kwarg:
                put(g.index(g.kwarg), (FRESH, v[0] | v[1], False, False))
        # per slot: the set of alternatives for the object passed and for what it reaches
        def alts(atoms):
            return tuple(sorted(atoms)) if atoms else (('f',),)
        al = []
        for sl in slots:
            if sl is None:
                al.append(((('d',),), (('d',),)))
            else:
                al.append((alts(sl[0]), alts(sl[1])))
        self.effect(('C', target, tuple(al)))
        own, deep, imm, st = g.ret
        # substitute the callee's parameter atoms by the argument classes
        def subst(atoms):
            out = set()
            for a in atoms:
                if a[0] in ('p', 'pd'):
                    sl = slots[a[1]] if a[1] < n else None
                    if sl is not None:
                        out |= (sl[0] if a[0] == 'p' else sl[1])
                else:
                    out.add(a)
            return frozenset(out)
        return subst(own), subst(deep) | frozenset(x for x in subst(own) if False), imm, st

    def dispatch_call(self, key, cands, recv, pos, kws, node):
        an = self.an
        an.dispatchers.setdefault(key, set()).update(cands)
        proto = an.fns[cands[0]]
        if key not in an.fns:
            d = Fn.__new__(Fn)
            d.qual, d.node, d.parent, d.cls = key, None, None, None
            d.params, d.npos, d.vararg, d.kwonly, d.kwarg = list(proto.params), proto.npos, None, list(proto.kwonly), None
            d.nested, d.locals, d.globals_decl, d.nonlocals_decl = {}, set(), set(), set()
            d.effects, d.mutdef, d.ret, d.has_return_value = set(), [], (FRESH, FRESH, True, False), False
            d.is_dispatcher = True
            an.fns[key] = d
            an.changed = True
        d = an.fns[key]
        # the dispatcher's return summary is the join of its targets'
        rets = [an.fns[q].ret for q in cands if an.fns[q].has_return_value]
        if rets:
            j = self.join(rets)
            if j != d.ret or not d.has_return_value:
                d.ret, d.has_return_value = j, True
                an.changed = True
        return self.emit_call(key, recv, pos, kws, node)

    def indirect_targets(self):
        return sorted(self.an.address_taken)

    def implicit_dunder(self, names, argnode, node):
        # str(x) / '{}'.format(x) / len(x): one call of the dispatcher pseudo-function, which calls every such method
        key = '<dunder ' + names[0] + '>'
        self.an.dispatchers.setdefault(key, set())
        for nm in names:
            self.an.dispatchers[key].update(self.an.methods.get(nm, []))
        v = self.ev(argnode)
        o, d = self.recv_pair(v)
        alts = lambda atoms: tuple(sorted(atoms)) if atoms else (('f',),)
        self.effect(('C', key, ((alts(o), alts(d)),)))

    def e_Call(self, e):
        f = e.func
        pos, kws = self.arg_values(e)
        allv = [v for _, v in pos] + [v for _, v in kws]
        argdeep = FRESH
        for v in allv:
            argdeep = argdeep | v[0] | v[1]
        # set-typed arguments escaping into calls that may consume their order
        ext = self.ext_name(f)
        user_direct = isinstance(f, ast.Name) and self.resolve_name(f.id, f)[0] in ('func', 'class') \
            or (isinstance(f, ast.Attribute) and f.attr in self.an.methods)
        for a in list(e.args) + [k.value for k in e.keywords]:
            av = self.ev(a.value if isinstance(a, ast.Starred) else a)
            # a set handed to a function of this file is tracked into the callee (param_sets); handed to anything else
            # that is not known to be order-insensitive, its iteration order may be consumed there
            if av[3] and not (ext in ORDER_INSENSITIVE) and not user_direct:
                self.effect(('S', self.what(e)))
        if ext is not None:
            return self.external_call(ext, e, pos, kws, allv, argdeep)
        if isinstance(f, ast.Name):
            r = self.resolve_name(f.id, f)
            if r[0] == 'func':
                return self.emit_call(r[1], None, pos, kws, e)
            if r[0] == 'class':
                return self.construct([f.id], pos, kws, argdeep, e)
            if r[0] == 'callalias':
                t = self.an.mod_callable_alias[f.id]
                if t:
                    return self.join([self.emit_call(q, None, pos, kws, e) for q in t])
                return self.indirect(pos, kws, e)
            if r[0] in ('local', 'param', 'enclosing', 'global'):
                self.ev(f)
                return self.indirect(pos, kws, e)
            fail(e, 'call of ' + f.id)
        if isinstance(f, ast.Attribute):
            # super().m(...)
            if isinstance(f.value, ast.Call) and isinstance(f.value.func, ast.Name) and f.value.func.id == 'super':
                if not self.fn.cls or not self.fn.params:
                    fail(e, 'super() outside a method')
                selfv = self.ev(ast.copy_location(ast.Name(self.fn.params[0], ast.Load()), e))
                cands = self.an.super_targets(self.fn.cls, f.attr)
                if cands is None:
                    cands = self.an.methods.get(f.attr, [])   # base outside the file mixed in: every method of the name
                if not cands:
                    return FRESH, FRESH, True, False          # Exception.__init__ etc.: external, pure
                return self.join([self.emit_call(q, selfv, pos, kws, e) for q in cands])
            # x.__class__(...): constructor of an unknown class of this file
            if f.attr == '__class__':
                self.ev(f.value)
                return self.construct(sorted(self.an.classes), pos, kws, argdeep, e)
            recv = self.ev(f.value)
            m = f.attr
            if m in self.an.methods:
                cands = self.an.methods[m]
                sigs = set(tuple(self.an.fns[q].params) + (self.an.fns[q].vararg, self.an.fns[q].kwarg) for q in cands)
                if len(cands) > 1 and len(sigs) == 1 and not self.an.fns[cands[0]].vararg and not self.an.fns[cands[0]].kwarg:
                    return self.dispatch_call('<method ' + m + '>', cands, recv, pos, kws, e)
                res = [self.emit_call(q, recv, pos, kws, e) for q in cands]
                # an instance attribute of the same name may hold a callable / the receiver may be a library object
                return self.join(res)
            return self.external_method(m, recv, f, e, allv, argdeep)
        # call of a call result / subscript ...: indirect
        self.ev(f)
        return self.indirect(pos, kws, e)

    def construct(self, cnames, pos, kws, argdeep, node):
        for c in cnames:
            q = self.an.constructor_of(c)
            if q is not None:
                self.emit_call(q, (FRESH, FRESH, False, False), pos, kws, node)
        return FRESH, argdeep, False, False

    def indirect(self, pos, kws, node):
        ts = self.indirect_targets()
        # a dictionary of module-level callables (INSTRUCTIONS[...]) or a stored closure: any address-taken function
        res = [self.emit_call(q, None, pos, kws, node) for q in ts]
        self.fn.indirect_seen = True
        if not res:
            fail(node, 'indirect call without candidates')
        return self.join(res)

    def external_call(self, name, e, pos, kws, allv, argdeep):
        if name == 'eval':
            # eval(expr, globals, locals): the expression language of the assembler is integer arithmetic over the
            # names of `locals`; an assignment expression may store into the locals mapping (first map of a ChainMap)
            if len(e.args) == 3 and not e.keywords:
                self.write(self.ev(e.args[2])[0], e)
                return FRESH, argdeep, False, False
            fail(e, 'eval without explicit globals and locals')
        if name == 'getattr':
            return self.sub_of(self.ev(e.args[0])) if e.args else fail(e, 'getattr')
        if name == 'vars':
            if len(e.args) != 1:
                fail(e, 'vars()')
            v = self.ev(e.args[0])
            return v[0], v[0] | v[1], False, False
        if name == 'ChainMap':
            if not e.args or e.keywords or any(isinstance(a, ast.Starred) for a in e.args):
                fail(e, 'ChainMap shape')
            first = self.ev(e.args[0])
            return first[0], argdeep, False, False
        if name in FRESH_DEEP_FUNCS:
            return FRESH, FRESH, False, False
        if name in ('len',):
            for a in e.args:
                self.implicit_dunder(['__len__'], a, e)
        if name in ('str', 'repr', 'print'):
            for a in e.args:
                self.implicit_dunder(['__str__', '__repr__'], a, e)
        if name in PURE_FUNCS:
            imm = PURE_FUNCS[name][0]
            if imm:
                return FRESH, FRESH, True, False
            return FRESH, argdeep, False, name in ('set', 'frozenset')
        if name in ('intelhex.bin2hex', 'logging.basicConfig', 'bronzebeard.__version__'):
            # library calls with effects outside this module (files / logging configuration)
            return FRESH, FRESH, True, False
        # unknown external callable: may mutate whatever it is handed; result unknown
        for v in allv:
            self.write(v[0] | v[1] or FRESH, e)
        a = frozenset([('g', 'external:' + name)])
        self.write(a, e)
        return a, a, False, False

    def external_method(self, m, recv, f, e, allv, argdeep):
        own = recv[0]
        if recv[3] and m == 'pop':
            self.effect(('S', self.what(e)))
        if m in MUTATING_METHODS:
            # mutation of the receiver object; what is stored becomes reachable from it
            self.write(own, e, attr_of_fresh=False)
            self.alias_into(f.value, argdeep)
            return self.sub_of(recv)
        if m == 'format':
            for a in list(e.args) + [k.value for k in e.keywords]:
                self.implicit_dunder(['__str__', '__repr__', '__format__'], a, e)
        if m in PURE_METHODS:
            if PURE_METHODS[m] or recv[2]:
                # a method of an immutable value (str, int, bytes) returns immutable values or fresh lists of them
                return FRESH, FRESH, PURE_METHODS[m], False
            d = recv[0] | recv[1] | argdeep
            return FRESH if m in ('copy', 'split', 'splitlines', 'keys', 'values', 'items', 'union', 'intersection',
                                  'difference', 'symmetric_difference') else d, d, False, \
                recv[3] and m in ('copy', 'union', 'intersection', 'difference', 'symmetric_difference')
        # unknown method of a library object: may mutate its receiver and its arguments
        self.write(own, e)
        for v in allv:
            if v[0] | v[1]:
                self.write(v[0] | v[1], e)
        d = recv[0] | recv[1] | argdeep
        return d, d, False, False

    def alias_into(self, target_expr, atoms):
        """after x.append(v) / x[k] = v / x.a = v: what v reaches is reachable from (the root local of) x"""
        root = self.root_name(target_expr)
        if isinstance(root, ast.Name) and self.resolve_name(root.id, root)[0] == 'local':
            self.grow(self.deep, root.id, atoms)
            self.note_mut(root.id)

    def note_mut(self, name):
        if name not in self.mut:
            self.mut.add(name)
            self.an.changed = True

    # ---- bindings
    def bind_target(self, t, v, node):
        if isinstance(t, ast.Name):
            r = self.resolve_name(t.id, t)
            if r[0] == 'local':
                self.grow(self.own, t.id, v[0])
                self.grow(self.deep, t.id, v[1])
                if t.id not in self.bound:
                    self.bound.add(t.id)
                    self.an.changed = True
                if not v[2]:
                    self.note_mut(t.id)
                if v[3] and t.id not in self.setty:
                    self.setty.add(t.id)
                    self.an.changed = True
            elif r[0] == 'param':
                # rebinding a parameter name: the name may now also denote v
                self.param_rebound(t.id, v)
            elif r[0] in ('global', 'const', 'func', 'class', 'callalias', 'module'):
                self.write(frozenset([('g', t.id)]), node)           # store to a module-level name (global statement)
            else:
                self.write(frozenset([('g', '{}:{}'.format(r[0], t.id))]), node)
        elif isinstance(t, (ast.Tuple, ast.List)):
            for x in t.elts:
                self.bind_target(x.value if isinstance(x, ast.Starred) else x, self.sub_of(v) if not v[2] else v, node)
        elif isinstance(t, ast.Starred):
            self.bind_target(t.value, v, node)
        elif isinstance(t, ast.Attribute):
            recv = self.ev(t.value)
            fresh_obj = isinstance(t.value, ast.Name) and not recv[0]
            self.write(recv[0], node, attr_of_fresh=fresh_obj)
            self.alias_into(t.value, v[0] | v[1])
        elif isinstance(t, ast.Subscript):
            self.ev(t.slice)
            recv = self.ev(t.value)
            self.write(recv[0], node)
            self.alias_into(t.value, v[0] | v[1])
        else:
            fail(t, 'assignment target ' + type(t).__name__)

    def param_rebound(self, name, v):
        # parameters keep their own class; a rebound parameter additionally behaves like a local of the same name
        key = '<param>' + name
        self.grow(self.own, key, v[0])
        self.grow(self.deep, key, v[1])
        if v[3] and key not in self.setty:
            self.setty.add(key)
            self.an.changed = True

    # ---- statements
    def run(self):
        if getattr(self.fn, 'is_dispatcher', False):
            return
        self.new_effects = set()
        self.run_body()
        if self.new_effects != self.fn.effects:
            self.fn.effects = self.new_effects
            self.an.changed = True

    def run_body(self):
        fn = self.fn
        node = fn.node
        if isinstance(node, ast.Lambda):
            v = self.ev(node.body)
            self.ret_update(v)
            return
        for d in fn.globals_decl:
            self.effect(('G', 'global ' + d))
        for d in fn.nonlocals_decl:
            self.effect(('G', 'nonlocal ' + d))
        self.block(node.body)

    def ret_update(self, v):
        fn = self.fn
        o, d, i, s = fn.ret
        # a rebound parameter name returned: include what it was rebound to
        new = (o | v[0], d | v[1], i and v[2], s or v[3]) if fn.has_return_value else (v[0], v[1], v[2], v[3])
        if not fn.has_return_value or new != fn.ret:
            fn.ret = new
            fn.has_return_value = True
            self.an.changed = True

    def block(self, stmts):
        for s in stmts:
            m = getattr(self, 's_' + type(s).__name__, None)
            if m is None:
                fail(s, 'statement ' + type(s).__name__)
            m(s)

    def s_Expr(self, s):
        self.ev(s.value)

    def s_Pass(self, s):
        pass

    s_Break = s_Continue = s_Pass

    def s_Global(self, s):
        pass

    s_Nonlocal = s_Global

    def s_FunctionDef(self, s):
        for d in s.args.defaults + [k for k in s.args.kw_defaults if k is not None]:
            self.ev(d)

    def s_Import(self, s):
        pass

    s_ImportFrom = s_Import

    def s_Return(self, s):
        if s.value is not None:
            v = self.ev(s.value)
            if isinstance(s.value, ast.Name) and s.value.id in self.fn.params:
                k = '<param>' + s.value.id
                v = (v[0] | self.own.get(k, FRESH), v[1] | self.deep.get(k, FRESH), v[2] and k not in self.own, v[3])
            self.ret_update(v)
        else:
            self.ret_update((FRESH, FRESH, True, False))

    def s_Assign(self, s):
        v = self.ev(s.value)
        for t in s.targets:
            self.bind_target(t, v, s)

    def s_AnnAssign(self, s):
        if s.value is not None:
            self.bind_target(s.target, self.ev(s.value), s)

    def s_AugAssign(self, s):
        v = self.ev(s.value)
        t = s.target
        if isinstance(t, ast.Name):
            cur = self.ev(ast.copy_location(ast.Name(t.id, ast.Load()), t))
            r = self.resolve_name(t.id, t)
            numeric = v[2] and not isinstance(s.op, ast.Mult) and not v[3]
            if r[0] in ('local', 'param'):
                if not (numeric or cur[2]):
                    self.write(cur[0], s)          # in-place update of a possibly mutable object
                self.bind_target(t, (cur[0] | v[0], cur[1] | v[0] | v[1], numeric or (cur[2] and v[2]), cur[3] or v[3]), s)
            else:
                self.bind_target(t, v, s)
        else:
            self.bind_target(t, v, s)

    def s_Delete(self, s):
        for t in s.targets:
            if isinstance(t, ast.Name):
                r = self.resolve_name(t.id, t)
                if r[0] not in ('local', 'param'):
                    self.write(frozenset([('g', t.id)]), s)
            elif isinstance(t, (ast.Attribute, ast.Subscript)):
                if isinstance(t, ast.Subscript):
                    self.ev(t.slice)
                self.write(self.ev(t.value)[0], s)
            else:
                fail(t, 'del target')

    def s_For(self, s):
        it = self.ev(s.iter)
        if it[3]:
            self.effect(('S', self.what(s)))
        self.bind_target(s.target, self.sub_of(it) if not it[2] else it, s)
        self.block(s.body)
        self.block(s.orelse)

    def s_While(self, s):
        self.ev(s.test)
        self.block(s.body)
        self.block(s.orelse)

    def s_If(self, s):
        self.ev(s.test)
        self.block(s.body)
        self.block(s.orelse)

    def s_With(self, s):
        for it in s.items:
            v = self.ev(it.context_expr)
            if it.optional_vars is not None:
                self.bind_target(it.optional_vars, v, s)
        self.block(s.body)

    def s_Raise(self, s):
        if s.exc is not None:
            self.ev(s.exc)
        if s.cause is not None:
            self.ev(s.cause)

    def s_Assert(self, s):
        self.ev(s.test)
        if s.msg is not None:
            self.ev(s.msg)

    def s_Try(self, s):
        self.block(s.body)
        for h in s.handlers:
            if h.type is not None:
                self.ev(h.type)
            if h.name:
                # the exception object may carry anything the raising code put into it
                a = frozenset([('g', 'exception')])
                self.grow(self.own, h.name, FRESH)
                self.grow(self.deep, h.name, a)
                self.bound.add(h.name)
                self.note_mut(h.name)
            self.block(h.body)
        self.block(s.orelse)
        self.block(s.finalbody)


# ------------------------------------------------------------------------------------------ rendering
def coq_str(s):
    return '"' + s.replace('"', '""') + '"'


def recv_of(atom):
    k = atom[0]
    if k == 'f':
        return 'RFresh'
    if k == 'fa':
        return 'RFreshAttr'
    if k == 'p':
        return '(RParam {})'.format(atom[1])
    if k == 'pd':
        return '(RParamDeep {})'.format(atom[1])
    if k == 'g':
        return '(RGlobal {})'.format(coq_str(atom[1]))
    if k == 'd':
        return 'RDefault'
    raise TranslationError(UNIT, 0, 'atom ' + repr(atom))


def strip_line(w):
    """line numbers stay out of the generated text, so that unrelated edits of asm.py do not change Gen/Effects.v"""
    import re
    return re.sub(r'^L\d+ ', '', w)


def eff_of(e):
    if e[0] == 'W':
        return '(EWrite {} {})'.format(recv_of(e[1]), coq_str(strip_line(e[2])))
    if e[0] == 'C':
        return '(ECall {} [{}])'.format(coq_str(e[1]), '; '.join('([{}], [{}])'.format(
            '; '.join(recv_of(x) for x in a), '; '.join(recv_of(x) for x in b)) for a, b in e[2]))
    if e[0] == 'S':
        return '(ESetIter {})'.format(coq_str(strip_line(e[1])))
    if e[0] == 'G':
        return '(EGlobalDecl {})'.format(coq_str(e[1]))
    raise TranslationError(UNIT, 0, 'effect ' + repr(e))


ENTRIES = ['assemble', 'cli_main']


def analyse(repo):
    path = os.path.join(repo, 'bronzebeard', 'asm.py')
    an = Analyser(path).run()
    for e in ENTRIES:
        if e not in an.fns:
            raise TranslationError(UNIT, 0, 'entry point {} not found'.format(e))
    return an


def sort_key(e):
    return repr(e)


def merged_effects(an, fn):
    if getattr(fn, 'is_dispatcher', False):
        n = len(fn.params)
        return [('C', q, tuple(((('p', j),), (('pd', j),)) for j in range(n))) for q in sorted(an.dispatchers[fn.qual])]
    calls, rest = {}, []
    for e in fn.effects:
        if e[0] == 'C':
            cur = calls.get(e[1])
            if cur is None:
                calls[e[1]] = [(set(a), set(b)) for a, b in e[2]]
            else:
                for (ca, cb), (a, b) in zip(cur, e[2]):
                    ca.update(a)
                    cb.update(b)
        else:
            rest.append(e)
    out = sorted(rest, key=sort_key)
    for t in sorted(calls):
        def norm(x):
            x = set(x)
            if len(x) > 1:
                x.discard(('f',))       # fresh alternatives never matter next to others? keep soundness: see below
                x.add(('f',))
            return tuple(sorted(x))
        out.append(('C', t, tuple((norm(a), norm(b)) for a, b in calls[t])))
    return out


def render(an):
    out = [HEADER.format(unit=UNIT) if '{unit}' in HEADER else HEADER]
    out = ['(* GENERATED by tools/units_effects.py from bronzebeard/asm.py -- do not edit.\n'
           '   Whole-file effect summary (property C16); see Proofs/Effects.v for the meaning of the constructors. *)',
           'From Coq Require Import List String.',
           'From BB Require Import Proofs.Effects.',
           'Import ListNotations.',
           'Open Scope string_scope.',
           'Open Scope list_scope.',
           '']
    names = []
    for i, (q, fn) in enumerate(sorted(an.fns.items())):
        nm = 'fn_{}'.format(i)
        names.append(nm)
        effs = merged_effects(an, fn)
        out.append('Definition {} : fn := {{| f_name := {}; f_nparams := {}; f_mutdef := [{}];'.format(
            nm, coq_str(q), len(fn.params), '; '.join(str(x) for x in fn.mutdef)))
        out.append('  f_body := [' + ';\n    '.join(list(dict.fromkeys(eff_of(e) for e in effs))) + '] |}.')
    out.append('')
    for key in sorted(an.dispatchers):
        if key not in an.fns:          # dunder dispatchers: one parameter
            nm = 'fn_{}'.format(len(names))
            names.append(nm)
            out.append('Definition {} : fn := {{| f_name := {}; f_nparams := 1; f_mutdef := [];'.format(nm, coq_str(key)))
            out.append('  f_body := [' + ';\n    '.join(eff_of(('C', q, (((('p', 0),), (('pd', 0),)),)))
                                                        for q in sorted(an.dispatchers[key])) + '] |}.')
    out.append('')
    out.append('Definition summary : summary := {|')
    out.append('  s_fns := [' + '; '.join(names) + '];')
    out.append('  s_entries := [' + '; '.join(coq_str(e) for e in ENTRIES) + '];')
    out.append('  s_globals := [' + '; '.join(coq_str(g) for g in sorted(an.mod_mutable)) + '];')
    out.append('  s_sets := [' + '; '.join(coq_str(g) for g in sorted(an.mod_sets)) + '] |}.')
    out.append('')
    out.append('(* parameter names of the entry functions, in the order of the indices used by RParam / RParamDeep *)')
    out.append('Definition entry_params : list (string * list string) :=\n  [' + ';\n   '.join(
        '({}, [{}])'.format(coq_str(e), '; '.join(coq_str(p) for p in an.fns[e].params)) for e in ENTRIES if e in an.fns) + '].')
    out.append('')
    return '\n'.join(out)


def units(repo):
    return [(UNIT, lambda: render(analyse(repo)))]


if __name__ == '__main__':
    import sys
    an = analyse(sys.argv[1] if len(sys.argv) > 1 else '/repo')
    for q, fn in sorted(an.fns.items()):
        bad = [e for e in fn.effects if (e[0] in 'SG') or (e[0] == 'W' and e[1][0] == 'g')]
        print(q, len(fn.params), 'effects', len(fn.effects), 'ret', fn.ret, 'mutdef', fn.mutdef)
        for e in sorted(bad, key=sort_key):
            print('    !!', e)
