"""Translation unit `ParseTable`: the dispatch of asm.parse_item -- for every branch `elif head in <TABLE>:` the Item classes its
`return Cls(line, name, ...)` statements construct, with the constructor arguments as written.  Regenerated from the AST on every
run, fail closed.  Proofs/ParseTable.v proves the class -> mnemonic-table map used by the no-raw theorem (Proofs/EncSig.v
class_sig) equal to it."""
import ast
import os

from py2coq import TranslationError, HEADER

UNIT_NAMES = ['ParseTable']


def fail(node, what):
    raise TranslationError('ParseTable', getattr(node, 'lineno', 0), what)


def slit(s):
    return '"' + s.replace('"', '""') + '"'


def emit_parse(repo):
    path = os.path.join(repo, 'bronzebeard', 'asm.py')
    tree = ast.parse(open(path).read())
    fns = {n.name: n for n in tree.body if isinstance(n, ast.FunctionDef)}
    classes = {n.name for n in tree.body if isinstance(n, ast.ClassDef)}
    if 'parse_item' not in fns:
        fail(tree, 'parse_item not found')
    # the if / elif chain
    chain = [s for s in fns['parse_item'].body if isinstance(s, ast.If)]
    if len(chain) != 1:
        fail(fns['parse_item'], 'exactly one if/elif chain expected in parse_item')
    node = chain[0]
    rows = []
    while True:
        t = node.test
        table = None
        if (isinstance(t, ast.Compare) and len(t.ops) == 1 and isinstance(t.ops[0], ast.In) and isinstance(t.left, ast.Name)
                and t.left.id == 'head' and isinstance(t.comparators[0], ast.Name)):
            table = t.comparators[0].id
        # every constructor call returned from this branch
        for sub in ast.walk(ast.Module(body=node.body, type_ignores=[])):
            if isinstance(sub, ast.Return) and isinstance(sub.value, ast.Call) and isinstance(sub.value.func, ast.Name) \
                    and sub.value.func.id in classes:
                c = sub.value
                if c.keywords and any(k.arg is None for k in c.keywords):
                    fail(sub, '**kwargs in a constructor call')
                args = [ast.unparse(a) for a in c.args] + ['{}={}'.format(k.arg, ast.unparse(k.value)) for k in c.keywords]
                if table is not None:
                    rows.append((table, c.func.id, args))
        if len(node.orelse) == 1 and isinstance(node.orelse[0], ast.If):
            node = node.orelse[0]
            continue
        break
    if not rows:
        fail(fns['parse_item'], 'no dispatch rows found')
    # is a table a dictionary (mnemonic -> encoder) or a set of names ?
    kinds = {}
    for n in tree.body:
        if isinstance(n, ast.Assign) and len(n.targets) == 1 and isinstance(n.targets[0], ast.Name):
            kinds[n.targets[0].id] = 'dict' if isinstance(n.value, ast.Dict) else ('set' if isinstance(n.value, (ast.Set, ast.List)) else '?')
    for t, _, _ in rows:
        if kinds.get(t) not in ('dict', 'set'):
            fail(fns['parse_item'], 'table {} is neither a dictionary nor a set literal'.format(t))
    out = [HEADER.format(src='asm.py (parse_item: which mnemonic table leads to which Item class)')]
    out.append('From BB Require Import Gen.Encoders.\n')
    out.append('(* (the table tested by `head in TABLE`, its name, the class constructed, the constructor arguments as written) *)')
    out.append('Definition parse_dispatch : list (list string * string * string * list string) :=\n  [{}].\n'.format(';\n   '.join(
        '(map fst {}_final, {}, {}, [{}])'.format(t, slit(t), slit(c), '; '.join(slit(a) for a in args))
        if kinds[t] == 'dict' else
        '({}_final, {}, {}, [{}])'.format(t, slit(t), slit(c), '; '.join(slit(a) for a in args))
        for t, c, args in rows)))
    return '\n'.join(out)


def units(repo):
    return [('ParseTable', lambda: emit_parse(repo))]
