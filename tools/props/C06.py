"""C06 -- operand range checks.  Theorems: coq/Props/C06.v.  Correspondence + falsifier: tools/enc_engine.py."""
import enc_engine
import isa

GEN_UNITS = ['Encoders']
ASSUMPTIONS = ['operands reach the encoders as Python int / str (the arg type of the model)']


def explore(ctx):
    ctx.rule = ('per mnemonic: every immediate of the format range and beyond x 3 register patterns; register tuples x '
                'sample immediates; all register spellings per position; aq/rl and fence-set variants; plus the one-line '
                'text path. non-trivial = distinct (mnemonic, normalised legal operand tuple)')
    enc_engine.explore(ctx, isa.BASE + list(isa.CSPEC), "C06")
    ctx.exhaustive = not ctx.quick()


def replay(ctx, rec):
    import harness
    asm = harness.real_asm()
    inp = rec['input']
    if 'source' in inp:
        try:
            asm.assemble(inp['source'])
            return rec['expected'] != 'accepted'
        except asm.AssemblerError:
            return rec['expected'] == 'accepted'
        except Exception:
            return True
    r = enc_engine.run_impl(asm, inp['name'], inp['ops'], inp.get('aq'), inp.get('rl'))
    legal = isa.normalise(inp['name'], inp['ops'], inp.get('aq'), inp.get('rl')) is not None
    return (r[0] == 'ok') != legal or (r[0] == 'err' and r[1] not in ('ValueError', 'TypeError'))
