"""C16 -- assembly is a pure function of its inputs (no state leaks between calls, no dependence on hash seed / history).

Theorems (coq/Props/C16.v): C16_summary_ok (vm_compute over the effect summary regenerated from the AST of asm.py by
tools/units_effects.py -> coq/Gen/Effects.v), C16_pure (the non-interference theorem of coq/Proofs/Effects.v
instantiated at that summary), C16_noninterference (the generic theorem).

Tie to the code: (A) the summary is regenerated from /repo on every run, fail-closed; a self-test applies small
leak-introducing edits to a scratch copy of asm.py and requires summary_ok to compute to false for each.
Behavioural half / falsifier (tools/history_engine.py): call histories in one interpreter vs fresh-process runs of the
same call, caller dictionaries of earlier calls unchanged, API and command line under 5 PYTHONHASHSEED values."""
import concurrent.futures
import os
import re
import shutil
import subprocess
import tempfile

import harness
import history_engine
import units_effects

GEN_UNITS = ['Effects']
EXES = []
ALLOWED_AXIOMS = []
ASSUMPTIONS = [
    'the effect summary over-approximates what CPython does when it runs asm.py (soundness of tools/units_effects.py: '
    'receiver classification, call-target resolution incl. method-name and address-taken dispatch, the lists of '
    'mutating / pure library methods and functions) -- trusted, not proved',
    'the builtin eval() on assembler expressions only evaluates integer arithmetic over the names of its locals mapping; '
    'the one store it can make (an assignment expression) goes to that mapping, i.e. to the first map of the ChainMap',
    'library calls (logging, argparse, os.path, re, struct, copy, intelhex) do not write objects of bronzebeard.asm',
    'module-level statements run once at import; writes they make to module tables are initialisation, not history',
    'objects are modelled as regions (the object / what it reaches); fuel-bounded big-step semantics, same fuel on both sides',
]
TRUSTED_EXTRA = ['tools/units_effects.py (AST -> effect summary; soundness w.r.t. CPython is trusted)',
                 'tools/history_engine.py (call-history / hash-seed harness)']
CLAIM = dict(
    text='PARTIAL. C16_summary_ok: the effect summary of bronzebeard/asm.py (regenerated from the AST on every run: per function '
         'the stores / augmented assignments / del / mutating method calls with their receiver classified fresh / parameter / '
         'global, calls with the class of every argument, set iterations, global statements, mutable defaults) passes the check '
         'summary_ok (vm_compute): no function reachable from assemble / cli_main writes through a receiver that may be a '
         'module-level object -- also not through a parameter that some caller binds to one --, none has a mutable default, none '
         'consumes the iteration order of a set. C16_pure: for EVERY program of the effect-annotated language of Proofs/Effects.v '
         'abstracted by that summary, every fuel, initial module state, pair of hash seeds and history of entry calls (failing '
         'ones included), each call returns the result (signal/exception, value, final contents of the caller-visible argument '
         'objects) of the same call made alone from the initial module state under the other seed (induction over the history; '
         'generic theorem C16_noninterference; witnesses that a global write / mutable default / set iteration each break the '
         'conclusion). Behavioural half on the REAL code: 150 (quick) / 3000 (thorough) interleavings of 2-12 assemble() calls '
         'over a pool of 96 call specs (valid, failing in every pass, name-sharing define/use families, caller dicts given / '
         'empty / absent) in one interpreter, every result incl. the dictionaries compared with a fresh-process run; earlier '
         'calls\' dictionaries checked unchanged; API and command line under 5 PYTHONHASHSEED values; histories in which ONE include_dirs list '
         'object is handed to every call (colliding include names; the list must be left as the caller built it). '
         'FRAME (Proofs/EffectsParams.v, EffectsFrame.v): C16_only_output_dictionaries_written -- in the write set of the regenerated summary assemble() occurs '
         'only with path_or_source (an immutable string; over-approximation), constants and labels; C16_untouched_arguments -- for every program abstracted by a '
         'summary that passes summary_ok, an argument object whose two keys are outside the write set is left exactly as it was handed in, by every call (failing '
         'ones included); C16_search_path_untouched / _history / C16_shared_search_path_history -- for the regenerated summary, compress and include_dirs are left '
         'unchanged by every assemble call, and a search-path list shared by all calls of a history gives every call the result it has alone.',
    note='The theorem proves purity of the SUMMARY; that the summary over-approximates CPython running asm.py is the '
         'translator\'s soundness claim (tools/units_effects.py, trusted; its rejection of three leak-introducing edits is re-tested '
         'on every run). eval() of assembler expressions and library calls are assumed not to write module objects. Zero axioms.',
    technique='Coq non-interference proof over an AST-regenerated effect summary + call-history / hash-seed differential runs on the real code',
    design='6/C16, 7.6')

VERIF = os.path.dirname(os.path.dirname(os.path.dirname(os.path.abspath(__file__))))
COQ = os.path.join(VERIF, 'coq')

# leak-introducing edits for the translator self-test: (name, regex, replacement, count)
SELFTEST = [
    ('module-cache', r'(\n    labels = labels if labels is not None else \{\}\n)',
     r'\1    REGISTERS.setdefault("__last__", 0)\n'),
    ('mutable-default', r'def assemble\(path_or_source, \*, constants=None, labels=None',
     r'def assemble(path_or_source, *, constants=None, labels={}'),
    ('set-order', r'(\n    program = resolve_blobs\(items\)\n)',
     r'\n    for k in set(labels):\n        labels[k] = labels.pop(k)\1'),
]


def coq_eval(text, expr, tag):
    """compile a generated summary in a scratch directory and evaluate `expr`; returns coqc's output"""
    base = os.path.join(VERIF, 'build', 'tmp_c16')
    os.makedirs(base, exist_ok=True)
    d = tempfile.mkdtemp(prefix='eff_', dir=base)
    try:
        mod = 'Eff' + re.sub(r'\W', '', tag)
        with open(os.path.join(d, mod + '.v'), 'w') as f:
            f.write(text.replace('From BB Require Import Proofs.Effects.', 'From BB Require Import Proofs.Effects.', 1))
            f.write('\nEval vm_compute in ({}).\n'.format(expr))
        p = subprocess.run(['timeout', '300', 'coqc', '-Q', COQ, 'BB', '-w', '-all', mod + '.v'], cwd=d,
                           stdout=subprocess.PIPE, stderr=subprocess.STDOUT, text=True)
        return p.returncode, p.stdout
    finally:
        shutil.rmtree(d, ignore_errors=True)


def selftest_one(src, name, pat, repl):
    new, n = re.subn(pat, repl, src, count=1)
    if n != 1:
        return name, 'skipped', 'pattern not found in asm.py'
    d = tempfile.mkdtemp(prefix='st_', dir=os.path.join(VERIF, 'build', 'tmp_c16'))
    try:
        os.makedirs(os.path.join(d, 'bronzebeard'))
        with open(os.path.join(d, 'bronzebeard', 'asm.py'), 'w') as f:
            f.write(new)
        try:
            text = units_effects.render(units_effects.analyse(d))
        except Exception as e:
            return name, 'rejected', 'translator refused: ' + repr(e)[:200]      # fail-closed is a rejection too
        rc, out = coq_eval(text, 'summary_ok summary', name)
        if rc != 0:
            return name, 'error', out[-400:]
        if re.search(r'=\s*false', out):
            return name, 'rejected', 'summary_ok = false'
        return name, 'ACCEPTED', out[-200:]
    finally:
        shutil.rmtree(d, ignore_errors=True)


def static_half(ctx):
    """statistics of the regenerated summary, offending effects when the proof broke, translator self-test"""
    os.makedirs(os.path.join(VERIF, 'build', 'tmp_c16'), exist_ok=True)
    try:
        an = units_effects.analyse(harness.REPO)
    except Exception as e:
        ctx.notes.append('effect summary not generated: ' + repr(e)[:300])
        return
    nfn = len(an.fns)
    neff = sum(len(f.effects) for f in an.fns.values())
    ctx.count('summary-functions', nfn)
    ctx.count('summary-effects', neff)
    ctx.count('summary-module-mutable-objects', len(an.mod_mutable))
    ctx.count('summary-module-sets', len(an.mod_sets))
    direct = []
    for q, f in sorted(an.fns.items()):
        for i in f.mutdef:
            direct.append('{}: mutable default for parameter {}'.format(q, f.params[i]))
        for e in sorted(f.effects, key=repr):
            if e[0] == 'W' and e[1][0] == 'g':
                direct.append('{}: write through global {} at {}'.format(q, e[1][1], e[2]))
            elif e[0] == 'S':
                direct.append('{}: set iteration at {}'.format(q, e[1]))
            elif e[0] == 'G':
                direct.append('{}: {}'.format(q, e[1]))
    ctx.count('summary-suspicious-effects-any-function', len(direct))
    if ctx.deep:
        # the proof (or something else) broke: say which effects of REACHABLE functions the check rejects
        try:
            rc, out = coq_eval(units_effects.render(an), 'offending summary', 'offending')
            ctx.notes.append('offending effects of reachable functions (Coq, Proofs.Effects.offending): '
                             + re.sub(r'\s+', ' ', out)[-1500:])
        except Exception as e:
            ctx.notes.append('could not evaluate offending: ' + repr(e)[:200])
        for dline in direct[:20]:
            ctx.notes.append('suspicious: ' + dline)
    # translator self-test (the tie of the static half): leak-introducing edits must be rejected
    with open(os.path.join(harness.REPO, 'bronzebeard', 'asm.py')) as f:
        src = f.read()
    with concurrent.futures.ThreadPoolExecutor(max_workers=3) as ex:
        futs = [ex.submit(selftest_one, src, n, p, r) for n, p, r in SELFTEST]
        for fu in futs:
            name, verdict, detail = fu.result()
            ctx.count('selftest-' + name + '-' + verdict)
            ctx.traces_validated += 1
            if verdict in ('ACCEPTED', 'error'):
                ctx.corr('units_effects self-test: ' + name, {'edit': name}, verdict, 'summary_ok = false: ' + detail)
    ctx.sample({'summary': {'functions': nfn, 'effects': neff, 'module_mutable': sorted(an.mod_mutable)[:40]}})


def explore(ctx):
    if not getattr(ctx, '_c16_static_done', False) or ctx.deep:
        static_half(ctx)
        ctx._c16_static_done = True
    history_engine.explore(ctx)


def replay(ctx, rec):
    return history_engine.replay(ctx, rec)
