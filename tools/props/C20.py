"""C20 -- with -c every eligible instruction is compressed and nothing grows.  Theorems: coq/Props/C20.v.
Correspondence + falsifier: tools/layout_engine.py."""
import layout_engine

GEN_UNITS = ['Encoders', 'Criteria', 'Guards', 'PassTable', 'Effects']
ASSUMPTIONS = ['programs with unique label names and align N >= 1 (the quantifier of the property)']


def explore(ctx):
    ctx.rule = ('structured layout programs (instructions, all pseudo kinds, data, aligns, gaps at the edges of every '
                'branch/jump range incl. 1 MiB), both modes; non-trivial = distinct (reference kind, distance, mode)')
    layout_engine.explore(ctx, 'C20')


def replay(ctx, rec):
    return layout_engine.replay(ctx, 'C20', rec)


CLAIM = {'text': "C20_complete: for EVERY one of the 65 536 halfwords that decode16 accepts, the 32-bit instruction it expands to is selected by a rule of the GENERATED criteria table (in generated order) that re-encodes it legally with the same meaning (in-kernel sweep; lui's second spelling included); C20_selection_link ties the numeric selection to the generated selection on items. C20_program_eligible_is_compressed (+ _at by position, _no_aliases, C20_program_parsed_eligible_is_compressed with the parser model in front, C20_program_eligible_expansion_is_compressed for li small / mv / nop / jr / jalr / ret): for EVERY program that assembles with -c, every 32-bit instruction item of parser shape whose immediate is settled (is_settled on the constants: literal, not label-dependent) and whose numeric view after alias resolution is the expansion of a legal non-hint RV32C halfword comes out as exactly ONE chunk of exactly two bytes, the halfword of a legal RV32C instruction with the IDENTICAL expansion (item followed through all 16 passes; new in-kernel sweep elig_swept over all halfwords + 29 rules x 7 field shapes symbolically). C20_*_never_grows: each of the three size-changing passes replaces an item by something not larger (4->2, 8->4, align N -> pad < N), never the reverse. C20_never_longer_no_label_higher: for EVERY program without call / tail, any initial constants and labels, if both modes assemble then with -c no label of the program stands higher and the binary is not longer (two-run argument over the pass model: same groups per source item, exact sizes without -c, at most those with -c, li decided on constants only, layout after alignment monotone in the group sizes). C20_never_longer_all: the same WITH call / tail, for labels0 = [] and a pessimistic program size below 2^31 (lockstep induction over the pseudo passes of both runs: every label distance is, with compression, between 0 and the distance without, so near-without implies near-with). Falsifier: all 65 536 halfwords: expansion printed in every spelling, assembled with -c by the real assembler, must be 2 bytes of the same meaning; operands one step outside every RVC set must stay 4 bytes; length/labels comparison of both modes on generated programs.", 'note': 'Trusted: as C04. Partial: the monotonicity half has no theorem.', 'technique': 'Coq proof by exhaustive in-kernel sweep over all halfwords against the generated rule table + per-pass size lemmas; exhaustive real-assembler falsifier', 'design': '6/C20'}
