"""C13 -- documented spelling variants of the same program assemble to identical bytes and labels.
Theorems: coq/Props/C13.v over the hand-written lexer / parser model (coq/Model/Lexer.v, Parser.v) and the GENERATED
lookup_register / REGISTERS (Gen.Encoders).  Correspondence + falsifier: tools/frontend_engine.py."""
import frontend_engine as fe
import harness

GEN_UNITS = ['Encoders', 'Criteria', 'Pseudo', 'PassTable', 'ParseTable', 'Effects']   # the whole model of asm.assemble (C13_whole_*)
EXES = []
ASSUMPTIONS = ['source lines of printable ASCII and tabs (the character-list model); multi-token offsets in the imm(reg) '
               'form are not a documented freedom and are not generated']
TRUSTED_EXTRA = ['coq/Model/Lexer.v, PyExpr.v, Parser.v: hand-written, tied to asm.lex_tokens / parse_item / Arithmetic.eval '
                 'by differential evaluation (tools/frontend_engine.py)']
CLAIM = dict(
    text='C13_line: for every token list and any two separator styles (indentation, arbitrary mixes of blanks / tabs / commas '
         'between tokens, optional padding around parentheses, trailing # comment) the lexer model returns the same tokens, hence '
         'the same parsed item; string/error lines may be indented freely; register spellings (number, xN, ABI alias) are '
         'read alike by the generated lookup_register; decimal / hex / binary spellings are read alike by the int(s, 0) model (C13_int_spelling_wide: by induction on the digit loops for every 64-bit value); '
         'C13_imm_reg_loads/stores: imm(reg) and reg, imm parse to the SAME item for exactly the mnemonics of the generated '
         'BASE_OFFSET_INSTRUCTIONS table; C13_program: line-by-line token-equal versions of a program give the same result of the '
         'whole model (lex + parse + 16 passes), both modes ; C13_line_numbers_irrelevant: renaming the lines of the items by ANY function (what extra blank / comment lines do to the physical numbers) leaves bytes, labels and constants unchanged, errors name the renamed line (assemble_relabel through all 16 passes). Tie: model tokens / items vs the '
         'C13_whole_tokens(_modulo_comment_lines): on the whole model (reader + lexer + parser + passes) the result depends only on the token lists of the token-bearing lines read -- not on separators, comments, comment-only or blank lines, file names, line numbers or the distribution over included files. Tie: '
         'real lex_tokens / parse_item on generated and hand-picked lines. Falsifier: gen_programs x per-line / per-operand '
         'rewrites, bytes + labels, both modes.',
    note='lexer, parser, int(s,0) models are hand-written and tied by differential evaluation only',
    technique='induction over character lists + kernel sweeps + differential correspondence', design='6/C13')


def explore(ctx):
    asm = harness.real_asm()
    ctx.rule = ('programs of tools/gen_programs.py (instructions, pseudo kinds, data, aligns, constants, register aliases) x 6 '
                '(thorough 12) independent rewrites per line and operand, compression off and on; non-trivial = distinct '
                '(variant text, mode)')
    lines = []
    fe.falsify_c13(ctx, asm, lines)
    fe.correspondence(ctx, asm, lines, [])
    import files_engine
    files_engine.whole_correspondence(ctx, asm, 10 if ctx.quick() else 60)     # the object of the C13_whole_* theorems


def replay(ctx, rec):
    return fe.replay_c13(harness.real_asm(), rec['input'])
