"""C08 -- label arithmetic uses final addresses.  Theorems: coq/Props/C08.v.
Correspondence + falsifier: tools/layout_engine.py."""
import layout_engine

GEN_UNITS = ['Encoders', 'Criteria']
ASSUMPTIONS = ['programs with unique label names and align N >= 1 (the quantifier of the property)']


def explore(ctx):
    ctx.rule = ('structured layout programs (instructions, all pseudo kinds, data, aligns, gaps at the edges of every '
                'branch/jump range incl. 1 MiB), both modes; non-trivial = distinct (reference kind, distance, mode)')
    layout_engine.explore(ctx, 'C08')


def replay(ctx, rec):
    import harness, pipeline
    asm = harness.real_asm()
    inp = rec['input']
    real = pipeline.run_real(asm, inp['source'], inp.get('compress', False))
    if real['status'] != 'OK':
        return True
    return layout_engine.replay_C08(ctx, inp, real, rec)
