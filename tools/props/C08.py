"""C08 -- label arithmetic uses final addresses.  Theorems: coq/Props/C08.v.
Correspondence + falsifier: tools/layout_engine.py."""
import layout_engine

GEN_UNITS = ['Encoders', 'Criteria', 'PassTable', 'Guards', 'Book', 'Effects']
ASSUMPTIONS = ['programs with unique label names and align N >= 1 (the quantifier of the property)']


def explore(ctx):
    ctx.rule = ('structured layout programs (instructions, all pseudo kinds, data, aligns, gaps at the edges of every '
                'branch/jump range incl. 1 MiB), both modes; non-trivial = distinct (reference kind, distance, mode)')
    layout_engine.explore(ctx, 'C08')


def replay(ctx, rec):
    return layout_engine.replay(ctx, 'C08', rec)


CLAIM = {'text': "AT THE TEXT LEVEL (Proofs/TextVal*.v, sub-agent; lexer model -> parser model -> 16 passes): C08_text_instruction_value -- a line of the I-, S-, U-type tables whose immediate depends on a label or on its own position comes out, in both modes, as one 4-byte word whose decoded immediate is the DOCUMENTED value (value_at: a bare name is the label offset, %offset(L) is L minus the offset of this line, %position(L, b) is b + L, %hi / %lo, arithmetic) computed with every label at the total size of the chunks of the lines in front of its label line and the position at the size in front of this line; C08_text_li_value (the two chunks of li, run on the Spec machine, leave that value in rd); C08_text_data_value / C08_text_pack_value (db..dd / pack: the bytes of that value); C08_text_*_label composed with the label line; C08_text_label_forms; C08_immediate_spellings. PASS LEVEL: C08_label_updates_from_source: every label update of the three size-changing passes in the SOURCE (regenerated Gen/PassTable.v label_updates) has the shape of the model's shrink_after (v > position -> v - (old - new size)). C08_final: in every successful run (both modes) each instruction's immediate expression is evaluated at the FINAL offset of the item the programmer wrote (p; p-4 for the second instruction of a far call/tail/li) against ChainMap(constants, FINAL labels) and that value is what the generated encoder receives; the label table is exact (C03). C08_offset/position/bare give the three documented forms (q-p, base+q, q). C08_settled_stable / C08_li_near_final / C08_compress_on_settled: every EARLY decision (li size, compression rule) is taken only on a settled value (label-free and not position-relative: same value at every position under every label table) or on a jump-to-label distance. Proving these exposed D17/D20 (li of position-relative operands) which were re-found by the check and fixed in /repo. Falsifier: values decoded from the REAL output (instructions, li expansions, dw/pack data, %hi/%lo pairs) compared with the expression on final offsets, labels placed so that they move after each kind of decision.", 'note': "Trusted: as C03. Data words (dw/pack) with label operands: C08_text_data_value / C08_text_pack_value. That a jump-to-label distance only moves towards zero after the decision is proved for programs without align (C12_no_align_labels_never_apart, Proofs/AcceptLayout.v) and false across an align (K1).", 'technique': 'Coq proof over the pass model; stability lemmas by induction over expressions; differential correspondence; Spec-decoding falsifier', 'design': '6/C08'}
