"""C14 -- include is textual splicing, resolved independently of the working directory.
Theorems: coq/Props/C14.v over the reader model (coq/Model/Reader.v).
Correspondence: asm.read_lines vs Model.Reader.read_lines on generated trees, from several working directories,
with absolute and relative top-level paths / include directories.
Falsifier (property on the REAL code): asm.assemble(absolute path, include_dirs=absolute dirs) from >= 3 working
directories must give one and the same result, equal to assembling the flattened text produced by an independent
splicer (any of the acceptable splices when a name exists in several searched directories); the real CLI run
from 3 directories must write the same -o / -l."""
import os
import shutil
import tempfile

import harness
import files_engine as fe
import cli_engine as ce

GEN_UNITS = ['Cli', 'Encoders', 'Criteria', 'Pseudo', 'PassTable', 'ParseTable', 'Effects']   # the last five: the whole model of asm.assemble (C14_whole_*)
EXES = []
ASSUMPTIONS = [
    'no symbolic links, no directory named like a file, directories on the search path exist (the model checks ".." '
    'against the directory list of the tree)',
    'files are UTF-8; line separators as str.splitlines (\\n \\r\\n \\r \\v \\f \\x1c-\\x1e U+0085 U+2028 U+2029); '
    'whitespace-only means ASCII whitespace',
    'nesting depth within the fuel (8); include cycles (RecursionError in CPython) are outside the model',
]
TRUSTED_EXTRA = ['tools/files_engine.py splicer (independent statement of "textual splice" used by the falsifier)']
CLAIM = dict(
    text=('C14_splice / C14_textual_splice (an include line = lines before ++ the found file read completely, to any depth ++ '
          'lines after; same contents as the text with the lines written in place), C14_lookup / C14_lookup_none (found in '
          'the first of: -i directories in order, directory of the including file; nowhere else), C14_cwd + '
          'C14_cli_passes_absolute (absolute top-level path and include directories, which is what the generated CLI '
          'skeleton passes, make the result independent of the working directory), C14_bytes_found_cwd / '
          'C14_bytes_as_written_refuted (include_bytes data is cwd-independent iff the found file is the one opened), C14_lines_only '
          '(the 16 passes use the Line of an item only to report errors: any renaming of files / numbers leaves bytes, labels, constants unchanged), '
          'C14_parser_lines_only (so does the parser), C14_whole_same_contents / C14_whole_include_is_paste(_files) / C14_whole_cwd (the property itself on the whole model of '
          'asm.assemble -- reader + lexer + parser + passes: a source with an include line anywhere and the source with the plain lines of the found file, '
          'read to any depth, pasted in its place give the same bytes, labels and constants, or the same kind of failure) -- '
          'proved about the hand-written reader model and the assembler model of C15; tie: differential runs of asm.read_lines vs the model on generated '
          'trees (depth <= 4, sibling / parent / -i / duplicate names / quotes / comments / absolute paths / decoys in the '
          'working directories); falsifier: assemble() from >= 3 working directories vs an independent textual splicer, and '
          'the real CLI from 3 directories'),
    note=('the include is one level below the top-level source in C14_whole_include_is_paste(_files) (the included file itself is read to any depth); include_bytes items are outside assemble_model itself (Unsupported) and covered by its conservative extension assemble_model_x (Proofs/IncBytesWhole.v: C10_include_bytes_whole, C14_include_bytes_cwd); the whole model is run against asm.assemble as ONE object on generated and error trees in both modes (whole_correspondence); os.path '
          'and str methods are modelled by hand (POSIX, ASCII whitespace); symlinks, cycles, non-UTF-8 files not modelled'),
    technique='Coq theorems about an executable Gallina reader model + differential correspondence + direct falsifier',
    design='6/C14')


def assemble_from(asm, cwd, main_abs, inc_abs):
    old = os.getcwd()
    os.chdir(cwd)
    try:
        labels, constants = {}, {}
        try:
            b = asm.assemble(main_abs, constants=constants, labels=labels, include_dirs=inc_abs)
            return ('OK', bytes(b).hex(), list(labels.items()), list(constants.items()))
        except asm.AssemblerError as e:
            return ('ASM', getattr(e.line, 'file', None), getattr(e.line, 'number', None))
        except Exception as e:
            return ('RAW', harness.exc_class(e))
    finally:
        os.chdir(old)


def assemble_text(asm, cwd, text):
    old = os.getcwd()
    os.chdir(cwd)
    try:
        labels, constants = {}, {}
        try:
            b = asm.assemble(text, constants=constants, labels=labels)
            return ('OK', bytes(b).hex(), list(labels.items()), list(constants.items()))
        except Exception as e:
            return ('ERR', harness.exc_class(e))
    finally:
        os.chdir(old)


def check_tree(ctx, asm, tree, root, corr_cases, use_cli):
    """falsifier on one materialised tree; appends reader-correspondence cases to corr_cases"""
    main_abs = os.path.join(root, tree.main)
    inc_abs = [os.path.normpath(os.path.join(root, d)) for d in tree.incs]
    cwds = [os.path.normpath(os.path.join(root, c)) for c in tree.cwds] + ['/']
    # ---- reader correspondence cases (absolute and relative spellings)
    for cwd in cwds:
        corr_cases.append((tree, root, cwd, inc_abs, main_abs))
        rel_incs = [os.path.relpath(d, cwd) for d in inc_abs]
        corr_cases.append((tree, root, cwd, rel_incs, os.path.relpath(main_abs, cwd)))
    # ---- the property on the real code
    results = []
    shared = list(inc_abs)               # ONE list object for all calls: a call must not change its caller's list
    for cwd in cwds:
        ctx.evaluations += 1
        results.append((cwd, assemble_from(asm, cwd, main_abs, shared)))
    if shared != list(inc_abs):
        ctx.cex('assemble() changed the include_dirs list of its caller: {} -> {}'.format(
            [d.replace(root, '<root>') for d in inc_abs], [d.replace(root, '<root>') for d in shared]),
            {'kind': 'tree', 'tree': tree.to_json(), 'check': 'cwd'}, [d.replace(root, '<root>') for d in shared],
            'unchanged', {'kind': 'caller-list-changed'})
    first = results[0][1]
    tj = tree.to_json()
    for cwd, r in results[1:]:
        if r != first:
            via = 'include_bytes' if 'include_bytes' in tree.feats else 'include'
            ctx.cex('assemble() of the same tree differs between working directories {} and {} ({})'.format(
                os.path.relpath(results[0][0], root), os.path.relpath(cwd, root) if cwd != '/' else '/', via),
                {'kind': 'tree', 'tree': tj, 'check': 'cwd'}, {'from ' + results[0][0].replace(root, '<root>'): str(first)[:300],
                                                               'from ' + cwd.replace(root, '<root>'): str(r)[:300]},
                'one result from every working directory', {'kind': 'cwd-dependence', 'via': via})
            break
    # textual splice
    try:
        flats = fe.splice_all(root, main_abs, inc_abs)
    except fe.SpliceError:
        flats = None
    if flats is not None:
        neutral = os.path.join(root, 'neutral')
        os.makedirs(neutral, exist_ok=True)
        expected = []
        for t in flats:
            e = assemble_text(asm, neutral, t)
            if e not in expected:
                expected.append(e)
        ctx.count('splices', len(expected))
        for cwd, r in results:
            if r[0] == 'OK' or any(e[0] == 'OK' for e in expected):
                if r not in expected:
                    via = 'include_bytes' if 'include_bytes' in tree.feats else 'include'
                    ctx.cex('assemble() of the tree from {} is not the assembly of the spliced text ({})'.format(
                        os.path.relpath(cwd, root) if cwd != '/' else '/', via),
                        {'kind': 'tree', 'tree': tj, 'check': 'splice'}, str(r)[:400],
                        'one of: ' + ' | '.join(str(e)[:200] for e in expected[:3]),
                        {'kind': 'splice-mismatch', 'via': via})
                    break
        for f in tree.feats:
            ctx.count('feat-' + f)
        ctx.nontriv((tree.main, tuple(sorted(tree.files.items()))[:3], tuple(tree.incs)).__repr__()[:200] + str(len(tree.files)))
    # the real CLI from three directories
    if use_cli and flats is not None and first[0] == 'OK' and 'include_bytes' not in tree.feats:
        outs = []
        for cwd in cwds[:3]:
            out = os.path.join(root, 'neutral', 'o.bin')
            lab = os.path.join(root, 'neutral', 'l.txt')
            for p in (out, lab):
                if os.path.exists(p):
                    os.remove(p)
            argv = [os.path.relpath(main_abs, cwd), '-o', out, '-l', lab]
            for d in inc_abs:
                argv += ['-i', os.path.relpath(d, cwd)]
            rc, so, se = ce.run_cli(argv, cwd)
            ctx.evaluations += 1
            ob = open(out, 'rb').read().hex() if os.path.exists(out) else None
            lb = open(lab).read() if os.path.exists(lab) else None
            outs.append((rc, ob, lb))
            want_l = ''.join('{} 0x{:08x}\n'.format(k, v) for k, v in first[2])
            if (rc, ob, lb) != (0, first[1], want_l):
                ctx.cex('CLI run from {} does not produce the assembly of the tree'.format(os.path.relpath(cwd, root)),
                        {'kind': 'tree', 'tree': tj, 'check': 'cli', 'argv': argv, 'cwd': os.path.relpath(cwd, root)},
                        {'exit': rc, 'out': (ob or '')[:80], 'stderr': se[-200:]}, {'exit': 0, 'out': first[1][:80]},
                        {'kind': 'cli-cwd'})
                break


def explore(ctx):
    asm = harness.real_asm()
    ctx.rule = ('generated include trees (depth <= 4; sibling / subdir / parent / ../common / -i / duplicate-name / absolute '
                'includes; 8 spellings of the include line; first / middle / last position; decoy files in the working '
                'directories; include_bytes in a quarter of the trees) + 13 hand-made error / edge trees; non-trivial = '
                'distinct tree whose splice the independent splicer could compute; plus shadow trees: the included name also exists in '
                'the directory of a file read earlier, and the SAME include_dirs list object is passed to two consecutive calls; plus repeat trees: one file reached twice without a cycle (twice in one file, at two depths, through a diamond, under two spellings)')
    gen = fe.TreeGen(ctx.rng)
    n = 30 if ctx.quick() else 120
    trees = [gen.make('bytes' if i % 5 == 4 else ('plain' if i % 5 < 3 else None)) for i in range(n)]
    trees += fe.shadow_trees(ctx.rng, 8 if ctx.quick() else 24)
    trees += fe.repeat_trees(ctx.rng, 8 if ctx.quick() else 24)
    etrees = fe.error_trees()
    base = tempfile.mkdtemp(prefix='bbc14_')
    corr_cases = []
    try:
        for i, t in enumerate(trees + etrees):
            root = os.path.join(base, 't{}'.format(i))
            os.makedirs(root)
            t.materialise(root)
            if i < len(trees):
                check_tree(ctx, asm, t, root, corr_cases, use_cli=(i < (4 if ctx.quick() else 20)))
            else:
                main_abs = os.path.join(root, t.main)
                for c in t.cwds:
                    cwd = os.path.normpath(os.path.join(root, c))
                    corr_cases.append((t, root, cwd, [], main_abs))
                    corr_cases.append((t, root, cwd, [], os.path.relpath(main_abs, cwd)))
                # a source string as top level (searches the cwd)
                corr_cases.append((t, root, os.path.join(root, 'proj'), [], t.files[t.main] if isinstance(t.files[t.main], str) else None))
        # ---- reader correspondence
        corr_cases = [c for c in corr_cases if c[4] is not None]
        fs_names, preamble, terms, reals = {}, '', [], []
        old = os.getcwd()
        for (t, root, cwd, incs, top) in corr_cases:
            if root not in fs_names:
                fs_names[root] = 'fs_{}'.format(len(fs_names))
                preamble += 'Definition {} : fsys := {}.\n'.format(fs_names[root], fe.ser_fs(root))
            os.chdir(cwd)
            try:
                reals.append(fe.real_read(asm, top, list(incs)))
            finally:
                os.chdir(old)
            terms.append(fe.read_term(fs_names[root], cwd, incs, top))
        answers = fe.run_terms('Base.PyBase Model.Reader', terms, preamble=preamble, shard=60)
        for (t, root, cwd, incs, top), real, a in zip(corr_cases, reals, answers):
            m = fe.parse_read(a)
            if m[0] == 'UNSUP' or real[0] == 'UNSUP':
                ctx.unsupported += 1
                continue
            ctx.traces_validated += 1
            ctx.count('read-' + real[0])
            if not fe.same_read(real, m):
                ctx.corr('Model.Reader.read_lines', {'tree': t.to_json(), 'cwd': os.path.relpath(cwd, root), 'incs': list(incs),
                                                     'top': top.replace(root, '<root>')},
                         str(real).replace(root, '<root>')[:600], str(m).replace(root, '<root>')[:600])
        # ---- WHOLE-MODEL correspondence: Proofs/Whole.v assemble_model (reader + lexer + parser + 16 passes composed inside Coq, the
        # object the C13 / C14 / C15 whole-model theorems speak about) against the real asm.assemble on the same trees
        import pipeline
        wterms, wreals, wmeta = [], [], []
        for i, t in enumerate(trees + etrees):
            if 'include_bytes' in t.feats or any(isinstance(v, bytes) for v in t.files.values()):
                continue            # outside assemble_model (Unsupported); covered by Proofs/IncBytesWhole.v + the reader / pipeline ties
            root = os.path.join(base, 't{}'.format(i))
            if root not in fs_names:
                continue
            main_abs = os.path.join(root, t.main)
            inc_abs = [os.path.normpath(os.path.join(root, d)) for d in t.incs]
            cwd = os.path.normpath(os.path.join(root, t.cwds[i % len(t.cwds)]))
            for cmp_ in (False, True):
                old_cwd = os.getcwd()
                os.chdir(cwd)
                try:
                    wreals.append(pipeline.run_real(asm, main_abs, cmp_, include_dirs=list(inc_abs)))
                finally:
                    os.chdir(old_cwd)
                wterms.append('match assemble_model 8 {} {} {} {} [] [] {} with WDone r => render (Done r) | WFail e => render (Fail e) '
                              '| WUnsup => "UNSUP" end'.format(fs_names[root], fe.cbytes(cwd), fe.clist(fe.cbytes(d) for d in inc_abs),
                                                               fe.cbytes(main_abs), 'true' if cmp_ else 'false'))
                wmeta.append((t, root, cwd, cmp_))
        if wterms:
            wans = fe.run_terms('Base.PyBase Model.Items Model.Passes Model.Render Model.Reader Proofs.Whole', wterms, preamble=preamble, shard=30)
            for (t, root, cwd, cmp_), real, a in zip(wmeta, wreals, wans):
                m = pipeline.parse_model(a)
                if m['status'] in ('UNSUP', 'MODEL-ERROR') and a is not None:
                    ctx.unsupported += 1
                    continue
                ctx.traces_validated += 1
                ctx.count('whole-model-' + real['status'])
                if not pipeline.same(real, m):
                    ctx.corr('Proofs.Whole.assemble_model', {'tree': t.to_json(), 'cwd': os.path.relpath(cwd, root), 'compress': cmp_},
                             str(pipeline.brief(real)).replace(root, '<root>')[:600],
                             (str(pipeline.brief(m)) if m['status'] != 'MODEL-ERROR' else 'model evaluation failed').replace(root, '<root>')[:600])
        if trees:
            ctx.sample({'tree': trees[0].to_json()})
    finally:
        shutil.rmtree(base, ignore_errors=True)


def replay(ctx, rec):
    asm = harness.real_asm()
    inp = rec['input']
    tree = fe.Tree.from_json(inp['tree'])
    base = tempfile.mkdtemp(prefix='bbc14r_')
    try:
        tree.materialise(base)
        before = len(ctx.counterexamples)
        check_tree(ctx, asm, tree, base, [], use_cli=(inp.get('check') == 'cli'))
        return len(ctx.counterexamples) > before
    finally:
        shutil.rmtree(base, ignore_errors=True)
