"""C10 -- data directives emit exactly the documented bytes; misfitting values are refused.
Theorems: coq/Props/C10.v (about the pass model Model/Passes.v and the Spec Spec/Data.v, Spec/Utf8.v).
Correspondence: pipeline.correspond (real assembler vs pass model) on data-heavy programs.
Falsifier: tools/data_engine.py -- the property evaluated on the REAL assembler against the Coq Spec (evaluated by
coqc) and independent Python oracles: integers of every width around every bound, every pack format, strings
(ASCII, escapes, Latin-1, BMP, astral), include_bytes from several working directories."""
import data_engine

GEN_UNITS = ['Encoders', 'Criteria', 'Sizes', 'Effects']          # Model/Passes.v (the pass model the theorems are about) is built on them
EXES = []                                     # the Spec oracle is evaluated by coqc directly (Spec/Data.v, Spec/Utf8.v)
ASSUMPTIONS = [
    'IShort / IPack items carry the integer that resolve_immediates computed (FInt v); sequence elements are tokens that int(tok, 0) reads',
    'pack formats judged: the 20 documented two-character formats [<>][bBhHiIlLqQ]; a format without byte-order prefix is not documented and not judged',
    'string: escapes judged are those of Python string literals (simple, octal, \\x, \\u, \\U, and unrecognised escapes such as \\q or a backslash in front of a non-ASCII character: the backslash stays); \\N{...}, malformed escapes and lone surrogates are not judged',
    'a refused value may surface as any exception (which exception is C15\'s business)',
]
TRUSTED_EXTRA = [
    'Model.Passes.struct_pack as a model of struct.pack and the data passes of Model/Passes.v (hand-written; tied by the pipeline correspondence)',
    'Spec/Data.v, Spec/Utf8.v: my reading of docs/assembly_language.rst, the struct documentation and RFC 3629 '
    '(cross-checked on every run against int.to_bytes and str.encode of CPython)',
    'the string lexing step (asm.decode_escapes) is not in the pass model and only its ASCII / simple-escape fragment is in the lexer model: Proofs/StringUnicode.v '
    'decode_escapes_x models the whole expression and is compared with the real decode_escapes on every run (data_engine.check_decode_escapes); '
    'the include_bytes branch of the parser and Line.include_path are an extension of the whole model in Proofs/IncBytesWhole.v (conservative: C10_include_bytes_model_extension), '
    'checked against the real assembler by the include_bytes falsifier only',
]
CLAIM = dict(
    text='C10_int / C10_seq / C10_pack: for db/dh/dw/dd, bytes/shorts/ints/longs/longlongs (any number of elements) and the 20 documented pack '
         'formats, for EVERY integer, the data passes of the model (resolve_sequences, transform_shorthand_packs, resolve_packs over the struct.pack '
         'model) accept exactly the documented range and emit exactly the documented little/big-endian two\'s-complement bytes (Spec/Data.v), '
         'refusing everything else; C10_bytes_meaning / C10_twos_complement: those byte strings read back as the number; C10_utf8_roundtrip / '
         'C10_utf8_strict / C10_utf8_bytes: the Spec UTF-8 encoder is inverted by the strict decoder of the standard on every valid text and the '
         'decoder accepts nothing else; C10_size_from_source / C10_tables_from_source / C10_spec_tables_from_source / C10_formats_match_sizes: '
         'the model size(), width and format tables and the Spec directive tables EQUAL what is regenerated from the size() methods and '
         'dictionaries of asm.py on every run; C10_sizes: on ANY item list the data passes accept, size() of each item equals the length of its final '
         'chunk and every include_bytes file had the announced size; C10_int_line: `db|dh|dw|dd <literal>` from the token line through the parser model and all 16 passes to the documented bytes or a refusal at its line; C10_int_line_text: the same with the literal given as text (decimal or hex spelling of any value below 2^64); C10_string_line: from the source line -- for plain ASCII text without a backslash the lexer, parser and pass models emit exactly the character codes of the text of a `string` line; C10_string / C10_include_bytes: pass-through facts. Tie: pipeline '
         'correspondence of the pass model on data-heavy programs. Falsifier: real assembler vs the Coq Spec (coqc) and CPython oracles over all '
         'widths x bounds, all pack formats, ASCII / escape / Latin-1 / BMP / astral strings, include_bytes beside the source, in '
         'sub-directories and -i directories from three working directories.',
    note='Trusted: Coq kernel + vm_compute (20-row format table), hand model of struct.pack and of the data passes (differentially tested), '
         'Spec/Data.v + Spec/Utf8.v. Not in any theorem: the lexer step string -> String.value (escape decoding) and the include_bytes file '
         'search/open; both are checked on the real code by the falsifier only. Zero axioms.',
    technique='Coq proof about the hand pass model + Spec; pipeline correspondence; Spec-oracle falsifier on the real assembler',
    design='6/C10')


def explore(ctx):
    ctx.rule = ('9 integer directives x {min-1, min, min+1, -2..2, smax-1..smax+1, umax-1..umax+2, far out, random} x spellings; sequences of '
                '2-6 elements; 20 pack formats x the same bounds; strings: doc examples, every escape, unrecognised escapes (backslash in front of q, 8, Latin-1, BMP, astral characters), random printable ASCII, Latin-1, BMP, '
                'astral and mixtures; decode_escapes model vs code on 600+ texts incl. malformed escapes; include_bytes: 7 tree shapes x 3 working directories x relative/absolute paths; non-trivial = distinct '
                '(directive or format, value) / text / (tree shape, cwd, path style)')
    data_engine.explore(ctx)


def replay(ctx, rec):
    return data_engine.replay(ctx, rec)
