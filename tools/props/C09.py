"""C09 -- output is the in-order concatenation; align pads minimally.  Theorems: coq/Props/C09.v.
Correspondence + falsifier: tools/layout_engine.py."""
import layout_engine

GEN_UNITS = ['Encoders', 'Criteria', 'Sizes', 'PassTable', 'Book', 'Effects']
ASSUMPTIONS = ['programs with unique label names and align N >= 1 (the quantifier of the property)']


def explore(ctx):
    ctx.rule = ('structured layout programs (instructions, all pseudo kinds, data, aligns, gaps at the edges of every '
                'branch/jump range incl. 1 MiB), both modes, plus an align sweep: N in 1..17, 32, 64, 100, 4096 at every (large N: sampled) '
                'residue, alone / twice in a row / around labels / after code; non-trivial = distinct (N, residue) and item shapes')
    layout_engine.explore(ctx, 'C09')


def replay(ctx, rec):
    return layout_engine.replay(ctx, 'C09', rec)


CLAIM = {'text': "AT THE TEXT LEVEL (Proofs/TextLayout.v, sub-agent): C09_text_in_order -- for a text that assembles, the chunks are the concatenation, in text order, of one group per line, each chunk carrying its line; C09_line_layout -- blank, comment, label and constant lines contribute nothing, align N contributes exactly (N - p mod N) mod N zero bytes at offset p (C09_text_align: minimal), a data line one chunk of the announced size, an instruction line chunks of 2 or 4 bytes. PASS LEVEL: C09_layout: for every program (unique labels, align N>=1), both modes, the chunks of a successful run are exactly, in source order, the groups of the source items: code items stay code of the same line, data items are kept, constants/labels emit nothing, `align N` at output offset p becomes exactly (N - p mod N) mod N zero bytes (C09_align_item: 0<=pad<N, (p+pad) mod N = 0; C09_padding_minimal: no smaller count works), and every later pass preserves each item's size so chunk length = size() (struct.pack / sequence / shorthand length lemmas proved for all values); C09_pass_order_from_source: assemble_items equals the interpretation of the pass order regenerated from asm.assemble (Gen/PassTable.v); C09_padding_from_source: Align.resolution_size, translated from the source on every run, is what the model's alignment pass applies and equals (N - p mod N) mod N for every N >= 1; C09_size_from_source: the model's size() equals the description regenerated on every run from the size() methods of asm.py (Gen/Sizes.v). Tied by pipeline correspondence on per-item blobs + check that the real output is the concatenation of the blobs; falsifier walks the source lines against the real output independently (all N in 1..17,32,64,100,4096 at every residue).", 'note': "Trusted: as C03. The real `output += item.data` concatenation is observed (wrapper around resolve_blobs), not modelled. align 0 / negative N are outside the property's quantifier.", 'technique': 'Coq proof over the pass model (grouping relations, position-indexed alignment relation); differential correspondence; independent source-walk falsifier', 'design': '6/C09'}
