"""C12 -- a program that assembles without compression also assembles with it.  Theorems: coq/Props/C12.v.
Correspondence + falsifier: tools/layout_engine.py."""
import layout_engine

GEN_UNITS = ['Encoders', 'Criteria', 'Guards', 'PassTable', 'Effects']
ASSUMPTIONS = ['programs with unique label names and align N >= 1 (the quantifier of the property)']


def explore(ctx):
    ctx.rule = ('structured layout programs (instructions, all pseudo kinds, data, aligns, gaps at the edges of every '
                'branch/jump range incl. 1 MiB), both modes; non-trivial = distinct (reference kind, distance, mode)')
    layout_engine.explore(ctx, 'C12')


def replay(ctx, rec):
    return layout_engine.replay(ctx, 'C12', rec)


CLAIM = {'text': 'PARTIAL, two known findings. The full statement (C12_full) is REFUTED on the faithful model and on the real assembler by two independent families: K1 (C12_refuted: an align between a transfer and its target absorbs what compression saves) and K2 (C12_refuted_label_arithmetic: the absolute value of a label inside a non-transfer immediate at the edge of its range; not repairable). Proved: C12_no_align_labels_never_apart -- in a program without align directives compression never moves two labels apart (so K1 needs the align); and (C12_*_partial): whenever the generated selection picks a rule the generated c.* encoder ACCEPTS the constructed operands (all spellings, all integers) -- so compression cannot introduce an encode failure on a settled immediate; rules and the li size decision are consulted only on settled values (label-free, not position-relative) or jump-to-label distances. Missing: monotonicity of label distances after the decision and the whole-program induction; the full statement is decided by the falsifier: every generated program that assembles without -c must assemble with it (scenarios: constants/aliases as shift amounts, label-dependent immediates at RVC edges, far call/tail in every low-12-bit band, constants as jump targets, explicit %offset in non-jump instructions, li of position-relative values). The proof attempt exposed D18/D19 (position-relative decisions), re-found by the check and fixed in /repo.', 'note': 'Trusted: as C04. The theorem level reached is per-rule acceptance + decision stability, not the whole-program implication.', 'technique': 'Coq proof of per-rule acceptance (sweeps) and decision stability; two-mode differential falsifier', 'design': '6/C12'}
