"""C12 -- a program that assembles without compression also assembles with it.  Theorems: coq/Props/C12.v.
Correspondence + falsifier: tools/layout_engine.py."""
import layout_engine

GEN_UNITS = ['Encoders', 'Criteria', 'Guards', 'PassTable', 'Effects']
ASSUMPTIONS = ['programs with unique label names and align N >= 1 (the quantifier of the property)']


def explore(ctx):
    ctx.rule = ('structured layout programs (instructions, all pseudo kinds, data, aligns, gaps at the edges of every '
                'branch/jump range incl. 1 MiB), both modes; non-trivial = distinct (reference kind, distance, mode)')
    layout_engine.explore(ctx, 'C12')


def replay(ctx, rec):
    return layout_engine.replay(ctx, 'C12', rec)


CLAIM = {'text': 'PROVED ON A STATED CLASS, REFUTED OUTSIDE IT (three known findings). The full statement (C12_full) is refuted on the faithful model and on the real assembler by three independent families: K1 (C12_refuted: an align between a transfer and its target absorbs what compression saves), K2 (C12_refuted_label_arithmetic: the absolute value of a label inside a non-transfer immediate at the edge of its range) and K3 (C12_refuted_offset_of_constant: the distance to a CONSTANT, an absolute position, as branch / jump target or through %offset; found while proving the positive half); none is repairable by a small patch. THE POSITIVE HALF IS A THEOREM (Proofs/Accept*.v, 13 files, sub-agent): C12_accepts_without_align_and_label_arithmetic -- for every program of the boolean class accept_class_gen (parser-shaped items, no align, every expression label-free and not position-relative EXCEPT %offset(L) to a label L of the program as the target of B- / J-type instructions and of beqz..bleu, j, jal, call, tail, and EXCEPT data values that are exactly a label name; no labels handed in, any constants, below 2 GiB), if the model assembles it without compression it assembles it with compression (an existence proof: every stage of the compressed run is shown not to fail -- the compression pass on shaped instructions with valid registers, rule soundness pushed through the construction rows, the pseudo pass of both runs in lockstep, every distance to a label moving towards zero with its parity kept, the range checks of the generated encoders monotone in |distance|); C12_accepts_without_calls -- the same without call / tail and without the size bound. Proved: C12_no_align_labels_never_apart -- in a program without align directives compression never moves two labels apart (so K1 needs the align); and (C12_*_partial): whenever the generated selection picks a rule the generated c.* encoder ACCEPTS the constructed operands (all spellings, all integers) -- so compression cannot introduce an encode failure on a settled immediate; rules and the li size decision are consulted only on settled values (label-free, not position-relative) or jump-to-label distances. Missing: monotonicity of label distances after the decision and the whole-program induction; the full statement is decided by the falsifier: every generated program that assembles without -c must assemble with it (scenarios: constants/aliases as shift amounts, label-dependent immediates at RVC edges, far call/tail in every low-12-bit band, constants as jump targets, explicit %offset in non-jump instructions, li of position-relative values). The proof attempt exposed D18/D19 (position-relative decisions), re-found by the check and fixed in /repo.', 'note': 'Trusted: as C04. The theorem level reached is per-rule acceptance + decision stability, not the whole-program implication.', 'technique': 'Coq proof of per-rule acceptance (sweeps) and decision stability; two-mode differential falsifier', 'design': '6/C12'}
