"""C07 -- %hi / %lo.  Theorems: coq/Props/C07.v over the generated relocate_hi / relocate_lo.
Correspondence: generated Gallina functions vs asm.relocate_hi / relocate_lo / sign_extend.
Falsifier: ranges + rebuild on the real functions, and lui+addi / lui+lw / auipc+jalr pairs assembled by the
real assembler from literals, constants, labels and %position, decoded by the Spec."""
import harness

GEN_UNITS = ['Encoders', 'Guards']
ASSUMPTIONS = ['values reach relocate_hi/lo as Python ints (any size); the theorem covers every Z']

UPPER_QUICK = [0, 1, 0x7ffff, 0x80000, 0xfffff, -1]
UPPER_MORE = [2, 0x7fffe, 0x80001, 0xffffe, 0x100000, 0x100001, 0x1fffff, -2, -0x7ffff, -0x80000, -0x80001,
              -0xfffff, -0x100000, 0x12345, 0xabcde, 0x55555, 0xaaaaa, 0x3ffff, 0x40000, 0xbffff, 0xc0000,
              0x7fff, 0x8000, 0xff, 0x100, 0xfff00, 0xf0f0f, 0x0f0f0, 1 << 24, (1 << 24) - 1, 1 << 28, -(1 << 28),
              (1 << 31) >> 12, 0x7ffff800 >> 12]


def values(ctx):
    ups = UPPER_QUICK + ([] if ctx.quick() else UPPER_MORE)
    lows = range(8192) if not ctx.quick() else list(range(0, 8192, 7)) + [0x7ff, 0x800, 0x801, 0xfff, 0x1000, 0x17ff, 0x1800, 0x1fff]
    for u in ups:
        for l in lows:
            yield u * 4096 + l
    # far outside 32 bits and random
    for v in [1 << 32, (1 << 32) + 0x800, -(1 << 32) - 0x801, (1 << 40) + 0xfff, -(1 << 40), 0x7ffff800, 0x7fffffff,
              0x80000000, 0xffffffff, 0xfffff800, -0x80000000, -0x7ffff801]:
        yield v
    for _ in range(2000 if ctx.quick() else 40000):
        yield ctx.rng.randrange(-(1 << 33), 1 << 33)


def check_pair(ctx, asm, v, words, kind):
    """words: the two 32-bit words of a %hi/%lo pair; decode with the Spec and rebuild."""
    out = ctx.spec.batch(['d32 {}'.format(w) for w in words])
    a, b = out[0].split(), out[1].split()
    # a: lui/auipc rd imm ; b: addi/lw/jalr rd rs1 imm   or   sw rs1 rs2 imm
    hi = int(a[2])
    lo = int(b[3])
    return (hi * 4096 + lo - v) % (1 << 32) == 0, (out[0], out[1])


def explore(ctx):
    asm = harness.real_asm()
    ctx.rule = ('low 13 bits x upper patterns (quick: stride 7 + edges; thorough: all 8192) plus 32-bit edge values and '
                'random 34-bit values; non-trivial = distinct value whose bit 11 is set or that is negative or >= 2^31')
    vals = list(dict.fromkeys(values(ctx)))
    # (C) correspondence of the generated functions
    if ctx.model.available():
        q = []
        for v in vals:
            q.append('hi {}'.format(v)); q.append('lo {}'.format(v))
        ans = ctx.model.batch(q)
        for i, v in enumerate(vals):
            mh, ml = int(ans[2 * i]), int(ans[2 * i + 1])
            ih, il = asm.relocate_hi(v), asm.relocate_lo(v)
            ctx.traces_validated += 1
            if (mh, ml) != (ih, il):
                ctx.corr('Gen.Encoders.relocate_hi/lo', {'v': v}, [ih, il], [mh, ml])
        # sign_extend at other widths
        q, cases = [], []
        for bits in (1, 2, 6, 12, 13, 20, 21, 32):
            for _ in range(200):
                v = ctx.rng.randrange(0, 1 << bits)
                cases.append((v, bits)); q.append('sx {} {}'.format(v, bits))
        for (v, bits), a in zip(cases, ctx.model.batch(q)):
            if int(a) != asm.sign_extend(v, bits):
                ctx.corr('Gen.Encoders.sign_extend', {'v': v, 'bits': bits}, asm.sign_extend(v, bits), int(a))
    else:
        ctx.corr('bbmodel unavailable', {}, None, None)
    # (D) falsifier on the real functions
    for v in vals:
        ctx.evaluations += 1
        if (v & 0x800) or v < 0 or v >= (1 << 31):
            ctx.nontriv(v)
        hi, lo = asm.relocate_hi(v), asm.relocate_lo(v)
        ok = (-(1 << 19) <= hi < (1 << 19)) and (-(1 << 11) <= lo < (1 << 11)) and \
            ((hi << 12) + lo - v) % (1 << 32) == 0
        if ok:
            try:
                asm.LUI(1, hi); asm.ADDI(1, 1, lo); asm.SW(1, 2, lo); asm.AUIPC(1, hi); asm.JALR(1, 1, lo & ~1)
            except Exception as e:
                ok = False
        if not ok:
            ctx.cex('%hi/%lo of {} = ({}, {}) does not fit / rebuild'.format(v, hi, lo), {'kind': 'value', 'v': v},
                    {'hi': hi, 'lo': lo}, 'hi in [-2^19,2^19), lo in [-2^11,2^11), (hi<<12)+lo == v mod 2^32',
                    {'kind': 'value'})
    ctx.count('values', len(vals))
    ctx.sample({'v': vals[5], 'hi': asm.relocate_hi(vals[5]), 'lo': asm.relocate_lo(vals[5])})
    # pairs through the whole assembler, decoded by the Spec
    if not ctx.spec.available():
        ctx.corr('bbspec unavailable', {}, None, None)
        return
    sub = vals[:: (37 if ctx.quick() else 5)]
    progs = []
    for i, v in enumerate(sub):
        form = i % 6
        if form == 0:
            src = 'lui x5, %hi({v})\naddi x5, x5, %lo({v})'.format(v=v)
        elif form == 1:
            src = 'V = {v}\nlui x5 %hi V\nlw x6, x5, %lo(V)'.format(v=v)
        elif form == 2:
            src = 'V = {v}\nlui x5, %hi(V)\nsw x5, x6, %lo(V)'.format(v=v)
        elif form == 3:
            src = 'auipc x5, %hi({v})\njalr x1, x5, %lo({v})'.format(v=v & ~1)
            v = v & ~1
        elif form == 4:
            src = 'lui x5, %hi(%position(here, {v}))\naddi x5, x5, %lo(%position(here, {v}))\nhere:'.format(v=v)
            v = v + 8
        else:
            src = 'V = {v}\nlui x5, %hi(V + 4 - 4)\naddi x5, x5, %lo (V + 4 - 4)'.format(v=v)
        progs.append((v, src, form))
    q = []
    good = []
    for v, src, form in progs:
        ctx.evaluations += 1
        try:
            b = asm.assemble(src)
        except Exception as e:
            ctx.cex('pair for {} refused: {}'.format(v, harness.exc_class(e)), {'kind': 'pair', 'source': src, 'v': v},
                    harness.exc_class(e), 'assembles', {'kind': 'pair'})
            continue
        ws = harness.words32(bytes(b))
        if len(ws) != 2:
            ctx.cex('pair for {} has {} words'.format(v, len(ws)), {'kind': 'pair', 'source': src, 'v': v}, len(ws), 2,
                    {'kind': 'pair'})
            continue
        good.append((v, src, form, ws))
        q += ['d32 {}'.format(ws[0]), 'd32 {}'.format(ws[1])]
    ans = ctx.spec.batch(q)
    for i, (v, src, form, ws) in enumerate(good):
        a, b = ans[2 * i].split(), ans[2 * i + 1].split()
        ctx.count('pair-form-%d' % form)
        try:
            hi = int(a[2]); lo = int(b[3])
            okp = a[0] in ('lui', 'auipc') and ((hi << 12) + lo - v) % (1 << 32) == 0
        except Exception:
            okp = False
        if not okp:
            ctx.cex('pair for {} decodes to {} / {}'.format(v, ans[2 * i], ans[2 * i + 1]),
                    {'kind': 'pair', 'source': src, 'v': v}, [ans[2 * i], ans[2 * i + 1]],
                    'upper<<12 + lower == v mod 2^32', {'kind': 'pair'})
    if good:
        ctx.sample({'source': good[0][1], 'words': good[0][3]})
    moving_pairs(ctx, asm)


def moving_pairs(ctx, asm):
    """Pairs whose operand depends on a label that MOVES after the pair was formed (items behind shrink, aligns settle):
    the two halves must still split ONE value -- the final one.  Final label values are swept across the bit-11 carry
    boundary (0x800 mod 0x1000), where a half taken from a stale value is off by 0x1000."""
    import pipeline
    bases = [0, 0x7ffff000, 0xfffff000, 0x08000000]
    finals = range(0x7d0, 0x830, 4) if not ctx.quick() else range(0x7e4, 0x81c, 4)
    q, cases = [], []
    for fin in finals:
        for shrink in ((4, 8, 16) if ctx.quick() else (4, 8, 12, 16, 24)):
            for form in range(6):
                base = bases[(fin // 4 + shrink) % len(bases)]
                k = shrink // 4
                if form == 0:
                    head, val = 'li t0, target', lambda L: L
                elif form == 1:
                    head, val = 'li t0, %position(target, {})'.format(base), lambda L, b=base: L + b
                elif form == 2:
                    head, val = 'lui t0, %hi(target)\naddi t0, t0, %lo(target)', lambda L: L
                elif form == 3:
                    head, val = 'li t0, target + 4', lambda L: L + 4
                elif form == 4:
                    # position-relative operand: both halves of the pair must be taken relative to the li itself (offset 0)
                    head, val = 'li t0, %offset(target)', lambda L: L
                else:
                    head, val = 'li t0, %offset target', lambda L: L
                body = 'li x5, 1\n' * k                     # each shrinks from 8 to 4 after `head` was expanded
                used = 8 + 4 * k
                gap = fin - used
                if gap < 0:
                    continue
                src = head + '\n' + body + 'string ' + 'g' * gap + '\ntarget:\nnop\n'
                for compress in (False, True):
                    cases.append((src, compress, val, fin))
    for src, compress, val, fin in cases:
        ctx.evaluations += 1
        real = pipeline.run_real(asm, src, compress)
        if real['status'] != 'OK':
            ctx.cex('moving-label pair refused: {}'.format(pipeline.brief(real)), {'kind': 'pair', 'source': src, 'v': None, 'compress': compress},
                    pipeline.brief(real), 'assembles', {'kind': 'moving-pair'})
            continue
        L = dict(real['labels'])['target']
        v = val(L)
        first = [c for c in real['chunks'] if c[1] in (1, 2)]      # chunks of source lines 1 (and 2 for the explicit pair)
        first = first[:2]
        dec = ctx.spec.batch([('d32 {}'.format(int.from_bytes(c[2], 'little')) if len(c[2]) == 4 else 'x16 {}'.format(int.from_bytes(c[2], 'little'))) for c in first])
        try:
            a = dec[0].split()
            if a[0] == 'lui' and len(dec) > 1:
                b = dec[1].split()
                got = ((int(a[2]) << 12) + int(b[3])) % (1 << 32)
            elif a[0] == 'addi':
                got = int(a[3]) % (1 << 32)
            else:
                got = None
        except Exception:
            got = None
        ctx.nontriv(('moving', L & 0xfff, compress))
        ctx.count('moving-pairs')
        if got != v % (1 << 32):
            ctx.cex('pair for a moving label: final value {:#x} but the pair rebuilds {} ({})'.format(v % (1 << 32), hex(got) if got is not None else None, dec),
                    {'kind': 'moving-pair', 'source': src, 'compress': compress, 'v': v}, dec, hex(v % (1 << 32)), {'kind': 'moving-pair'})


def replay(ctx, rec):
    asm = harness.real_asm()
    inp = rec['input']
    if inp.get('kind') == 'value':
        v = inp['v']
        hi, lo = asm.relocate_hi(v), asm.relocate_lo(v)
        return not ((-(1 << 19) <= hi < (1 << 19)) and (-(1 << 11) <= lo < (1 << 11)) and ((hi << 12) + lo - v) % (1 << 32) == 0)
    if inp.get('kind') == 'moving-pair':
        before = len(ctx.counterexamples)
        import pipeline
        real = pipeline.run_real(asm, inp['source'], inp.get('compress', False))
        if real['status'] != 'OK':
            return True
        ws = harness.words32(bytes(real['bytes']))[:2]
        ans = ctx.spec.batch(['d32 {}'.format(w) for w in ws])
        try:
            a, b = ans[0].split(), ans[1].split()
            got = ((int(a[2]) << 12) + int(b[3])) % (1 << 32) if a[0] == 'lui' else int(a[3]) % (1 << 32)
        except Exception:
            return True
        return got != inp['v'] % (1 << 32)
    try:
        b = asm.assemble(inp['source'])
    except Exception:
        return True
    ws = harness.words32(bytes(b))
    ans = ctx.spec.batch(['d32 {}'.format(w) for w in ws])
    try:
        hi = int(ans[0].split()[2]); lo = int(ans[1].split()[3])
        return ((hi << 12) + lo - inp['v']) % (1 << 32) != 0
    except Exception:
        return True
