"""C15 -- a faulty source line is reported as an AssemblerError naming that file and line.
Theorems: coq/Props/C15.v.  Correspondence + falsifier: tools/errors_engine.py."""
import errors_engine

GEN_UNITS = ['Encoders', 'Criteria']
ASSUMPTIONS = ['one identifiable faulty line in an otherwise valid program (the quantifier of the property); wrong operand '
               'COUNTS (`mv t0`) are not among the listed fault classes and are not planted']


def explore(ctx):
    errors_engine.explore(ctx)


def replay(ctx, rec):
    return errors_engine.replay(ctx, rec)
