"""C15 -- a faulty source line is reported as an AssemblerError naming that file and line.
Theorems: coq/Props/C15.v.  Correspondence + falsifier: tools/errors_engine.py."""
import errors_engine

GEN_UNITS = ['Encoders', 'Criteria', 'Pseudo', 'PassTable']
ASSUMPTIONS = ['one identifiable faulty line in an otherwise valid program (the quantifier of the property); wrong operand '
               'COUNTS (`mv t0`) are not among the listed fault classes and are not planted']


def explore(ctx):
    errors_engine.explore(ctx)


def replay(ctx, rec):
    return errors_engine.replay(ctx, rec)


CLAIM = dict(
 text="C15_no_internal_exception: on well-formed items (what the parser hands over: class-shaped operand fields, table mnemonics, pseudo-instructions with the operand count of the regenerated template table, align N >= 1, size-table directive names, parser-shaped expressions) NO raw exception leaves any of the 16 passes of the model, both modes, any initial constants / labels -- proved through every pass with a stage-indexed invariant, using the totality of all 93 GENERATED encoders (Proofs/EncTotal.v), computed checks over the GENERATED criteria / construction / pseudo-template tables, and the generated try/except flag of the compression predicates. C15_parser_output_well_formed: whatever the parser model returns for ANY token list satisfies that well-formedness, with exactly two exceptions stated as hypotheses (pseudo-instruction operand count, shorthand directive spelled in upper case). C15_handlers_from_source: the try/except conversions the model relies on are read from the source on every run (Gen/PassTable.v) and consulted by the model. C15_located: for the hand model of the 16 passes (both modes) every AssemblerError names the line of an item of the program -- each pass reports the item it is processing; pseudo expansions, compressed forms, alignment padding inherit the line (induction through all passes, with the line-inclusion chain of the layout theorem). C15_expression_faults: undefined label / constant and malformed / non-integer expressions can only raise the assembler's own error, at the item's line, never a raw exception. C15_malformed_expression: the parser model's parse_immediate on ANY token list returns a parser-shaped expression or the assembler's error at its line -- never a raw exception from tuple unpacking (false before fix 724a92b: D21); C15_align_operand: `align N` with N < 1 is refused by the parser at its line, Align items carry N >= 1 (D22, fix bd05113). C15_duplicate_label: the label pass fails exactly at a second definition; success implies unique names. C15_data_faults: no raw struct.error / ValueError leaves the pack and sequence passes (C10 states which values are refused). C15_encoder_faults: an encoder ValueError (C06: exactly the illegal operands) becomes the assembler's error at the instruction's line. NOT covered by the no-raw theorem (stated in its comment): wrong operand COUNT of a pseudo-instruction, upper-case shorthand directive, a file changing between read and embed; the parser model itself still has raw branches for wrong operand counts. Falsifier: one fault of each listed class planted at every position of valid programs, top level and include depth 1-3, inside pseudo expansions, both modes; the REAL assembler must raise AssemblerError with the planted file and line; the same programs feed the model-vs-real correspondence on error class and location. Found D12 (duplicate label accepted), D14 (raw struct.error), earlier D13, and D21-D23 (malformed modifier expressions, align 0, malformed imm(reg) operand: raw ValueError / IndexError / ZeroDivisionError); all fixed in /repo.",
 note="Trusted: as C03; file names and physical line numbers come from the real reader (C14 covers read_lines); the CLI's conversion of AssemblerError to exit status 1 is covered by C17's correspondence. Wrong operand COUNTS (`mv t0`) still escape as raw ValueError: not among the property's fault classes, not planted, noted in DESIGN.md.",
 technique="Coq proof (error-location invariant through all passes, per-class lemmas) over the pass model; planted-fault falsifier on the real assembler; differential correspondence on error class and location",
 design="6/C15")
