"""C17 -- the command line writes exactly the assembled program, or nothing on failure.
Theorems: coq/Props/C17.v, proved by symbolic execution of Model.Cli.run_cli on the step list GENERATED from the AST of
asm.cli_main (Gen/Cli.v), for any assembler that may fail.
Correspondence: real CLI runs (subprocess) vs the model on the same options / files / working directory, the model's
assembler being the observed in-process result of asm.assemble and its bin2hex the hex text the real run wrote
(after that text passed the Spec decoder).
Falsifier (property on the REAL code): on every run, exit 0 => -o = assembled bytes, -l = one "name 0x%08x" line per
label, .hex decodes (Coq Spec.Hex decoder) to the bytes at the offset; exit != 0 => every previously existing
-o / -l / .hex file is untouched."""
import os

import harness
import files_engine as fe
import cli_engine as ce

GEN_UNITS = ['Cli']
EXES = []
ASSUMPTIONS = [
    'intelhex.bin2hex(offset, bytes) writes a file that Spec.Hex.hex_decode maps back to the bytes at the offset whenever '
    '0 <= offset and offset + len <= 2^32 (checked at run time on every hex file the real CLI produced)',
    'the three output paths name three different files (hypothesis distinct_outputs of C17_success)',
    'environment faults are out of scope: missing / unwritable output directory, full disk, kill -9 between two writes; '
    'the model\'s open(..., "w") always succeeds',
    'argparse is not modelled (o_argv_ok says whether it accepts the command line); -h is not exercised',
]
TRUSTED_EXTRA = ['tools/units_cli.py (literal shapes of the statements of cli_main -> step kinds; AST-derived may_fail / writes tags)']
CLAIM = dict(
    text=('C17_no_clobber (exit != 0 => the whole file system is unchanged), C17_success (exit 0 => assemble succeeded on the '
          'untouched files with exactly the given options, -o = its bytes, -l = one "name 0x%08x" line per label in table order, '
          '.hex decodes with the independent Spec decoder to the bytes at the offset), C17_nothing_else (no other path is ever '
          'touched) -- proved for EVERY assembler function (a failure in any pass is just "it raises"), every option record, '
          'working directory and file system, by symbolic execution of the interpreter Model.Cli.run_cli on the step list '
          'regenerated from the AST of asm.cli_main on every run; tie: translator (fail closed, literal statement shapes, tags '
          'cross-checked by cli_tags_ok) + real CLI subprocess runs vs the model; falsifier: direct evaluation on real runs with '
          'sentinel files, failures in 16 places of the assembler, valid / invalid / out-of-range hex offsets, 3 working directories'),
    note=('bin2hex is a hypothesis (round trip for the run at hand), validated per produced file with Spec.Hex; environment '
          'faults (unwritable directory, disk full, kill -9) and argparse itself are not modelled; aliasing of -o / -l / .hex '
          'is excluded by hypothesis'),
    technique='Coq theorems by symbolic execution of a generated step list + subprocess correspondence + direct falsifier',
    design='6/C17')


def explore(ctx):
    asm = harness.real_asm()
    ctx.rule = ('16 failing programs (one per place the assembler can fail: reader, lexer/parser, error directive, constants, '
                'compression, pseudo expansion, aliases, immediates, encoders, branch range, sequences, shorthand packs, packs, '
                'strings, include_bytes, raw unpack) x option combinations, 6 successful programs x {-c} x 20 hex-offset '
                'spellings (valid, malformed, negative, beyond 2^32), default / absolute / nested output paths, bad -i, missing '
                'input, --version, unknown option, --include-definitions, absent old files, 3 working directories; '
                'non-trivial = distinct (program, options, cwd) whose run has old output files present')
    cases = ce.generate(ctx.rng, ctx.quick())
    runs = ce.run_all(asm, cases)
    # Spec-decode every hex file a successful run wrote
    todo = [i for i, r in enumerate(runs) if r['rc'] == 0 and r['case'].opts['hex'] and r['after']['hex'] is not None]
    decoded = dict(zip(todo, fe.spec_hex_decode([runs[i]['after']['hex'] for i in todo])))
    terms, idx = [], []
    for i, r in enumerate(runs):
        c = r['case']
        ctx.evaluations += 1
        ctx.count('exit-{}'.format(r['rc']))
        ctx.count('cwd-' + c.cwd_rel)
        if c.present:
            ctx.nontriv((c.name, tuple(c.argv), c.cwd_rel))
        hexdec = decoded.get(i)
        for what, obs, expd, match in ce.evaluate(r, hexdec):
            ctx.cex('{}: {}'.format(c.name, what), {'kind': 'cli', 'case': c.to_json()}, obs, expd, match)
        # hypothesis check: a produced hex file must be what the Spec decoder maps back
        hex_ok = False
        if i in decoded and r['exp'][0] != 'FAIL':
            off = ce.parse_offset(c.opts['hex'])
            if off is not None and 0 <= off and off + len(r['exp'][0]) <= 2 ** 32:
                ctx.count('bin2hex-roundtrip-checked')
                hex_ok = hexdec == [(off + k, b) for k, b in enumerate(r['exp'][0])]
        terms.append(ce.model_term(r, hex_ok))
        idx.append(i)
    answers = fe.run_terms('Base.PyBase Gen.Cli Model.Reader Model.Cli', terms, shard=12)
    for i, a in zip(idx, answers):
        r = runs[i]
        m = ce.parse_model(a)
        real = {'rc': r['rc'], 'output': r['after']['output'], 'labels': r['after']['labels'] if r['case'].opts['labels'] else None,
                'hex': r['after']['hex']}
        if m is None:
            ctx.corr('Model.Cli.run_cli (evaluation failed)', {'case': r['case'].to_json()}, None, None)
            continue
        ctx.traces_validated += 1
        if m != real:
            def short(d):
                return {k: (v[:40].hex() + '..' if isinstance(v, bytes) else v) for k, v in d.items()}
            ctx.corr('Model.Cli.run_cli', {'case': r['case'].to_json()}, short(real), short(m))
    ok = [r for r in runs if r['rc'] == 0]
    if ok:
        ctx.sample({'argv': ok[0]['case'].argv, 'cwd': ok[0]['case'].cwd_rel, 'exit': 0, 'out': ok[0]['after']['output'][:32].hex()})
    bad = [r for r in runs if r['rc'] != 0]
    if bad:
        ctx.sample({'argv': bad[0]['case'].argv, 'cwd': bad[0]['case'].cwd_rel, 'exit': bad[0]['rc'], 'stderr': bad[0]['stderr'][-120:]})


def replay(ctx, rec):
    asm = harness.real_asm()
    case = ce.Case.from_json(rec['input']['case'])
    runs = ce.run_all(asm, [case])
    r = runs[0]
    hexdec = None
    if r['rc'] == 0 and case.opts['hex'] and r['after']['hex'] is not None:
        hexdec = fe.spec_hex_decode([r['after']['hex']])[0]
    return bool(ce.evaluate(r, hexdec))
