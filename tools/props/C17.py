"""C17 -- the command line writes exactly the assembled program, or nothing on failure.
Theorems: coq/Props/C17.v, proved by symbolic execution of Model.Cli.run_cli on the step list GENERATED from the AST of
asm.cli_main (Gen/Cli.v), for any assembler that may fail.
The HEX half is a theorem too: Model.HexWriter.bin2hex_model (the third-party intelhex.bin2hex: 16-byte records counted
from the offset, cut at 64 KiB lines, type-04 records, checksums, EOF record) round-trips through the independent decoder
Spec.Hex.hex_decode for all bytes and every offset with offset + len <= 2^32 (C17_hex_roundtrip), and the CLI theorems are
restated with that writer in place of the bin2hex parameter (C17_success_hex, C17_no_clobber_hex).
Correspondence: (a) real CLI runs (subprocess) vs the model on the same options / files / working directory, the model's
assembler being the observed in-process result of asm.assemble and its bin2hex the writer model; (b) intelhex.bin2hex vs
Model.HexWriter.bin2hex_model on generated (bytes, offset) pairs (tools/hexwriter_engine.py), text for text.
Falsifier (property on the REAL code): on every run, exit 0 => -o = assembled bytes, -l = one "name 0x%08x" line per
label, .hex decodes (Coq Spec.Hex decoder) to the bytes at the offset; exit != 0 => every previously existing
-o / -l / .hex file is untouched."""
import os

import harness
import files_engine as fe
import cli_engine as ce
import hexwriter_engine as hw

GEN_UNITS = ['Cli']
EXES = []
ASSUMPTIONS = [
    'intelhex.bin2hex is the installed third-party package (2.3.0), modelled by Model.HexWriter.bin2hex_model for 0 <= offset, '
    'offset + len <= 2^32 (the range cli_main lets through); the general theorems C17_success / C17_no_clobber still take '
    'bin2hex as a parameter with the round-trip hypothesis, C17_success_hex / C17_no_clobber_hex need no hypothesis about it',
    'the three output paths name three different files (hypothesis distinct_outputs of C17_success)',
    'environment faults are out of scope: missing / unwritable output directory, full disk, kill -9 between two writes; '
    'the model\'s open(..., "w") always succeeds',
    'argparse is not modelled (o_argv_ok says whether it accepts the command line); -h is not exercised',
]
TRUSTED_EXTRA = ['tools/units_cli.py (literal shapes of the statements of cli_main -> step kinds; AST-derived may_fail / writes tags)',
                 'coq/Model/HexWriter.v (hand-written model of intelhex.bin2hex, tied by the text-for-text correspondence)']
CLAIM = dict(
    text=('C17_no_clobber (exit != 0 => the whole file system is unchanged), C17_success (exit 0 => assemble succeeded on the '
          'untouched files with exactly the given options, -o = its bytes, -l = one "name 0x%08x" line per label in table order, '
          '.hex decodes with the independent Spec decoder to the bytes at the offset), C17_nothing_else (no other path is ever '
          'touched), C17_hex_roundtrip (the model of intelhex.bin2hex -- 16-byte records from the offset, cut at 64 KiB lines, '
          'type-04 records, checksums, EOF -- decodes with the independent Spec decoder to exactly the bytes at the offset, for all '
          'bytes and 0 <= offset, offset + len <= 2^32, empty file and offset + len = 2^32 included), C17_success_hex / '
          'C17_no_clobber_hex (the same CLI theorems with that writer in place of the bin2hex parameter: no hypothesis about '
          'bin2hex, the .hex file holds exactly bin2hex_model(binary, offset), and that needs no aliasing hypothesis) '
          '-- proved for EVERY assembler function (a failure in any pass is just "it raises"), every option record, '
          'working directory and file system, by symbolic execution of the interpreter Model.Cli.run_cli on the step list '
          'regenerated from the AST of asm.cli_main on every run; tie: translator (fail closed, literal statement shapes, tags '
          'cross-checked by cli_tags_ok) + real CLI subprocess runs vs the model (its bin2hex = the writer model, .hex compared byte '
          'for byte) + intelhex.bin2hex vs the writer model text for text on 500+ generated (bytes, offset) pairs (empty, 1..100 '
          'bytes, offsets around every kind of 64 KiB line, up to offset + len = 2^32, files longer than 64 KiB); falsifier: direct evaluation on real runs with '
          'sentinel files, failures in 16 places of the assembler, valid / invalid / out-of-range hex offsets, 3 working directories'),
    note=('the writer is the hand-written model of the third-party intelhex 2.3.0 (trusted through the correspondence; every hex '
          'file a real run produced is also decoded with Spec.Hex); environment '
          'faults (unwritable directory, disk full, kill -9) and argparse itself are not modelled; aliasing of -o / -l / .hex '
          'is excluded by hypothesis'),
    technique='Coq theorems by symbolic execution of a generated step list + subprocess correspondence + direct falsifier',
    design='6/C17')


def explore(ctx):
    asm = harness.real_asm()
    ctx.rule = ('16 failing programs (one per place the assembler can fail: reader, lexer/parser, error directive, constants, '
                'compression, pseudo expansion, aliases, immediates, encoders, branch range, sequences, shorthand packs, packs, '
                'strings, include_bytes, raw unpack) x option combinations, 6 successful programs x {-c} x 20 hex-offset '
                'spellings (valid, malformed, negative, beyond 2^32), default / absolute / nested output paths, bad -i, missing '
                'input, --version, unknown option, --include-definitions, absent old files, 3 working directories; '
                'non-trivial = distinct (program, options, cwd) whose run has old output files present; '
                'writer: intelhex.bin2hex vs Model.HexWriter.bin2hex_model on (bytes, offset) pairs -- lengths 0, 1, 2, 3, 15, 16, '
                '17, 31, 32, 33, 48, 100 x small offsets (aligned and not), offsets -33 .. +17 around k * 0x10000 for 11+ values of '
                'k up to 0xFFFF, files ending at 0xFFFE / 0xFFFF / 0x10000 / 0x10001, offset + len = 2^32 - {0, 1, 2, 16}, random '
                'offsets, files of 700 / 5000 / 65576 bytes (two 64 KiB lines crossed); non-trivial = distinct (offset, length > 0)')
    cases = ce.generate(ctx.rng, ctx.quick())
    runs = ce.run_all(asm, cases)
    # Spec-decode every hex file a successful run wrote
    todo = [i for i, r in enumerate(runs) if r['rc'] == 0 and r['case'].opts['hex'] and r['after']['hex'] is not None]
    decoded = dict(zip(todo, fe.spec_hex_decode([runs[i]['after']['hex'] for i in todo])))
    terms, idx = [], []
    for i, r in enumerate(runs):
        c = r['case']
        ctx.evaluations += 1
        ctx.count('exit-{}'.format(r['rc']))
        ctx.count('cwd-' + c.cwd_rel)
        if c.present:
            ctx.nontriv((c.name, tuple(c.argv), c.cwd_rel))
        hexdec = decoded.get(i)
        for what, obs, expd, match in ce.evaluate(r, hexdec):
            ctx.cex('{}: {}'.format(c.name, what), {'kind': 'cli', 'case': c.to_json()}, obs, expd, match)
        if i in decoded and r['exp'][0] != 'FAIL':
            ctx.count('real-hex-file-spec-decoded')
        terms.append(ce.model_term(r))
        idx.append(i)
    answers = fe.run_terms('Base.PyBase Gen.Cli Model.Reader Model.Cli Model.HexWriter', terms, shard=12)
    for i, a in zip(idx, answers):
        r = runs[i]
        m = ce.parse_model(a)
        real = {'rc': r['rc'], 'output': r['after']['output'], 'labels': r['after']['labels'] if r['case'].opts['labels'] else None,
                'hex': r['after']['hex']}
        if m is None:
            ctx.corr('Model.Cli.run_cli (evaluation failed)', {'case': r['case'].to_json()}, None, None)
            continue
        ctx.traces_validated += 1
        if m != real:
            def short(d):
                return {k: (v[:40].hex() + '..' if isinstance(v, bytes) else v) for k, v in d.items()}
            ctx.corr('Model.Cli.run_cli', {'case': r['case'].to_json()}, short(real), short(m))
    writer_correspondence(ctx)
    ok = [r for r in runs if r['rc'] == 0]
    if ok:
        ctx.sample({'argv': ok[0]['case'].argv, 'cwd': ok[0]['case'].cwd_rel, 'exit': 0, 'out': ok[0]['after']['output'][:32].hex()})
    bad = [r for r in runs if r['rc'] != 0]
    if bad:
        ctx.sample({'argv': bad[0]['case'].argv, 'cwd': bad[0]['case'].cwd_rel, 'exit': bad[0]['rc'], 'stderr': bad[0]['stderr'][-120:]})


def writer_correspondence(ctx):
    """intelhex.bin2hex vs Model.HexWriter.bin2hex_model, text for text; and the REAL text through the Spec decoder
    (what C17_hex_roundtrip proves of the model's text)"""
    pairs = hw.generate(ctx.rng, ctx.quick())
    real = hw.real_bin2hex(pairs)
    model = hw.model_bin2hex(pairs)
    short = [i for i, (b, _) in enumerate(pairs) if len(b) <= hw.LONG and isinstance(real[i], bytes)]
    decoded = dict(zip(short, fe.spec_hex_decode([real[i] for i in short])))
    for i, (b, off) in enumerate(pairs):
        ctx.evaluations += 1
        inp = {'kind': 'bin2hex', 'offset': off, 'bytes': b[:64].hex() + ('..' if len(b) > 64 else ''), 'len': len(b)}
        if isinstance(real[i], bytes):
            ctx.count('hexwriter-' + ('long' if len(b) > hw.LONG else hw.shape(real[i]).replace(' ', '-')))
            if b:
                ctx.nontriv(('bin2hex', off, len(b)))
        if model[i] is None:
            ctx.corr('Model.HexWriter.bin2hex_model (evaluation failed)', inp, None, None)
            continue
        ctx.traces_validated += 1
        if not hw.agree(real[i], model[i]):
            def show(x):
                return x.decode('ascii', 'replace')[:400] if isinstance(x, bytes) else repr(x)
            ctx.corr('Model.HexWriter.bin2hex_model', inp, show(real[i]), show(model[i]))
        if i in decoded and decoded[i] != hw.expected_placement(b, off):
            ctx.cex('intelhex.bin2hex wrote a file that does not decode to the bytes at the offset', inp,
                    str(decoded[i])[:300], 'the {} bytes at {}..'.format(len(b), off), {'kind': 'bin2hex-decode'})
    k = next((i for i, (b, off) in enumerate(pairs) if 0 < len(b) <= 40 and off % 0x10000 + len(b) > 0x10000), None)
    if k is not None:
        ctx.sample({'bin2hex': {'offset': pairs[k][1], 'bytes': pairs[k][0].hex()}, 'text': real[k].decode('ascii').split()})


def replay(ctx, rec):
    if rec['input'].get('kind') == 'bin2hex':
        return replay_writer(rec)
    asm = harness.real_asm()
    case = ce.Case.from_json(rec['input']['case'])
    runs = ce.run_all(asm, [case])
    r = runs[0]
    hexdec = None
    if r['rc'] == 0 and case.opts['hex'] and r['after']['hex'] is not None:
        hexdec = fe.spec_hex_decode([r['after']['hex']])[0]
    return bool(ce.evaluate(r, hexdec))


def replay_writer(rec):
    off, b = rec['input']['offset'], rec['input']['bytes']
    if b.endswith('..'):
        return True                      # a long input is not stored in full: cannot be re-run, keep it reported
    b = bytes.fromhex(b)
    real = hw.real_bin2hex([(b, off)])[0]
    if not isinstance(real, bytes):
        return True
    return fe.spec_hex_decode([real])[0] != hw.expected_placement(b, off)
