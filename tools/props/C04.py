"""C04 -- enabling compression never changes what the program means.  Theorems: coq/Props/C04.v.
Correspondence + falsifier: tools/layout_engine.py."""
import layout_engine

GEN_UNITS = ['Encoders', 'Criteria', 'Guards', 'PassTable', 'Effects']
ASSUMPTIONS = ['programs with unique label names and align N >= 1 (the quantifier of the property)']


def explore(ctx):
    ctx.rule = ('structured layout programs (instructions, all pseudo kinds, data, aligns, gaps at the edges of every '
                'branch/jump range incl. 1 MiB), both modes; non-trivial = distinct (reference kind, distance, mode)')
    layout_engine.explore(ctx, 'C04')


def replay(ctx, rec):
    return layout_engine.replay(ctx, 'C04', rec)


CLAIM = {'text': 'WHOLE PROGRAM (Proofs/Compress*.v, sub-agent): C04_program_literal -- for every program whose immediates are label-free (constants, arithmetic, %hi / %lo / %position on constants; any data, any aligns; parser-shaped items) and that the model assembles in both modes, the two chunk lists correspond SOURCE ITEM BY SOURCE ITEM in order: labels and constants contribute nothing, an align pads (N - p mod N) mod N for that run\'s own offset, data chunks are identical, instruction chunks are pairwise identical or a 32-bit word w against a halfword h with decode32 w = ins, decode16 h = ci and expand_c ci equivalent to ins (equal, or add rd,x0,rs for addi rd,rs,0); C04_program_transfers -- the same with branches / jal / beqz..bleu / j to labels: the pair satisfies retarget (both target the value of L in their own run\'s label table); C04_chunk_machine -- a non-identical pair does on the Spec machine, in one step of length 2, what the 32-bit instruction does; C04_item_pair / C04_item_transfer item level; C04_parser_flag. (call / tail, label values in data and constant targets are outside: K2 / K3 of C12.) RULE LEVEL: C04_rule_sound: for the GENERATED criteria table, predicate semantics and construction rows (regenerated per run), whatever rule the first-match selection picks for an item -- any register spelling, ANY integer immediate -- the compressed operands are legal (Spec/Legal) and name an instruction whose Spec expansion (expand_c) has the same meaning as the 32-bit instruction (equal, or add rd,x0,rs for addi rd,rs,0): symbolic reduction of the generated pred_sem to numeric views + in-kernel sweep of the complete operand box of each of the 29 rules. C04_rule_semantics: the structural same-meaning test implies equality of the Spec step semantics from every state (sem_equiv; 4000-case analysis). C04_rule_encodes pushes this through the generated encoders with C01/C02/C06: the c.* encoder accepts, decode16 is legal, decode32 of the original word has the same meaning. C04_decided_on_final_value: rules only see immediates that can no longer change. C04_data_untouched: non-code items pass the compression passes unchanged. Falsifier: both modes of generated programs decoded and compared per source line with the extracted Spec, operands on both sides of every RVC operand-set edge, label-dependent immediates, compressible second halves of li/call/tail.', 'note': 'Trusted: as C03; the glue from item fields (strings) to numeric operands is by C04_spelling + correspondence, the premise wf_view (an item has only the fields of its mnemonic) is what the real parser produces (correspondence-tested). The step semantics is Spec/Sem.v (single hart, no traps).', 'technique': 'Coq proof: symbolic link to generated predicate semantics + exhaustive in-kernel sweeps per rule; two-mode differential falsifier with Spec decoding', 'design': '6/C04'}
