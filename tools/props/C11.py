"""C11 -- constants evaluate as integer arithmetic and substitute transparently.
Theorems: coq/Props/C11.v over the lexer / expression / parser model and resolve_constants_lr of the pass model.
Correspondence + falsifier: tools/frontend_engine.py."""
import frontend_engine as fe
import harness

GEN_UNITS = ['Encoders', 'Criteria', 'Guards', 'Effects']
EXES = []
ASSUMPTIONS = ['expressions of the documented integer subset (+ - * // % << >> & | ^ ~ **, parentheses, decimal / hex / binary '
               'literals, names); shift counts and exponents are small non-negative literals; printable ASCII',
               "the backslash character is written '\\\\' (escapes are interpreted inside character literals)"]
TRUSTED_EXTRA = ['coq/Model/Lexer.v, PyExpr.v, Parser.v: hand-written, tied to asm.lex_tokens / parse_item / Arithmetic.eval '
                 '(i.e. CPython eval) by differential evaluation (tools/frontend_engine.py)']
CLAIM = dict(
    text='C11_lex_transparent: whatever the spelling of a constant definition, the text handed to eval is the expression tokens '
         'joined by one blank; C11_value: resolve_constants_lr succeeds exactly when every definition evaluates over the earlier '
         'names (registers visible) and then binds each name to that value, in order; C11_number_literals: for the expression model the decimal / hexadecimal spelling of every value below 2^64 IS that number, as expression text and as an immediate operand (induction on the digit loops); C11_subst: replacing constant names by their values inside integer expressions (immediates, li, data, %hi/%lo/%position arguments) leaves the result of the whole 16-pass model unchanged, both modes (simulation through every pass); C11_subst_register (Proofs/SubstReg.v, EncReg.v): the same at REGISTER-LIKE sites -- a register field (rd / rs1 / rs2 incl. the shift amount / rd_rs1) of an instruction or a register operand of a pseudo-instruction written as a constant (`W = s0`, `SH = 3`) gives exactly the result of the operand written literally (any spelling lookup_register reads alike that is not itself a constant name), both modes, errors included; C11_encoders_read_registers_through_lookup: all 93 generated encoders read register operands through lookup_register only (per format function, swept over the generated tables); C11_subst_all composes both kinds of site; C11_subst_register_text / C11_rtype_line_subst_register from the text / token line; C11_literal_only_sites states the boundary (fence sets, aq / rl, align, numeric sequences accept a literal and refuse a constant, on the model as on the real code); C11_char: the character literal of every '
         'printable ASCII character evaluates to its code point on the model. Tie: PyExpr vs CPython (tree vs ast.parse, value vs '
         'the real Arithmetic.eval), lexer / parser correspondence. Falsifier: random expression trees with independently computed '
         'values, all 95 character literals, constants substituted at every site, both modes.',
    note='the meaning of an expression is the hand-written evaluator aeval, tied to CPython eval by differential evaluation only',
    technique='induction + kernel sweep over 95 characters + differential correspondence', design='6/C11')


def explore(ctx):
    asm = harness.real_asm()
    ctx.rule = ('random expression trees of depth <= 6 over all documented operators and literal forms, printed with minimal and '
                'redundant parentheses; 95 printable character literals x 2 uses; 41 substitution sites x 2 modes; '
                'non-trivial = distinct expression text / (character, use) / (site, mode, definition)')
    exprs = []
    fe.falsify_c11_chars(ctx, asm)
    fe.falsify_c11_exprs(ctx, asm, exprs)
    fe.falsify_c11_subst(ctx, asm)
    fe.falsify_c11_redefine(ctx, asm)
    lines = ["X = " + fe.char_source(c) for c in fe.PRINTABLE] + ['X = ' + t for t, _ in exprs[:600]]
    lines += [t.format(K='K') for t, _ in fe.SITES]
    fe.correspondence(ctx, asm, lines, exprs)


def replay(ctx, rec):
    return fe.replay_c11(harness.real_asm(), rec['input'])
