"""C01 -- 32-bit encodings.  Theorems: coq/Props/C01.v.  Correspondence + falsifier: tools/enc_engine.py."""
import enc_engine
import isa

GEN_UNITS = ['Encoders', 'Guards']
ASSUMPTIONS = ['operands reach the encoders as Python int / str (the arg type of the model)']


def explore(ctx):
    ctx.rule = ('per mnemonic: every immediate of the format range and beyond x 3 register patterns; register tuples x '
                'sample immediates; all register spellings per position; aq/rl and fence-set variants; plus the one-line '
                'text path. non-trivial = distinct (mnemonic, normalised legal operand tuple)')
    enc_engine.explore(ctx, isa.BASE, 'C01')
    ctx.exhaustive = not ctx.quick()


def replay(ctx, rec):
    import harness
    asm = harness.real_asm()
    inp = rec['input']
    if 'source' in inp:
        try:
            b = bytes(asm.assemble(inp['source']))
            return b.hex() != rec['expected']
        except Exception:
            return True
    r = enc_engine.run_impl(asm, inp['name'], inp['ops'], inp.get('aq'), inp.get('rl'))
    if r[0] != 'ok':
        return False
    d = ctx.spec.batch([('d16 {}' if inp['name'].startswith('c.') else 'd32 {}').format(r[1])])[0]
    return d != rec['expected']
