"""C18 -- a completed DFU run leaves the device flash equal to the firmware image.
Theorems: coq/Props/C18.v (C18_flash, C18_order) about Model.DfuHost.cli_main (which calls the GENERATED Gen.Dfu)
running against the Spec device, for every firmware length, variant, busy schedule and initial state.
Correspondence: the REAL dfu.cli_main() runs in-process against the fake usb package whose device is the live extracted
Spec device (bbdfudev); its ctrl_transfer / sleep / print / exit trace must equal the model's trace (bbdfu) event by
event.  Falsifier: the property evaluated on the real run -- what the Spec device saw and holds afterwards."""
import dfu_engine as E

GEN_UNITS = ['Dfu']
EXES = ['bbdfudev', 'bbdfu']
ASSUMPTIONS = ['the device behaves as Spec/DfuDev.v (DFU 1.1 fig. A.1 download path + DfuSe commands, 1 KiB pages at 0x08000000)',
               'USB device id 28e9:0189 (the only one for which dfu.py defines page_size / page_count)',
               'fault-free schedules here (error injection is C19); time-outs fit the 24-bit bwPollTimeout field']
TRUSTED_EXTRA = ['tools/units_dfu.py translator of dfu.py', 'tools/fakeusb (stand-in for pyusb), tools/dfu_engine.py recorders',
                 'ocaml/dfuio.ml, bbdfudev.ml, bbdfu.ml drivers']
CLAIM = dict(
    text='C18_flash / C18_order: for every firmware of length 0..flash size, each of the four GD32VF103 variants (Spec table), every '
         'finite fault-free busy schedule (any number of dfuDNBUSY answers with any 24-bit poll time-outs per request) and either '
         'initial state (dfuIDLE / dfuERROR), the host model run against the Spec DfuSe device ends with Exit 0, flash '
         '[0x08000000, +pages*1024) = firmware ++ zero padding, every other byte unchanged, no protocol monitor fired '
         '(request while busy, poll delay, write before erase, address range, bad request) and exactly `pages` erase, set-address '
         'and write operations were executed. The model calls the constants, request builders, status decoding, device table, '
         'size guard, padding, address arithmetic and poll predicates REGENERATED from dfu.py on every run; its loop skeleton is tied '
         'to the real cli_main by trace equality against a live extracted Spec device behind a fake usb package. Falsifier: flash / '
         'monitors / counts / exit evaluated on the real run.',
    note='Trusted: Coq kernel, tools/units_dfu.py, my DfuSe device Spec (real USB timing, libusb and the boot loader are replaced by it), '
         'fake usb + recorders, extraction and OCaml drivers. Zero axioms.',
    technique='Coq proof (induction on pages and busy counts) over a host model built on translator-regenerated pieces; trace-equality '
              'correspondence against a live extracted Spec device; Spec-evaluated falsifier',
    design='6/C18')


def lengths(size, rng, quick, full=False):
    base = [0, 1, 1023, 1024, 1025, 2047, 2048, size - 1, size]
    extra = [rng.randrange(0, size + 1) for _ in range(1 if quick else (12 if full else 6))] + \
        [rng.randrange(0, 5000) for _ in range(2 if quick else (20 if full else 10))]
    return list(dict.fromkeys(base + extra))


def gen_cases(ctx):
    rng = ctx.rng
    quick = ctx.quick()
    full = ctx.tier == 'thorough'      # (a quick run that went deep after a break uses the middle size)
    cases = []
    for sn, size in E.VARIANTS.items():
        for n in lengths(size, rng, quick, full):
            if quick and size > 32768 and n > 4096 and n not in (size - 1, size):
                continue
            if quick and size == 131072 and n == size - 1:
                continue
            reps = 1 if (quick or n > 20000) else (4 if full else 2)
            for _ in range(reps):
                pages = E.pages_of(n)
                style = rng.randrange(4)
                if style == 0:
                    sched = []
                elif style == 1:
                    sched = [E.rand_entry(rng, 1) for _ in range(3 * pages)]
                else:
                    sched = [E.rand_entry(rng, 3) for _ in range(rng.randrange(0, 3 * pages + 3))]
                if sched and rng.random() < 0.3:
                    i = rng.randrange(len(sched))
                    sched[i] = ([16777215, 0, 65536], 16777215, 0)
                init = 'idle' if rng.random() < 0.6 else 'error:{}'.format(rng.randrange(1, 16))
                cases.append({'size': size, 'sn': sn, 'init': init, 'sched': sched, 'fw': E.rand_fw(rng, n)})
    return cases


def verdict(case, r):
    """None if the real run satisfies C18 on this case, else (what, observed, expected, match)"""
    fw_len = 0 if case['fw'] == '-' else len(case['fw']) // 2
    pages = E.pages_of(fw_len)
    tr = r['trace']
    if tr[-1] != 'exit 0 -' or not E.done_announced(tr):
        return ('run against a fault-free device did not complete: ends with `{}`'.format(tr[-1]),
                {'trace': E.brief_trace(tr)}, 'exit status 0 after announcing done!', {'kind': 'incomplete'})
    if r['mons'] != '-':
        return ('protocol monitor fired: ' + r['mons'], {'monitors': r['mons'], 'trace': E.brief_trace(tr)},
                'no request while busy, poll delays honoured, erase before write, addresses inside flash',
                {'kind': 'monitor', 'monitor': r['mons'].split(',')[0]})
    exp = E.expected_flash(case)
    got = r['flash']
    if got != exp:
        i = next(k for k in range(len(exp)) if got[k] != exp[k])
        a = r['flash_lo'] + i
        return ('flash differs at 0x{:08x}: {:02x}, expected {:02x}'.format(a, got[i], exp[i]),
                {'address': a, 'byte': got[i], 'differing_bytes': sum(1 for k in range(len(exp)) if got[k] != exp[k])},
                'firmware ++ zero padding on [0x08000000, +{}), every other byte unchanged'.format(pages * E.PAGE),
                {'kind': 'flash', 'inside_image': E.FLASH_BASE <= a < E.FLASH_BASE + pages * E.PAGE})
    if r['counts'] != '{0} {0} {0}'.format(pages):
        return ('operations executed (erase set-address write) = {}'.format(r['counts']), {'counts': r['counts']},
                '{0} {0} {0}'.format(pages), {'kind': 'counts'})
    return None


def explore(ctx):
    ctx.rule = ('variants x firmware lengths {0,1,1023,1024,1025,2047,2048,size-1,size} u random, random busy schedules (0-3 dfuDNBUSY '
                'answers per request, time-outs {0,1,10,255,65536,2^24-1} ms and random), start idle / dfuERROR; non-trivial = distinct '
                '(variant, pages, length mod 1024 class, schedule shape, initial state)')
    if not E.available('bbdfudev'):
        ctx.corr('bbdfudev unavailable', {}, None, None)
        return
    dfu = E.real_dfu()
    cases = gen_cases(ctx)
    reals = []
    for case in cases:
        r = E.run_real(dfu, case)
        reals.append(r)
        ctx.evaluations += 1
        n = 0 if case['fw'] == '-' else len(case['fw']) // 2
        ctx.nontriv((case['sn'], E.pages_of(n), min(n % 1024, 2) if n % 1024 < 1023 else 3, len(case['sched']),
                     max([len(b) for b, _, _ in case['sched']] + [0]), case['init'].split(':')[0]))
        ctx.count('variant-' + case['sn'])
        ctx.count('init-' + case['init'].split(':')[0])
        v = verdict(case, r)
        if v is not None:
            what, obs, exp, match = v
            ctx.cex(what, E.case_input(case), obs, exp, match)
    if reals:
        ctx.sample({'case': E.brief_case(cases[0]), 'trace': E.brief_trace(reals[0]['trace'])})
    E.correspond(ctx, cases, reals)
    E.coq_crosscheck(ctx, cases, reals)


def replay(ctx, rec):
    dfu = E.real_dfu()
    case = E.case_of_input(rec['input'])
    return verdict(case, E.run_real(dfu, case)) is not None
