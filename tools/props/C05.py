"""C05 -- pseudo-instructions have exactly their documented effect.  Theorems: coq/Props/C05.v (Spec/Sem.v semantics,
Model/Passes.v expansions, generated encoders through C01, %hi/%lo through C07).
Correspondence + falsifier: tools/sem_engine.py (real assembler -> bytes -> extracted Spec machine build/bbsem)."""
import sem_engine

GEN_UNITS = ['Encoders', 'Criteria', 'Pseudo', 'Effects', 'Guards']
EXES = ['bbmodel', 'bbspec', 'bbsem']
ASSUMPTIONS = ['single hart, no traps: fence is a no-op; misaligned / out-of-range addresses are not faults',
               'theorems: both renderings (uncompressed and compressed), register operands spelled as register names (not constant aliases)']
TRUSTED_EXTRA = ['coq/Spec/Sem.v: RV32I(+M) single-step semantics and the documented pseudo-instruction effects, written by hand '
                 'from the ISA manual / docs/instruction_reference.rst', 'ocaml/bbsem.ml driver; tools/sem_engine.py (independent Python '
                 'transcription of the documented effects)']
CLAIM = dict(
    text='35 theorems (coq/Props/C05.v, zero axioms) over the pass model (expand_pseudo / pseudo_rule of coq/Model/Passes.v), the model\'s own '
         'resolve_immediates / resolve_instructions / resolve_blobs, the GENERATED encoders (through C01 decode_encode) and %hi/%lo (C07 '
         'hi_lo_rebuild): for each of the 27 pseudo-instructions, every accepted register spelling (rd = rs, x0, sp: no side condition), every '
         'state (registers, pc, memory arbitrary) in which the emitted bytes sit at the pc, the Spec machine (Spec/Sem.v: fetch from byte memory, '
         'decode32, step) ends in exactly the documented state: C05_li -- whatever pseudo_rule emits (addi, or lui+addi) and wherever it is '
         'finally resolved, rd = operand value mod 2^32 for EVERY integer value, nothing else changed, pc + 4/8; C05_li_program -- the one-line program `li rd, e` through ALL 16 passes (they are pseudo_rule followed by emit_bytes), assembled bytes loaded and run leave the value in rd; C05_unary (mv not neg seqz snez '
         'sltz sgtz = documented function); C05_branch_zero / C05_branch_two (10 branches: taken iff the documented signed/unsigned condition, '
         'target = label, no register written); C05_j_jal, C05_jr_jalr, C05_ret, C05_call_tail_near, C05_call_far (x1 = pc+8, target for every '
         'distance), C05_tail_far (only x6 written), C05_nop, C05_fence, C05_memory_writes. Tie to the code: pipeline correspondence of the '
         'pass model on pseudo-heavy programs + encoders regenerated per run. Falsifier: real assembler output executed by the extracted Spec '
         'machine on random/special register files and load addresses, compared with an independent Python transcription of the documented '
         'effects: all 27 pseudos, all 32x32 register pairs, li over low-13-bit x upper patterns in +/-/>2^32 spellings and label-dependent '
         'operands (%position, %offset, expressions), every distance class of branches/j/jal/call/tail, alone and inside programs, '
         'compression off and on. THE COMPRESSED RENDERING is proved too (Proofs/RuleStep.v, CodeLine.v, PseudoCompressed.v, PseudoCompressedRule.v): '
         'C05_rule_step -- whenever the compression pass selects a rule, the halfword it emits executes on the Spec machine (decode16 + expand_c) exactly like '
         'the 32-bit instruction, taken with length 2; C05_*_compressed (li, unary, branch_zero, branch_two, j/jal, jr/jalr, ret, call/tail near and far, nop, fence): '
         'whatever compress_rule returns for the expansion, emitted at any final position with any final label table, has the documented effect with its own length; '
         'C05_li/unary/nop/jr_jalr/ret_program_compressed: the ONE-LINE program through all 16 passes with compress = true (2, 4, 6 or 8 bytes), run on the machine; '
         'C05_j_jal/branch_zero_program_compressed: the program `t0: pseudo ref; t2:` (ref backwards or forwards) with the label table after shrinking. 19 computed runs '
         '(li a0,5 -> c.li; 0x12000 -> c.lui + c.mv; 0x12345 -> c.lui + addi, 6 bytes; li sp,0x12010 -> lui + c.addi16sp; ...).',
    note='Theorems cover both renderings with register operands spelled as register names; constant aliases as register operands are covered '
         'by the falsifier (and C11); the program-level theorems take no constants / labels handed in. The effect of a compressed instruction is stated with ITS OWN '
         'length (pc + 2, link = pc + 2). emit_bytes applies the '
         'model\'s last passes to the expanded items in isolation (that the full pipeline treats them the same at their final position is the '
         'layout theorem of C03/C09). Trusted: Coq kernel (+vm_compute for the Examples), py2coq, Spec/Sem.v (my reading of the ISA manual and of '
         'docs/instruction_reference.rst), Spec/RV32.v decoder, Spec/Operands.v, extraction + ocaml/bbsem.ml, tools/sem_engine.py oracle. '
         'Machine model: single hart, no traps, fence = no-op.',
    technique='Coq proof over hand-modelled passes + translator-regenerated encoders against an executable ISA semantics; correspondence; '
              'emulation-based falsifier on the real assembler output',
    design='6/C05')


def explore(ctx):
    ctx.rule = ('all 27 pseudo-instructions: every register pair (32 x 32, both spellings) for the two-register ones, every register '
                'for the one-register ones; li over low-13-bit patterns x upper patterns (quick: stride 7 + edges x 6; thorough: all '
                '8192 x 64) in positive / negative / > 2^32 spellings, and label-dependent operands; every distance class (near / far, '
                'forward / backward, range edges) for branches, j, jal, call, tail; alone and inside generated programs; compression '
                'off and on; random + special register files and load addresses.  non-trivial = distinct (pseudo, operands or li '
                'value, emitted shape, mode)')
    sem_engine.explore(ctx)


def replay(ctx, rec):
    return sem_engine.replay(ctx, rec)
