"""C19 -- DFU refuses oversize firmware untouched and never reports a failed flash as done.
Theorems: coq/Props/C19.v (C19_oversize, C19_error) about Model.DfuHost.cli_main over the GENERATED Gen.Dfu (the size guard
comparison and WHAT the `if status != STATUS_OK:` blocks do -- print only, or SystemExit naming the status -- are translated
from the source on every run) against the Spec device.
Correspondence: as C18 (real cli_main against the live extracted Spec device behind the fake usb package; trace equality),
on oversize files and on schedules with injected error statuses.
Falsifier: on the real run -- oversize: no DNLOAD request, flash untouched, SystemExit with a non-zero status; injected
error on an erase / write step: no "done!", the run ends in SystemExit with a non-zero status whose message names the
status the device reported."""
import dfu_engine as E

GEN_UNITS = ['Dfu']
EXES = ['bbdfudev', 'bbdfu']
ASSUMPTIONS = ['the device behaves as Spec/DfuDev.v; after reporting an error it is in dfuERROR and stalls further DNLOADs (DFU 1.1 A.2.11)',
               'injected statuses are the 15 error codes of DFU 1.1 (errTARGET .. errSTALLEDPKT)',
               '"naming the failure" = the SystemExit message contains the program\'s description of the reported status or its DFU 1.1 name',
               'errors injected on erase and data-block (write) requests only, as the property says; set-address failures are outside it']
TRUSTED_EXTRA = ['tools/units_dfu.py translator of dfu.py', 'tools/fakeusb (stand-in for pyusb), tools/dfu_engine.py recorders',
                 'ocaml/dfuio.ml, bbdfudev.ml, bbdfu.ml drivers']
CLAIM = dict(
    text='C19_oversize: for every variant and every firmware longer than the flash, the host model issues no request at all and ends with '
         'Exit <non-zero>. C19_error: for every in-range firmware, variant, initial state and schedule whose first failing request is an '
         'erase or a data-block write (any number of busy polls before it, any further injections after it: single, double, ...), the '
         'trace never prints done! and ends with Exit c (Some st), c <> 0, st the status the device reported. Both are about '
         'Model.DfuHost over pieces regenerated from dfu.py -- in particular the translated bodies of the two `if status != STATUS_OK:` '
         'blocks, so the proof only checks when the source really raises SystemExit naming the status. Tie: trace equality of the real '
         'cli_main against the live extracted Spec device with injected statuses. Falsifier: every status x every erase/write step of '
         '1-5 page runs singly, pairs, oversize by 1 / a page / 2^20.',
    note='Trusted: as C18. Zero axioms.',
    technique='Coq proof over a host model parameterised by translator-regenerated error handling; trace-equality correspondence; '
              'error-injecting falsifier on the real code',
    design='6/C19')


def steps_of(pages):
    """indices of the DNLOAD requests that are erase or write (data block) steps, in a run of `pages` pages"""
    return [('erase', i) for i in range(pages)] + [('write', pages + 2 * j + 1) for j in range(pages)]


def gen_cases(ctx):
    rng = ctx.rng
    quick = ctx.quick()
    full = ctx.tier == 'thorough'      # (a quick run that went deep after a break uses the middle size)
    cases = []
    # oversize
    for sn, size in E.VARIANTS.items():
        for over in ([1, 1024] if quick else [1, 2, 1023, 1024, 1025, 4096]) + ([1 << 20] if (sn == '4' or not quick) else []):
            init = 'idle' if rng.random() < 0.5 else 'error:{}'.format(rng.randrange(1, 16))
            cases.append(('oversize', None, {'size': size, 'sn': sn, 'init': init,
                                             'sched': [E.rand_entry(rng, 2) for _ in range(rng.randrange(0, 4))],
                                             'fw': E.rand_fw(rng, size + over)}))
    # single injections: every status at every erase / write step of runs of 1..5 pages
    statuses = list(range(1, 16))
    for pages in range(1, 6):
        for kind, idx in steps_of(pages):
            sts = statuses if (full or pages <= (2 if quick else 3)) else rng.sample(statuses, 3 if quick else 8)
            for st in sts:
                n = rng.choice([pages * 1024, pages * 1024 - rng.randrange(1, 1024)])
                sched = [E.rand_entry(rng, 2 if quick else 3) for _ in range(3 * pages)]
                b, f, _ = sched[idx]
                sched[idx] = (b, f, st)
                sn = rng.choice('B864')
                init = 'idle' if rng.random() < 0.7 else 'error:{}'.format(rng.randrange(1, 16))
                cases.append(('single', (kind, idx, st), {'size': E.VARIANTS[sn], 'sn': sn, 'init': init, 'sched': sched,
                                                          'fw': E.rand_fw(rng, n)}))
    # double injections
    for pages in range(1, 6):
        steps = steps_of(pages)
        pairs = [(a, b) for i, a in enumerate(steps) for b in steps[i + 1:]]
        if quick:
            pairs = rng.sample(pairs, min(len(pairs), 6))
        for a, b in pairs:
            for _ in range(1 if quick else (4 if full else 2)):
                sa, sb = rng.choice(statuses), rng.choice(statuses)
                sched = [E.rand_entry(rng, 2) for _ in range(3 * pages)]
                for (kind, idx), st in ((a, sa), (b, sb)):
                    bb, f, _ = sched[idx]
                    sched[idx] = (bb, f, st)
                sn = rng.choice('B864')
                cases.append(('double', (a[0], a[1], sa), {'size': E.VARIANTS[sn], 'sn': sn, 'init': 'idle', 'sched': sched,
                                                           'fw': E.rand_fw(rng, pages * 1024 - rng.randrange(0, 1024))}))
    return cases


def verdict_oversize(case, r):
    tr = r['trace']
    dn = E.dnload_requests(tr)
    if dn:
        return ('oversize firmware: {} DNLOAD request(s) were sent'.format(len(dn)), {'trace': E.brief_trace(tr)},
                'no erase or write request', {'kind': 'oversize-requests'})
    if r['flash'] != E.expected_flash(dict(case, fw='-')):
        return ('oversize firmware: flash changed', {'trace': E.brief_trace(tr)}, 'flash untouched', {'kind': 'oversize-flash'})
    last = tr[-1].split(' ')
    if last[0] != 'exit' or last[1] == '0' or E.done_announced(tr):
        return ('oversize firmware not refused: run ends with `{}`'.format(tr[-1]), {'trace': E.brief_trace(tr)},
                'SystemExit with a non-zero status, no done!', {'kind': 'oversize-exit'})
    return None


def verdict_error(case, r, inj):
    kind, idx, st = inj
    tr = r['trace']
    base = {'kind': 'error-status', 'step': kind}
    reported = any(e.startswith('req 161 3 ') for e in tr)   # (always) ; did the host see the status at all?
    if E.done_announced(tr) and tr[-1] == 'exit 0 -':
        return ('device reported status {} ({}) on the {} request #{}; the run announced done! and ended with exit status 0'.format(
            st, E.STATUS_NAMES[st], kind, idx), {'trace': E.brief_trace(tr), 'device_state': r['state']},
            'no done!; SystemExit with a non-zero status naming {}'.format(E.STATUS_NAMES[st]), dict(base, outcome='done'))
    last = tr[-1].split(' ')
    if last[0] != 'exit':
        return ('device reported status {} ({}) on the {} request #{}; the run went on and ended with `{}`'.format(
            st, E.STATUS_NAMES[st], kind, idx, tr[-1]), {'trace': E.brief_trace(tr), 'device_state': r['state']},
            'SystemExit with a non-zero status naming {}'.format(E.STATUS_NAMES[st]), dict(base, outcome='crash'))
    if last[1] == '0' or E.done_announced(tr):
        return ('device reported status {} on the {} request #{}; run ends with `{}`{}'.format(
            st, kind, idx, tr[-1], ' after done!' if E.done_announced(tr) else ''), {'trace': E.brief_trace(tr)},
            'non-zero exit status, no done!', dict(base, outcome='exit0'))
    if last[2] != str(st):
        return ('device reported status {} ({}) on the {} request #{}; exit message does not name it: {!r}'.format(
            st, E.STATUS_NAMES[st], kind, idx, r['exit_msg']), {'exit_message': r['exit_msg'], 'trace': E.brief_trace(tr)},
            'exit message naming {}'.format(E.STATUS_NAMES[st]), dict(base, outcome='unnamed'))
    return None


def verdict(tag, inj, case, r):
    return verdict_oversize(case, r) if tag == 'oversize' else verdict_error(case, r, inj)


def explore(ctx):
    ctx.rule = ('oversize by {1,1024,2^20,..} on all variants; every DFU status 1..15 injected at every erase / write step of runs of '
                '1-5 pages (quick: all 15 for 1-2 pages, 3 random for 3-5; otherwise all 15 for 1-3 pages, 8 for 4-5), pairs of injections; random busy schedules; non-trivial = '
                'distinct (tag, pages, step kind, step index, status) / (oversize, variant, excess)')
    if not E.available('bbdfudev'):
        ctx.corr('bbdfudev unavailable', {}, None, None)
        return
    dfu = E.real_dfu()
    tagged = gen_cases(ctx)
    cases, reals, found = [], [], []
    for tag, inj, case in tagged:
        r = E.run_real(dfu, case)
        cases.append(case)
        reals.append(r)
        ctx.evaluations += 1
        n = len(case['fw']) // 2
        ctx.count(tag)
        if tag == 'oversize':
            ctx.nontriv((tag, case['sn'], n - case['size']))
        else:
            ctx.nontriv((tag, E.pages_of(n)) + tuple(inj))
        v = verdict(tag, inj, case, r)
        if v is not None:
            what, obs, exp, match = v
            inp = E.case_input(case)
            inp['tag'], inp['injection'] = tag, inj
            found.append((0 if match.get('outcome') == 'done' else 1, len(case['fw']), what, inp, obs, exp, match))
    # report first the plainest failure: success announced although the device reported an error, smallest firmware
    for _, _, what, inp, obs, exp, match in sorted(found, key=lambda t: t[:2]):
        ctx.cex(what, inp, obs, exp, match)
    for tag in ('oversize', 'single', 'double'):
        k = next((i for i, t in enumerate(tagged) if t[0] == tag), None)
        if k is not None:
            ctx.sample({'tag': tag, 'injection': tagged[k][1], 'case': E.brief_case(cases[k]), 'trace': E.brief_trace(reals[k]['trace'])})
    E.correspond(ctx, cases, reals)
    E.coq_crosscheck(ctx, cases, reals)


def replay(ctx, rec):
    dfu = E.real_dfu()
    inp = rec['input']
    case = E.case_of_input(inp)
    return verdict(inp['tag'], inp['injection'], case, E.run_real(dfu, case)) is not None
