"""C03 -- control transfers land on their label; label table exact.  Theorems: coq/Props/C03.v.
Correspondence + falsifier: tools/layout_engine.py."""
import layout_engine

GEN_UNITS = ['Encoders', 'Criteria', 'Guards', 'Book', 'PassTable', 'Effects']
ASSUMPTIONS = ['programs with unique label names and align N >= 1 (the quantifier of the property)']


def explore(ctx):
    ctx.rule = ('structured layout programs (instructions, all pseudo kinds, data, aligns, gaps at the edges of every '
                'branch/jump range incl. 1 MiB), both modes; non-trivial = distinct (reference kind, distance, mode)')
    layout_engine.explore(ctx, 'C03')


def replay(ctx, rec):
    return layout_engine.replay(ctx, 'C03', rec)


CLAIM = {'text': "C03_labels: for the hand-written Gallina model of the 16 passes (Model/Passes.v, calling the GENERATED criteria/encoders/relocation functions) and EVERY program with unique labels and align N>=1, both modes: a successful run's label table is exact -- each label's value is the total size of the chunks emitted for the source items before it (proved by a generic layout lemma over an arbitrary size-shrinking rule, instantiated for compression, pseudo expansion, alignment; all later passes proved size-preserving). C03_branch/jal/far/cj/cb_lands: the immediate of a transfer evaluated at final offset p with final labels is q-p; pushed through the generated encoder and the Spec decoder (C01/C02 theorems) the transfer lands on q (auipc+jalr: modulo 2^32 via C07). Model tied to asm.assemble by the pipeline correspondence (per-item blobs, labels, constants, errors on generated layouts incl. every branch/jump range edge and 1 MiB gaps); falsifier decodes every transfer of the REAL output with the extracted Spec and recomputes label offsets from the blobs.", 'note': 'Trusted: Coq kernel + vm_compute; py2coq; hand model of the pass loops (tied by differential correspondence only); Spec decoders; parser/lexer are outside this theorem (items come from the real front end; C13). Zero axioms.', 'technique': 'Coq proof (induction over item lists, generic shrinking-pass invariant) over hand model + generated tables; differential correspondence with the real assembler; Spec-decoding falsifier', 'design': '6/C03'}
