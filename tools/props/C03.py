"""C03 -- control transfers land on their label; label table exact.  Theorems: coq/Props/C03.v.
Correspondence + falsifier: tools/layout_engine.py."""
import layout_engine

GEN_UNITS = ['Encoders', 'Criteria', 'Guards', 'Book', 'PassTable', 'Effects']
ASSUMPTIONS = ['programs with unique label names and align N >= 1 (the quantifier of the property)']


def explore(ctx):
    ctx.rule = ('structured layout programs (instructions, all pseudo kinds, data, aligns, gaps at the edges of every '
                'branch/jump range incl. 1 MiB), both modes; non-trivial = distinct (reference kind, distance, mode)')
    layout_engine.explore(ctx, 'C03')


def replay(ctx, rec):
    return layout_engine.replay(ctx, 'C03', rec)


CLAIM = {'text': "AT THE TEXT LEVEL (Proofs/Text*.v, sub-agent; lexer model -> parser model -> 16 passes): C03_text_labels -- for every label line of a text that assembles, the reported label table holds exactly the total size of the chunks of the lines in front of it; C03_text_branch_lands / C03_text_jal_lands / C03_text_call_lands / C03_text_cb_lands / C03_text_cj_lands -- beq..bgeu, the ten pseudo branches, jal / j, call / tail and the explicitly written c.j / c.jal / c.beqz / c.bnez to a label line: the chunk(s) of the line decode, 32-bit or compressed, to a transfer over exactly q - p (far pair: p + hi*4096 + lo = q mod 2^32, the jalr reading the register the auipc wrote); found D28 (explicit compressed transfers with a label operand did not land on it; repaired). PASS LEVEL: C03_labels: for the hand-written Gallina model of the 16 passes (Model/Passes.v, calling the GENERATED criteria/encoders/relocation functions) and EVERY program with unique labels and align N>=1, both modes: a successful run's label table is exact -- each label's value is the total size of the chunks emitted for the source items before it (proved by a generic layout lemma over an arbitrary size-shrinking rule, instantiated for compression, pseudo expansion, alignment; all later passes proved size-preserving). C03_branch/jal/far/cj/cb_lands: the immediate of a transfer evaluated at final offset p with final labels is q-p; pushed through the generated encoder and the Spec decoder (C01/C02 theorems) the transfer lands on q (auipc+jalr: modulo 2^32 via C07). Model tied to asm.assemble by the pipeline correspondence (per-item blobs, labels, constants, errors on generated layouts incl. every branch/jump range edge and 1 MiB gaps); falsifier decodes every transfer of the REAL output with the extracted Spec and recomputes label offsets from the blobs.", 'note': 'Trusted: Coq kernel + vm_compute; py2coq; hand model of the pass loops (tied by differential correspondence only); Spec decoders; the text-level theorems go through the lexer and parser models (tied by the front-end correspondence). Zero axioms.', 'technique': 'Coq proof (induction over item lists, generic shrinking-pass invariant) over hand model + generated tables; differential correspondence with the real assembler; Spec-decoding falsifier', 'design': '6/C03'}
