"""C02 -- RV32C encodings.  Theorems: coq/Props/C02.v.  Correspondence + falsifier: tools/enc_engine.py."""
import enc_engine
import isa

GEN_UNITS = ['Encoders']
ASSUMPTIONS = ['operands reach the encoders as Python int / str (the arg type of the model)']


def explore(ctx):
    ctx.rule = ('per mnemonic: every immediate of the format range and beyond x 3 register patterns; register tuples x '
                'sample immediates; all register spellings per position; aq/rl and fence-set variants; plus the one-line '
                'text path. non-trivial = distinct (mnemonic, normalised legal operand tuple)')
    enc_engine.explore(ctx, list(isa.CSPEC), "C02")
    ctx.exhaustive = not ctx.quick()


def replay(ctx, rec):
    import harness
    asm = harness.real_asm()
    inp = rec['input']
    if 'source' in inp:
        try:
            b = bytes(asm.assemble(inp['source']))
            return b.hex() != rec['expected']
        except Exception:
            return True
    r = enc_engine.run_impl(asm, inp['name'], inp['ops'], inp.get('aq'), inp.get('rl'))
    if r[0] != 'ok':
        return False
    d = ctx.spec.batch([('d16 {}' if inp['name'].startswith('c.') else 'd32 {}').format(r[1])])[0]
    return d != rec['expected']


_explore_forward = explore


def explore(ctx):
    import harness, struct
    _explore_forward(ctx)
    # reverse direction: all 65 536 halfwords
    asm = harness.real_asm()
    if not ctx.spec.available():
        return
    hs = list(range(65536))
    dec = ctx.spec.batch(['d16 {}'.format(h) for h in hs])
    legal = 0
    for h, d in zip(hs, dec):
        ctx.evaluations += 1
        if d == 'none':
            continue
        legal += 1
        parts = d.split()
        name, ops = parts[0], [int(x) for x in parts[1:]]
        kinds = isa.CSPEC[name]
        toks = ['x%d' % v if isinstance(k, str) else str(v) for k, v in zip(kinds, ops)]
        line = (name + ' ' + ', '.join(toks)).strip()
        ctx.nontriv(('rev', h))
        try:
            b = bytes(asm.assemble(line))
        except Exception as e:
            ctx.cex('canonical text "{}" of legal halfword {:#06x} is refused: {}'.format(line, h, harness.exc_class(e)),
                    {'source': line, 'halfword': h}, harness.exc_class(e), struct.pack('<H', h).hex(),
                    {'kind': 'reverse-refused', 'name': name})
            continue
        if b != struct.pack('<H', h):
            ctx.cex('canonical text "{}" of halfword {:#06x} assembles to {}'.format(line, h, b.hex()),
                    {'source': line, 'halfword': h}, b.hex(), struct.pack('<H', h).hex(), {'kind': 'reverse-mismatch', 'name': name})
    ctx.count('halfwords', 65536)
    ctx.count('legal-halfwords', legal)
    if legal != 28461:
        ctx.notes.append('Spec decode16 accepts {} halfwords, expected 28461'.format(legal))
    ctx.exhaustive = True
