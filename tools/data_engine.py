"""Engine of C10 (data directives): generators, the Spec oracle (coq/Spec/Data.v + Spec/Utf8.v evaluated by coqc +
vm_compute), the independent Python oracles, the pipeline correspondence on data-heavy programs and the falsifier
that evaluates the property on the REAL assembler (integers of every width, every pack format, strings, include_bytes
from several working directories)."""
import os
import re
import shutil
import tempfile

import harness
import pipeline

SEQ = {'bytes': 1, 'shorts': 2, 'ints': 4, 'longs': 4, 'longlongs': 8}
SHORT = {'db': 1, 'dh': 2, 'dw': 4, 'dd': 8}
CODES = {'b': (1, True), 'B': (1, False), 'h': (2, True), 'H': (2, False), 'i': (4, True), 'I': (4, False),
         'l': (4, True), 'L': (4, False), 'q': (8, True), 'Q': (8, False)}
ORDERS = {'<': 'little', '>': 'big'}


# ------------------------------------------------------------------------------------------ independent oracles
def int_expected(w, v):
    """Documented meaning of a w-byte integer directive: bytes, or None = refused."""
    if -(1 << (8 * w - 1)) <= v < (1 << (8 * w)):
        return (v % (1 << (8 * w))).to_bytes(w, 'little')
    return None


def pack_expected(fmt, v):
    w, signed = CODES[fmt[1]]
    lo, hi = (-(1 << (8 * w - 1)), 1 << (8 * w - 1)) if signed else (0, 1 << (8 * w))
    if lo <= v < hi:
        return (v % (1 << (8 * w))).to_bytes(w, ORDERS[fmt[0]])
    return None


SIMPLE = {'\\': '\\', "'": "'", '"': '"', 'a': '\a', 'b': '\b', 'f': '\f', 'n': '\n', 'r': '\r', 't': '\t', 'v': '\v'}
HEX = '0123456789abcdefABCDEF'


def unescape(text):
    """Backslash-escape processing = the escape sequences of Python string literals, written independently of the codec
    the assembler uses (and NOT by calling asm.decode_escapes).  An unrecognised escape -- a backslash in front of any
    character that starts no escape sequence, e.g. \\q, \\8 or a backslash in front of a non-ASCII character -- is left in
    the string unchanged (language reference 2.4.1).  Returns the text, or None = not judged: malformed escape (trailing
    backslash, truncated \\x \\u \\U, \\U above 10ffff) or \\N{name} (see Spec/Escapes.v denote)."""
    out, i, n = [], 0, len(text)
    while i < n:
        c = text[i]
        if c != '\\':
            out.append(c); i += 1; continue
        if i + 1 >= n:
            return None
        e = text[i + 1]
        if e in SIMPLE:
            out.append(SIMPLE[e]); i += 2
        elif e in '01234567':
            j, v = i + 1, 0
            while j < n and j < i + 4 and text[j] in '01234567':
                v = v * 8 + int(text[j]); j += 1
            out.append(chr(v)); i = j
        elif e in 'xuU':
            k = {'x': 2, 'u': 4, 'U': 8}[e]
            h = text[i + 2:i + 2 + k]
            if len(h) != k or any(ch not in HEX for ch in h):
                return None
            v = int(h, 16)
            if v > 0x10ffff:
                return None
            out.append(chr(v)); i += 2 + k
        elif e == 'N':
            return None
        else:
            out.append('\\'); out.append(e); i += 2
    return ''.join(out)


def literal_value(text):
    """The text written as a Python string literal and evaluated by the interpreter itself (a third opinion on the escape
    semantics); None where the text cannot simply be put between quotes, is malformed, or holds a lone surrogate."""
    if '"' in text or '\n' in text or '\r' in text or '\\N' in text or len(text) - len(text.rstrip('\\')) & 1:
        return None
    import ast
    import warnings
    try:
        with warnings.catch_warnings():
            warnings.simplefilter('ignore')
            return ast.literal_eval('"' + text + '"').encode('utf-8')
    except (SyntaxError, ValueError, UnicodeEncodeError):
        return None


def string_expected(text):
    """bytes, or None = not judged (outside the documented escapes / not encodable)."""
    s = unescape(text)
    if s is None:
        return None
    try:
        return s.encode('utf-8')            # Python's own encoder is the oracle for the UTF-8 step
    except UnicodeEncodeError:
        return None


# ------------------------------------------------------------------------------------------ Spec oracle (Coq)
SPEC_HEADER = '''From Coq Require Import ZArith List String.
From BB Require Import Spec.Utf8 Spec.Data Spec.Escapes.
Import ListNotations.
Open Scope Z_scope.
Open Scope string_scope.
Set Printing Width 1000000.
Set Printing Depth 1000000.
'''


def zl(xs):
    return '[' + '; '.join(pipeline.cz(x) for x in xs) + ']'


def spec_eval(terms, shard=400, header=None, parse=None):
    """terms: Gallina terms of type option (list Z) / option (option (list Z)).  Returns the printed values
    parsed into None / bytes / ('some', None|bytes)."""
    if not terms:
        return []
    header = header or SPEC_HEADER
    parse = parse or parse_opt
    workdir = tempfile.mkdtemp(prefix='bbspecd')
    answers = []
    try:
        for s in range(0, len(terms), shard):
            part = terms[s:s + shard]
            text = header + ''.join('Eval vm_compute in ({}).\n'.format(t) for t in part)
            _, rc, out = pipeline._run_shard((s // shard, text, workdir))
            vals = re.findall(r'^\s*= (.*?)\n\s*: option', out, re.M | re.S)
            if rc != 0 or len(vals) != len(part):
                os.makedirs(os.path.join(pipeline.VERIF, 'build', 'logs'), exist_ok=True)
                with open(os.path.join(pipeline.VERIF, 'build', 'logs', 'spec_data_error.log'), 'w') as f:
                    f.write(out[-20000:])
                raise RuntimeError('Spec evaluation failed (rc={}, {} answers for {} terms)'.format(rc, len(vals), len(part)))
            answers += [parse(v) for v in vals]
        return answers
    finally:
        shutil.rmtree(workdir, ignore_errors=True)


def parse_opt(v):
    v = ' '.join(v.split())
    if v == 'None':
        return None
    m = re.match(r'^Some \((.*)\)$', v)
    if m:
        return ('some', parse_opt(m.group(1)))
    if v == 'Some None':
        return ('some', None)
    m = re.match(r'^Some \[(.*)\]$', v)
    if not m:
        raise RuntimeError('unparsable Spec answer: ' + v[:200])
    body = m.group(1).strip()
    return bytes(int(x) for x in body.split(';')) if body else b''


# ------------------------------------------------------------------------------------------ running the real code
def run_line(asm, src, **kw):
    """-> ('ok', bytes) | ('refused', exception class)"""
    try:
        return 'ok', bytes(asm.assemble(src, **kw))
    except Exception as e:
        return 'refused', harness.exc_class(e)


def boundary_values(w, rng, nrand):
    lo, smax, umax = -(1 << (8 * w - 1)), (1 << (8 * w - 1)) - 1, (1 << (8 * w)) - 1
    vals = [lo - 1, lo, lo + 1, -2, -1, 0, 1, 2, smax - 1, smax, smax + 1, umax - 1, umax, umax + 1, umax + 2,
            -(1 << (8 * w)), (1 << (8 * w + 1)), -(1 << 70), 1 << 70, 0x80, 0xff, 0x100, 0x8000, 0xffff, 0x10000,
            -0x81, -0x8001]
    if w == 1 and nrand >= 400:          # thorough: the whole neighbourhood of the one-byte range
        vals += list(range(-140, 270))
    for _ in range(nrand):
        k = rng.randrange(4)
        if k == 0:
            vals.append(rng.randrange(lo, umax + 1))
        elif k == 1:
            vals.append(rng.randrange(lo - 1000, lo + 1000))
        elif k == 2:
            vals.append(rng.randrange(umax - 1000, umax + 1000))
        else:
            vals.append(rng.randrange(-(1 << (8 * w + 3)), 1 << (8 * w + 3)))
    return list(dict.fromkeys(vals))


def spell(v, rng):
    k = rng.randrange(4)
    if k == 0:
        return str(v)
    if k == 1:
        return ('-' if v < 0 else '') + hex(abs(v))
    if k == 2:
        return ('-' if v < 0 else '') + bin(abs(v))
    return ('-' if v < 0 else '') + '0o{:o}'.format(abs(v))


# ------------------------------------------------------------------------------------------ integers / packs
def check_ints(ctx, asm):
    nrand = 40 if ctx.quick() else 1000
    cases = []       # (kind, source, expected, meta)
    for name, w in list(SHORT.items()) + list(SEQ.items()):
        for v in boundary_values(w, ctx.rng, nrand):
            forms = [('literal', '{} {}'.format(name, spell(v, ctx.rng)))]
            if name in SHORT:
                forms.append(('constant', 'V = {}\n{} V'.format(v, name)))
                forms.append(('expression', '{} {} + 1 - 1'.format(name, v) if v >= 0 else '{} 0 - {}'.format(name, -v)))
            for form, src in (forms if not ctx.quick() else forms[:1] + forms[1:][:ctx.rng.randrange(3)]):
                cases.append(('int', src, int_expected(w, v), {'directive': name, 'w': w, 'v': v, 'form': form}))
    # sequences with several elements: each element, in order
    for name, w in SEQ.items():
        for _ in range(20 if ctx.quick() else 200):
            vs = [ctx.rng.choice(boundary_values(w, ctx.rng, 2)) for _ in range(ctx.rng.randrange(2, 7))]
            if ctx.rng.random() < 0.6:      # mostly accepted lists
                vs = [v for v in vs if int_expected(w, v) is not None] or [0]
            exp = None if any(int_expected(w, v) is None for v in vs) else b''.join(int_expected(w, v) for v in vs)
            sep = ctx.rng.choice([' ', ', ', ','])
            cases.append(('seq', name + ' ' + sep.join(spell(v, ctx.rng) for v in vs), exp,
                          {'directive': name, 'w': w, 'vs': vs}))
    for order in ORDERS:
        for code, (w, signed) in CODES.items():
            for v in boundary_values(w, ctx.rng, nrand // 2):
                fmt = order + code
                src = ctx.rng.choice(['pack {} {}', 'pack {}, {}']).format(fmt, spell(v, ctx.rng))
                cases.append(('pack', src, pack_expected(fmt, v), {'fmt': fmt, 'w': w, 'v': v}))
    # Spec oracle for the same cases
    terms = []
    for kind, src, exp, meta in cases:
        if kind == 'int':
            terms.append('data_int {} {}'.format(meta['w'], pipeline.cz(meta['v'])))
        elif kind == 'seq':
            terms.append('(fix go (l : list Z) : option (list Z) := match l with [] => Some [] | v :: r => '
                         'match data_int {w} v, go r with Some a, Some b => Some (a ++ b)%list | _, _ => None end end) {vs}'
                         .format(w=meta['w'], vs=zl(meta['vs'])))
        else:
            terms.append('data_pack "{}" {}'.format(meta['fmt'], pipeline.cz(meta['v'])))
    spec = spec_eval(terms)
    for (kind, src, exp, meta), sp in zip(cases, spec):
        if kind == 'pack':
            if sp is None:
                ctx.corr('Spec.Data.data_pack does not know format', meta, None, None)
                continue
            sp = sp[1]
        if sp != exp:
            ctx.corr('Spec.Data vs the Python oracle (' + kind + ')', meta, exp.hex() if exp is not None else None,
                     sp.hex() if sp is not None else None)
            continue
        ctx.evaluations += 1
        ctx.count(kind + ('-accepted' if exp is not None else '-refused'))
        st, got = run_line(asm, src)
        key = (kind, meta.get('directive') or meta.get('fmt'),
               'in' if exp is not None else 'out', meta.get('v', 0) < 0 if 'v' in meta else None)
        ctx.nontriv((key, meta.get('v') if 'v' in meta else tuple(meta['vs'])))
        inp = dict(meta, kind=kind, source=src)
        if exp is None and st == 'ok':
            ctx.cex('{!r} is accepted although the value does not fit; emits {}'.format(src, got.hex()), inp, got.hex(),
                    'refused', {'kind': kind + '-truncated', 'directive': meta.get('directive') or meta.get('fmt')})
        elif exp is not None and st != 'ok':
            ctx.cex('{!r} is refused ({}) although the value fits'.format(src, got), inp, got, exp.hex(),
                    {'kind': kind + '-refused', 'directive': meta.get('directive') or meta.get('fmt')})
        elif exp is not None and got != exp:
            ctx.cex('{!r} emits {} instead of {}'.format(src, got.hex(), exp.hex()), inp, got.hex(), exp.hex(),
                    {'kind': kind + '-bytes', 'directive': meta.get('directive') or meta.get('fmt')})
        elif exp is not None:
            # the size used for the label table must be the emitted length
            src2 = src + '\nend:\ndw end'
            st2, got2 = run_line(asm, src2)
            if st2 != 'ok' or got2[-4:] != len(exp).to_bytes(4, 'little'):
                ctx.cex('label after {!r} is not at {}'.format(src, len(exp)), dict(inp, source=src2),
                        got2.hex() if st2 == 'ok' else got2, len(exp), {'kind': kind + '-size',
                                                                       'directive': meta.get('directive') or meta.get('fmt')})
    ctx.sample({'source': cases[3][1], 'expected': cases[3][2].hex() if cases[3][2] is not None else 'refused'})


# ------------------------------------------------------------------------------------------ strings
LINE_BREAKS = set('\n\r\x0b\x0c\x1c\x1d\x1e\x85\u2028\u2029')
ESCAPES = ['\\\\', "\\'", '\\"', '\\a', '\\b', '\\f', '\\n', '\\r', '\\t', '\\v', '\\0', '\\7', '\\12', '\\101', '\\377',
           '\\18', '\\x41', '\\x7f', '\\x80', '\\xe9', '\\xff', '\\u0041', '\\u00e9', '\\u20ac', '\\uffff', '\\U0001f600',
           '\\U0010ffff', '\\U00000041', '\\\\n', '\\x4a\\x4B']
ASCII = [chr(c) for c in range(32, 127) if chr(c) != '\\']
# unrecognised escapes: the backslash stays (D27: in front of a character above U+00FF the Latin-1 detour of decode_escapes lost it)
WIDE = ['\u20ac', '\U0001f600', '\u0100', '\u4e2d', '\uffff', '\U0010ffff']
UNKNOWN = (['\\' + w for w in WIDE] + ['a\\\\' + w for w in WIDE[:2]] + ['\\\\\\' + w for w in WIDE[:2]] +
           ['\\q', '\\8', '\\9', '\\ ', '\\z\\Z', '\\\xe9', '\\\xff', 'a\\\xe9b',
            '\\n\\\u20ac\\x41', '\\\u20ac\\u20ac', '\\u20ac\\\u20ac', '\xe9\\\u0100', '\\101\\\U0001f600\\0', '\\\u20ac\\\u20ac',
            '\\t\\q\\\u4e2d\\\\'])


def rnd_char(rng, cls):
    while True:
        if cls == 'ascii':
            return rng.choice(ASCII)
        if cls == 'latin1':
            c = chr(rng.randrange(0xa0, 0x100))
        elif cls == 'bmp':
            c = chr(rng.choice([rng.randrange(0x100, 0x800), rng.randrange(0x800, 0xd800), rng.randrange(0xe000, 0x10000)]))
        else:
            c = chr(rng.randrange(0x10000, 0x110000))
        if c not in LINE_BREAKS:
            return c


def string_texts(ctx):
    rng = ctx.rng
    n = 40 if ctx.quick() else 1200
    texts = []
    add = lambda cls, t: texts.append((cls, t))
    for t in ['hello', '"world"', '"hello world"', 'hello  ##  world', 'hello\\nworld', '  hello\\\\nworld', '', ' ', 'a,b (c) # d',
              "it's", 'x' * 300, 'tab\\there', 'trailing space ']:
        add('ascii' if '\\' not in t else 'escape', t)
    for e in ESCAPES:
        add('escape', e); add('escape', 'a' + e + 'b'); add('escape', e + e)
    for _ in range(n):
        add('ascii', ''.join(rnd_char(rng, 'ascii') for _ in range(rng.randrange(1, 40))))
        add('escape', ''.join(rng.choice([rng.choice(ESCAPES), rnd_char(rng, 'ascii')]) for _ in range(rng.randrange(1, 12))))
    for t in ['é', 'café', '¡ÿ', 'naïve über', 'µs']:
        add('latin1', t)
    for t in ['€', 'Ā', '߿ࠀ', '￿', '中文', 'αβγ', '퟿']:
        add('bmp', t)
    for t in ['\U0001f600', '\U00010000', '\U0010ffff', 'a\U0001f40db']:
        add('astral', t)
    for cls in ('latin1', 'bmp', 'astral'):
        for _ in range(n):
            add(cls, ''.join(rnd_char(rng, rng.choice([cls, 'ascii'])) for _ in range(rng.randrange(1, 16))))
    for t in UNKNOWN:
        add('unknown-escape', t); add('unknown-escape', 'x' + t + 'y')
    for _ in range(n):
        add('unknown-escape', ''.join(rng.choice([rng.choice(ESCAPES), '\\' + rnd_char(rng, rng.choice(['bmp', 'astral', 'latin1'])),
                                                  '\\' + rng.choice('qzZ89 ,#'), rnd_char(rng, rng.choice(['ascii', 'bmp']))])
                                      for _ in range(rng.randrange(1, 8))))
    for _ in range(n):
        add('mixed', ''.join(rng.choice([rng.choice(ESCAPES), rnd_char(rng, rng.choice(['ascii', 'latin1', 'bmp', 'astral']))])
                             for _ in range(rng.randrange(2, 14))))
    # make sure the non-ASCII classes really are non-ASCII
    return [(c, t) for c, t in dict.fromkeys(texts) if c in ('ascii', 'escape', 'mixed', 'unknown-escape') or not t.isascii()]


def check_strings(ctx, asm):
    texts = string_texts(ctx)
    exps = [string_expected(t) for _, t in texts]
    spec = spec_eval(['Escapes.string_bytes {}'.format(zl([ord(c) for c in t])) for _, t in texts])
    for (cls, t), exp, sp in zip(texts, exps, spec):
        if sp != exp:
            ctx.corr('Spec.Escapes.string_bytes vs the Python oracle', {'text': t}, exp.hex() if exp is not None else None,
                     sp.hex() if sp is not None else None)
            continue
        lit = literal_value(t)
        if lit is not None and exp is not None and lit != exp:
            ctx.corr('the Python oracle vs the value of the string LITERAL', {'text': t}, lit.hex(), exp.hex())
            continue
        if exp is None:
            ctx.count('string-not-judged')
            continue
        ctx.evaluations += 1
        ctx.count('string-' + cls)
        ctx.nontriv(('string', t))
        indent = ctx.rng.choice(['', '', '  ', '\t'])
        src = indent + 'string ' + t
        st, got = run_line(asm, src)
        inp = {'kind': 'string', 'source': src, 'text': t, 'class': cls}
        widest = max([ord(c) for c in t] + [0])
        m = {'kind': 'string', 'class': 'ascii' if widest < 128 else 'non-ascii'}
        if re.search(r'(?<!\\)(?:\\\\)*\\[^\x00-\xff]', t):
            m['cause'] = 'backslash-before-non-latin1'
        if st != 'ok':
            ctx.cex('{!r} is refused ({})'.format(src, got), inp, got, exp.hex(), m)
        elif got != exp:
            ctx.cex('{!r} emits {} instead of the UTF-8 bytes {}'.format(src, got.hex(), exp.hex()), inp, got.hex(), exp.hex(), m)
        else:
            # the size used for the label table must be the emitted length
            st2, got2 = run_line(asm, src + '\nend:\ndw end')
            if st2 != 'ok' or got2[-4:] != len(exp).to_bytes(4, 'little'):
                ctx.cex('label after {!r} is not at {}'.format(src, len(exp)), dict(inp, source=src + '\nend:\ndw end'),
                        got2.hex() if st2 == 'ok' else got2, len(exp), {'kind': 'string-size'})
    ctx.sample({'source': 'string café \\u20ac', 'expected': string_expected('café \\u20ac').hex()})


# ------------------------------------------------------------------------------------------ decode_escapes: model vs code
# The lexer model (Model/Lexer.v) covers ASCII text with the one-character escapes only.  Proofs/StringUnicode.v models the
# whole expression of asm.decode_escapes on arbitrary text (decode_escapes_x = denote . blr . dbl, on code points) and
# C10_string_detour_transparent / C10_string_escapes_unicode are ABOUT that model: this is its tie to the code.
XHEADER = '''From Coq Require Import ZArith List String.
From BB Require Import Spec.Escapes Proofs.StringUnicode.
Import ListNotations.
Open Scope Z_scope.
Set Printing Width 1000000.
Set Printing Depth 1000000.
'''
MALFORMED = ['\\', 'a\\', '\\\\\\', '\\x', '\\x4', '\\x4g', '\\xg1', '\\u', '\\u12', '\\u123', '\\u123g', '\\U', '\\U0001f60', '\\U00110000',
             '\\Uffffffff', '\\x4\u20ac', '\\u20a\u20ac', '\\x\\\u20ac', '\\U0001F60\U0001f600', 'ok\\n\\x', '\xe9\\', '\u20ac\\', '\\\u20ac\\']
XALPHA = ['\\', '\\', '\\', 'n', 't', 'x', 'u', 'U', '0', '1', '7', '8', '9', 'a', 'f', 'A', 'F', 'g', 'q', ' ', '"', "'", '\xe9', '\xff',
          '\u0100', '\u20ac', '\U0001f600', '\x7f', '{', '}', '2', 'c', '\ud800', '\r', '\x00', '\x85', '\uffff', '\U0010ffff']
# no line feed: a line never holds one (read_lines splits there), so backslash-newline, which the codec ignores, is not part of
# Spec/Escapes.v denote


def parse_cps(v):
    v = ' '.join(v.split())
    if v == 'None':
        return None
    m = re.match(r'^Some \[(.*)\]$', v)
    if not m:
        raise RuntimeError('unparsable model answer: ' + v[:200])
    body = m.group(1).strip()
    return [int(x) for x in body.split(';')] if body else []


def escape_texts(ctx):
    rng = ctx.rng
    n = 260 if ctx.quick() else 4000
    texts = ['', 'hello', 'a,b (c) # d', 'caf\xe9 \u20ac \U0001f600', '\ud800', 'x\udfffy']
    for e in ESCAPES + UNKNOWN + MALFORMED:
        texts += [e, 'a' + e + 'b', e + e, '\xe9' + e + '\u20ac']
    for _ in range(n):
        texts.append(''.join(rng.choice(XALPHA) for _ in range(rng.randrange(0, 12))))
    for _ in range(n // 4):
        texts.append(''.join(rng.choice([rng.choice(ESCAPES), rng.choice(UNKNOWN), rnd_char(rng, rng.choice(['ascii', 'latin1', 'bmp', 'astral']))])
                             for _ in range(rng.randrange(1, 8))))
    return [t for t in dict.fromkeys(texts) if '\\N' not in t]          # \N{name}: outside the model


def real_decode(asm, t):
    try:
        return [ord(c) for c in asm.decode_escapes(t)]
    except UnicodeDecodeError:
        return None


def check_decode_escapes(ctx, asm):
    if not hasattr(asm, 'decode_escapes'):
        ctx.unsupported += 1
        return
    texts = escape_texts(ctx)
    model = spec_eval(['decode_escapes_x {}'.format(zl([ord(c) for c in t])) for t in texts], header=XHEADER, parse=parse_cps)
    ctx.count('decode-escapes-texts', len(texts))
    for t, mo in zip(texts, model):
        re_ = real_decode(asm, t)
        ctx.count('decode-escapes-' + ('malformed' if re_ is None else 'ok'))
        if re_ != mo:
            ctx.corr('Proofs.StringUnicode.decode_escapes_x', {'text': t, 'codes': [ord(c) for c in t]}, re_, mo)
        else:
            ctx.traces_validated += 1
    ctx.sample({'text': '\\\u20ac\\x41', 'decode_escapes': real_decode(asm, '\\\u20ac\\x41')})


# ------------------------------------------------------------------------------------------ include_bytes
def make_tree(root, files):
    for rel, data in files.items():
        p = os.path.join(root, rel)
        os.makedirs(os.path.dirname(p), exist_ok=True)
        with open(p, 'wb') as f:
            f.write(data if isinstance(data, bytes) else data.encode('utf-8'))


def search_expected(root, files, src_rel, incdirs):
    """Independent reading of the documented search: for each include_bytes line of the program (following
    includes), the -i directories in order, then the directory of the including file.  Returns the expected
    output bytes (only include_bytes / string / db lines are used in these programs) or None if a file is missing."""
    out = bytearray()

    def find(name, here):
        for d in list(incdirs) + [here]:
            rel = os.path.normpath(os.path.join(d, name))
            if rel in files:
                return rel
        return None

    def walk(rel):
        here = os.path.dirname(rel)
        for line in files[rel].decode('utf-8').splitlines():
            t = line.split('#')[0].split()
            if not t:
                continue
            if t[0] == 'include':
                f = find(t[1], here)
                if f is None:
                    return False
                if not walk(f):
                    return False
            elif t[0] == 'include_bytes':
                f = find(t[1], here)
                if f is None:
                    return False
                out.extend(files[f])
            elif t[0] == 'db':
                out.extend(int_expected(1, int(t[1], 0)))
            else:
                raise ValueError('generator produced an unexpected line: ' + line)
        return True
    return bytes(out) if walk(src_rel) else None


def inc_scenarios(ctx):
    rng = ctx.rng
    # random bytes, always containing the sequences a text-mode or decoding read would alter
    blob = lambda n: (bytes(rng.randrange(256) for _ in range(n)) + b'\r\n\x1a\x00\xff\xc3\xa9\n')[-n:] if n else b''
    sc = []
    # 1. file beside the source
    sc.append(('beside', {'proj/main.asm': 'db 1\ninclude_bytes data.bin\ndb 2\n', 'proj/data.bin': blob(7)}, 'proj/main.asm', []))
    # 2. file in a sub-directory, named with the sub-directory
    sc.append(('subdir-path', {'proj/main.asm': 'include_bytes assets/img.bin\ndb 3\n', 'proj/assets/img.bin': blob(5)}, 'proj/main.asm', []))
    # 3. included source in a sub-directory pulls a file that sits beside IT
    sc.append(('subdir-include', {'proj/main.asm': 'db 4\ninclude lib/part.asm\ndb 5\n', 'proj/lib/part.asm': 'include_bytes part.bin\n',
                                  'proj/lib/part.bin': blob(9)}, 'proj/main.asm', []))
    # 4. file found through a -i directory
    sc.append(('incdir', {'proj/main.asm': 'include_bytes common.bin\n', 'shared/common.bin': blob(6)}, 'proj/main.asm', ['shared']))
    # 5. two -i directories, the first one wins; the directory of the source comes last
    sc.append(('incdir-order', {'proj/main.asm': 'include_bytes x.bin\ndb 6\n', 'inc1/x.bin': blob(4), 'inc2/x.bin': blob(4),
                                'proj/x.bin': blob(4)}, 'proj/main.asm', ['inc1', 'inc2']))
    # 6. same name and same size in another working directory: the bytes must still be those of the file found
    sc.append(('decoy-same-size', {'proj/main.asm': 'include_bytes d.bin\n', 'proj/d.bin': b'GOOD' + blob(4), 'other/d.bin': b'EVIL' + blob(4),
                                   'd.bin': b'ROOT' + blob(4)}, 'proj/main.asm', []))
    # 7. empty file and a larger one
    sc.append(('sizes', {'proj/main.asm': 'include_bytes e.bin\ninclude_bytes big.bin\ndb 7\n', 'proj/e.bin': b'', 'proj/big.bin': bytes(range(256)) * 8 + blob(952)},
               'proj/main.asm', []))
    if not ctx.quick():
        for k in range(40):
            n = rng.randrange(0, 64)
            where = rng.choice(['proj', 'proj/sub', 'inc'])
            files = {'proj/main.asm': 'db {}\ninclude_bytes {}\n'.format(k, 'sub/r.bin' if where == 'proj/sub' else 'r.bin'),
                     where + '/r.bin': blob(n)}
            sc.append(('random-' + where, files, 'proj/main.asm', ['inc'] if where == 'inc' else []))
    return sc


CWDS = ['proj', '.', 'other']       # the source's directory, the tree root, an unrelated directory


def run_inc(asm, root, files, src_rel, incdirs, cwd_rel, absolute):
    """Assembles the program of a scenario from the working directory cwd_rel; paths are given the way a user in
    that directory would type them (relative to it) or absolute."""
    old = os.getcwd()
    cwd = os.path.join(root, cwd_rel)
    os.makedirs(cwd, exist_ok=True)
    os.chdir(cwd)
    try:
        conv = (lambda p: os.path.join(root, p)) if absolute else (lambda p: os.path.relpath(os.path.join(root, p), cwd))
        return run_line(asm, conv(src_rel), include_dirs=[conv(d) for d in incdirs])
    finally:
        os.chdir(old)


def check_include_bytes(ctx, asm):
    root = tempfile.mkdtemp(prefix='bbinc')
    try:
        for k, (name, files, src_rel, incdirs) in enumerate(inc_scenarios(ctx)):
            files = {p: (d if isinstance(d, bytes) else d.encode('utf-8')) for p, d in files.items()}
            sroot = os.path.join(root, 's%d' % k)
            make_tree(sroot, files)
            exp = search_expected(sroot, files, src_rel, incdirs)
            for cwd_rel in CWDS:
                for absolute in (False, True):
                    ctx.evaluations += 1
                    ctx.count('incbytes-' + name.split('-')[0])
                    ctx.nontriv(('inc', name, cwd_rel, absolute))
                    st, got = run_inc(asm, sroot, files, src_rel, incdirs, cwd_rel, absolute)
                    inp = {'kind': 'incbytes', 'scenario': name, 'files': {p: d.hex() for p, d in files.items()}, 'source_path': src_rel,
                           'include_dirs': incdirs, 'cwd': cwd_rel, 'absolute_paths': absolute}
                    m = {'kind': 'include-bytes', 'cwd': 'source-dir' if cwd_rel == 'proj' else 'elsewhere'}
                    if exp is None:
                        continue
                    if st != 'ok':
                        ctx.cex('include_bytes scenario {} run from {}/ is refused ({}) although the include search found every file'
                                .format(name, cwd_rel, got), inp, got, exp.hex()[:200], m)
                    elif got != exp:
                        ctx.cex('include_bytes scenario {} run from {}/ emits other bytes than the file the search found'
                                .format(name, cwd_rel), inp, got.hex()[:200], exp.hex()[:200], m)
        # ONE non-empty include_dirs list handed to several calls, and a nested include from another directory: the file embedded
        # is the one NEXT TO THE FILE THAT HOLDS THE DIRECTIVE (after the -i directories), never one lying next to a file read earlier
        sroot = os.path.join(root, 'shared')
        files = {'inc/unrelated.bin': b'U', 'a/main.asm': b'include_bytes blob.bin\n', 'a/blob.bin': b'AAAA',
                 'b/main.asm': b'db 9\ninclude_bytes blob.bin\n', 'b/blob.bin': b'BB',
                 'c/main.asm': b'db 7\ninclude sub/part.asm\n', 'c/blob.bin': b'WRONG', 'c/sub/part.asm': b'include_bytes blob.bin\n',
                 'c/sub/blob.bin': b'RIGHT'}
        make_tree(sroot, files)
        shared = [os.path.join(sroot, 'inc')]
        for prog, want in (('a', b'AAAA'), ('b', b'\x09BB'), ('c', b'\x07RIGHT'), ('b', b'\x09BB'), ('a', b'AAAA')):
            ctx.evaluations += 1
            ctx.count('incbytes-shared-list')
            st, got = run_line(asm, os.path.join(sroot, prog, 'main.asm'), include_dirs=shared)
            inp = {'kind': 'incbytes-shared', 'files': {k: v.hex() for k, v in files.items()}, 'program': prog}
            if (st, got) != ('ok', want):
                ctx.cex('include_bytes of {}/main.asm with a search-path list shared by several calls emits {} instead of the file next to the including file ({})'.format(
                    prog, got.hex() if st == 'ok' else got, want.hex()), inp, got.hex() if st == 'ok' else got, want.hex(),
                    {'kind': 'include-bytes', 'cwd': 'shared-list'})
                break
        if shared != [os.path.join(sroot, 'inc')]:
            ctx.cex('assemble() changed the include_dirs list of its caller', {'kind': 'incbytes-shared', 'files': {}, 'program': 'list'},
                    [d.replace(sroot, '<root>') for d in shared], 'unchanged', {'kind': 'caller-list-changed'})
        # the embedded file is read when the program is assembled: rewritten between two calls of ONE process (same
        # length, other contents; also another length), every call must embed what is on disk at that moment
        sroot = os.path.join(root, 'gen')
        make_tree(sroot, {'proj/main.asm': b'db 0x11\ninclude_bytes table.bin\ndb 0x22\n', 'proj/table.bin': b'\x00' * 8,
                          'inc/logo.dat': b'ABCD'})
        gens = [bytes(range(8)), bytes(range(16, 24)), b'\xff' * 8, bytes(range(5)), bytes(range(8))]
        for g, content in enumerate(gens):
            with open(os.path.join(sroot, 'proj', 'table.bin'), 'wb') as f:
                f.write(content)
            ctx.evaluations += 1
            st, got = run_inc(asm, sroot, {}, 'proj/main.asm', [], 'proj', True)
            exp = b'\x11' + content + b'\x22'
            if st != 'ok' or got != exp:
                ctx.cex('include_bytes after the file was rewritten (generation {}): emits {} but the file holds {}'.format(
                    g, got if st != 'ok' else got.hex(), exp.hex()),
                    {'kind': 'incbytes-rewrite', 'generations': [x.hex() for x in gens[:g + 1]]}, got if st != 'ok' else got.hex(), exp.hex(),
                    {'kind': 'include-bytes', 'cwd': 'rewritten-between-calls'})
        for g, content in enumerate([b'ABCD', b'WXYZ', b'ABCD']):
            with open(os.path.join(sroot, 'inc', 'logo.dat'), 'wb') as f:
                f.write(content)
            old = os.getcwd()
            os.chdir(os.path.join(sroot, 'proj'))
            try:
                ctx.evaluations += 1
                st, got = run_line(asm, 'include_bytes logo.dat\n', include_dirs=[os.path.join(sroot, 'inc')])
            finally:
                os.chdir(old)
            if st != 'ok' or got != content:
                ctx.cex('include_bytes via -i after the file was rewritten (generation {}): emits {} but the file holds {}'.format(
                    g, got if st != 'ok' else got.hex(), content.hex()),
                    {'kind': 'incbytes-rewrite', 'generations': ['41424344', '5758595a'][:g + 1]}, got if st != 'ok' else got.hex(), content.hex(),
                    {'kind': 'include-bytes', 'cwd': 'rewritten-between-calls'})
        # source given as a string: the search uses the working directory
        sroot = os.path.join(root, 'str')
        files = {'here/s.bin': b'\x01\x02\x03', 'inc/t.bin': b'\x09\x08'}
        make_tree(sroot, files)
        old = os.getcwd()
        os.chdir(os.path.join(sroot, 'here'))
        try:
            for src, kw, exp in [('include_bytes s.bin\n', {}, b'\x01\x02\x03'),
                                 ('db 1\ninclude_bytes t.bin\n', {'include_dirs': [os.path.join('..', 'inc')]}, b'\x01\x09\x08')]:
                ctx.evaluations += 1
                st, got = run_line(asm, src, **kw)
                if st != 'ok' or got != exp:
                    ctx.cex('string source {!r} from here/: {}'.format(src, got if st != 'ok' else got.hex()),
                            {'kind': 'incbytes-string', 'source': src, 'files': {p: d.hex() for p, d in files.items()}, 'cwd': 'here',
                             'include_dirs': kw.get('include_dirs', [])},
                            got if st != 'ok' else got.hex(), exp.hex(), {'kind': 'include-bytes', 'cwd': 'string-source'})
        finally:
            os.chdir(old)
    finally:
        shutil.rmtree(root, ignore_errors=True)


def replay_incbytes(asm, inp):
    root = tempfile.mkdtemp(prefix='bbincr')
    try:
        if inp['kind'] == 'incbytes-rewrite':
            make_tree(root, {'proj/main.asm': b'db 0x11\ninclude_bytes table.bin\ndb 0x22\n', 'proj/table.bin': b''})
            st, got, exp = 'ok', b'', b''
            for gx in inp['generations']:
                content = bytes.fromhex(gx)
                with open(os.path.join(root, 'proj', 'table.bin'), 'wb') as f:
                    f.write(content)
                st, got = run_inc(asm, root, {}, 'proj/main.asm', [], 'proj', True)
                exp = b'\x11' + content + b'\x22'
            return st, got, exp
        files = {p: bytes.fromhex(d) for p, d in inp['files'].items()}
        make_tree(root, files)
        if inp['kind'] == 'incbytes-string':
            old = os.getcwd()
            os.chdir(os.path.join(root, inp['cwd']))
            try:
                st, got = run_line(asm, inp['source'], include_dirs=inp.get('include_dirs') or None)
            finally:
                os.chdir(old)
            return st, got, None
        exp = search_expected(root, files, inp['source_path'], inp['include_dirs'])
        st, got = run_inc(asm, root, files, inp['source_path'], inp['include_dirs'], inp['cwd'], inp['absolute_paths'])
        return st, got, exp
    finally:
        shutil.rmtree(root, ignore_errors=True)


# ------------------------------------------------------------------------------------------ correspondence
def data_program(rng, k):
    """A data-heavy program: every directive, labels between them, references to the labels (sizes matter)."""
    lines = []
    nlab = 0
    for _ in range(rng.randrange(4, 14)):
        c = rng.randrange(12)
        if c == 0:
            w = rng.choice(list(SHORT)); v = rng.choice(boundary_values(SHORT[w], rng, 2))
            if rng.random() < 0.95 and int_expected(SHORT[w], v) is None:
                v = -1
            lines.append('{} {}'.format(w, spell(v, rng)))
        elif c == 1:
            w = rng.choice(list(SEQ))
            vs = [rng.choice(boundary_values(SEQ[w], rng, 1)) for _ in range(rng.randrange(1, 6))]
            if rng.random() < 0.95:
                vs = [v for v in vs if int_expected(SEQ[w], v) is not None] or [1]
            lines.append(w + ' ' + ' '.join(spell(v, rng) for v in vs))
        elif c == 2:
            code = rng.choice(list(CODES)); o = rng.choice(['<', '>', '<', '>', '=', '!', '@', ''])
            v = rng.choice(boundary_values(CODES[code][0], rng, 1))
            if rng.random() < 0.95 and ((o in ORDERS and pack_expected(o + code, v) is None) or (o not in ORDERS and not 0 <= v < 128)):
                v = 1
            lines.append('pack {}{} {}'.format(o, code, v))
        elif c == 3:
            lines.append('string ' + rng.choice(['hello', 'a\\tb\\n', 'café', '€ 5', '\U0001f600', '"q" # no comment', '\\x41\\u00e9', 'x' * 70]))
        elif c == 4:
            lines.append('L{}:'.format(nlab)); nlab += 1
        elif c == 5 and nlab:
            lines.append('{} L{}'.format(rng.choice(['dw', 'dd', 'pack <I', 'pack >H', 'dh']), rng.randrange(nlab)))
        elif c == 6:
            lines.append('align {}'.format(rng.choice([2, 4, 8, 16])))
        elif c == 7:
            lines.append(rng.choice(['addi x8, x8, 1', 'nop', 'li t0, 0x12345', 'ret']))
        elif c == 8:
            lines.append('dw %position(L{}, 0x8000)'.format(rng.randrange(nlab)) if nlab else 'dw 0x20000000')
        elif c == 9:
            lines.append('C{} = {}\ndb C{} & 0xff'.format(k, rng.randrange(1 << 16), k))
        elif c == 10:
            lines.append('include_bytes blob{}.bin'.format(rng.randrange(3)))
        else:
            lines.append(rng.choice(['bytes 1 2 0x03 0b100 5 0x06 0b111 8', 'bytes -1 0xff', 'shorts 0x1234 0x5678', 'ints  1 2 3 4',
                                     'longs 1 2 3 4', 'pack <h, -1234', 'db -1', 'dd 0x2000000000000000', 'bytes 1 x', 'db foo',
                                     'longlongs -9223372036854775808 18446744073709551615']))
    lines.append('end:')
    lines.append('dw end')
    return '\n'.join(lines)


def correspondence(ctx, asm):
    n = 140 if ctx.quick() else 900
    root = tempfile.mkdtemp(prefix='bbcorr')
    old = os.getcwd()
    try:
        make_tree(root, {'blob0.bin': b'', 'blob1.bin': bytes(range(7)), 'blob2.bin': b'\xff' * 33})
        os.chdir(root)      # include_bytes in a string source is looked up in (and opened from) the working directory
        progs = []
        for k in range(n):
            src = data_program(ctx.rng, k)
            progs.append({'source': src, 'compress': bool(k % 2), 'cwd': root})
        ctx.count('correspondence-programs', len(progs))
        reals = pipeline.correspond(ctx, asm, progs)
        for r in reals:
            ctx.count('corr-' + r['status'])
        if progs:
            ctx.sample({'source': progs[0]['source'][:300], 'result': pipeline.brief(reals[0])})
    finally:
        os.chdir(old)
        shutil.rmtree(root, ignore_errors=True)


# ------------------------------------------------------------------------------------------ entry points
def explore(ctx):
    asm = harness.real_asm()
    correspondence(ctx, asm)
    check_ints(ctx, asm)
    check_strings(ctx, asm)
    check_decode_escapes(ctx, asm)
    check_include_bytes(ctx, asm)


def replay(ctx, rec):
    asm = harness.real_asm()
    inp = rec['input']
    kind = inp.get('kind')
    if kind == 'incbytes-shared':
        root = tempfile.mkdtemp(prefix='bbincs')
        try:
            files = {p: bytes.fromhex(d) for p, d in inp['files'].items()}
            if not files:
                return False
            make_tree(root, files)
            shared = [os.path.join(root, 'inc')]
            bad = False
            for prog, want in (('a', b'AAAA'), ('b', b'\x09BB'), ('c', b'\x07RIGHT'), ('b', b'\x09BB'), ('a', b'AAAA')):
                if run_line(asm, os.path.join(root, prog, 'main.asm'), include_dirs=shared) != ('ok', want):
                    bad = True
            return bad or shared != [os.path.join(root, 'inc')]
        finally:
            shutil.rmtree(root, ignore_errors=True)
    if kind in ('incbytes', 'incbytes-string'):
        st, got, exp = replay_incbytes(asm, inp)
        if kind == 'incbytes-string':
            return st != 'ok' or got.hex() != rec['expected']
        return exp is not None and (st != 'ok' or got != exp)
    st, got = run_line(asm, inp['source'])
    sized = inp['source'].endswith('\nend:\ndw end')
    if kind == 'string':
        exp = string_expected(inp['text'])
    elif kind == 'int':
        exp = int_expected(inp['w'], inp['v'])
    elif kind == 'seq':
        exp = None if any(int_expected(inp['w'], v) is None for v in inp['vs']) else b''.join(int_expected(inp['w'], v) for v in inp['vs'])
    elif kind == 'pack':
        exp = pack_expected(inp['fmt'], inp['v'])
    else:
        return True
    if exp is None:
        return st == 'ok'
    if sized:
        return st != 'ok' or got != exp + len(exp).to_bytes(4, 'little')
    return st != 'ok' or got != exp
