(* text <-> extracted DfuSe device types; shared by bbdfudev (Spec only) and bbdfu (host model) *)
module String = Stdlib.String
module List = Stdlib.List
open Zconv
open DfuDev

let zs = string_of_z
let zi = z_of_int

let bytes_of_hex (h : string) : BinNums.coq_Z list =
  if h = "-" then []
  else begin
    let n = String.length h / 2 in
    let acc = ref [] in
    for i = n - 1 downto 0 do
      acc := zi (int_of_string ("0x" ^ String.sub h (2 * i) 2)) :: !acc
    done;
    !acc
  end

let hex_of_bytes (l : BinNums.coq_Z list) : string =
  if l = [] then "-" else String.concat "" (List.map (fun z -> Printf.sprintf "%02x" ((int_of_z z) land 255)) l)

(* initial flash contents: a position-dependent pattern (mirrored in tools/dfu_engine.py flash0) *)
let flash0 (a : BinNums.coq_Z) : BinNums.coq_Z =
  let x = int_of_z a in zi ((((x * 7) + 13) lxor (x lsr 8)) land 255)

(* schedule: entries separated by '|', each "t1,t2,../fin/err" ; "-" = empty *)
let parse_entry (s : string) : sentry =
  match String.split_on_char '/' s with
  | [b; f; e] ->
      let busy = if b = "" then [] else List.map z_of_string (String.split_on_char ',' b) in
      { s_busy = busy; s_fin = z_of_string f; s_err = z_of_string e }
  | _ -> failwith ("bad schedule entry: " ^ s)

let parse_sched (s : string) : sentry list =
  if s = "-" then [] else List.map parse_entry (String.split_on_char '|' s)

let parse_init (s : string) : dstate =
  if s = "idle" then Idle
  else match String.split_on_char ':' s with
    | ["error"; n] -> Error (z_of_string n)
    | _ -> failwith ("bad initial state: " ^ s)

let make_dev (size : string) (init : string) (sched : string) : dev =
  init_dev (z_of_string size) flash0 (parse_sched sched) (parse_init init)

let parse_req (ws : string list) : request =
  match ws with
  | [bm; breq; wv; wi; "out"; h] ->
      { r_bm = z_of_string bm; r_breq = z_of_string breq; r_wvalue = z_of_string wv; r_windex = z_of_string wi;
        r_pay = POut (bytes_of_hex h) }
  | [bm; breq; wv; wi; "in"; n] ->
      { r_bm = z_of_string bm; r_breq = z_of_string breq; r_wvalue = z_of_string wv; r_windex = z_of_string wi;
        r_pay = PIn (z_of_string n) }
  | _ -> failwith "bad request"

let show_req (r : request) : string =
  Printf.sprintf "req %s %s %s %s %s" (zs r.r_bm) (zs r.r_breq) (zs r.r_wvalue) (zs r.r_windex)
    (match r.r_pay with POut d -> "out " ^ hex_of_bytes d | PIn n -> "in " ^ zs n)

let show_resp (a : resp) : string =
  match a with
  | RBytes l -> "bytes " ^ hex_of_bytes l
  | RCount n -> "count " ^ zs n
  | RStall -> "stall"

let show_mon (m : monitor) : string =
  match m with
  | MBusy -> "busy" | MPollDelay -> "polldelay" | MWriteBeforeErase -> "writebeforeerase"
  | MAddress -> "address" | MBadRequest -> "badrequest"

let show_mons (d : dev) : string =
  match d.d_mem.m_mons with [] -> "-" | l -> String.concat "," (List.map show_mon l)

let show_counts (d : dev) : string =
  Printf.sprintf "%s %s %s" (zs d.d_mem.m_nerase) (zs d.d_mem.m_nset) (zs d.d_mem.m_nwrite)

let show_state (d : dev) : string =
  match d.d_state with
  | Idle -> "idle" | Sync _ -> "sync" | Busy _ -> "busy" | DnIdle -> "dnidle" | Error st -> "error:" ^ zs st

let show_flash (d : dev) (addr : int) (len : int) : string =
  let b = Buffer.create (2 * len) in
  for i = 0 to len - 1 do
    Buffer.add_string b (Printf.sprintf "%02x" ((int_of_z (d.d_mem.m_flash (zi (addr + i)))) land 255))
  done;
  if len = 0 then "-" else Buffer.contents b
