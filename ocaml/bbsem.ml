(* line-oriented driver around the extracted single-step semantics (Spec/Sem.v)

   run <n> <pc> <r1,...,r31> <addr>:<hex> ...
     loads the byte segments into an otherwise all-zero memory, sets pc and x1..x31, executes up to n
     instructions with Sem.fetch / Sem.step and answers
       ok <pc'> <r1',...,r31'> <number of bytes written to memory> | <name ops> ; <name ops> ...
     or   stuck <k> <reason> | <trace so far>      (fetch or step undefined at step k) *)
module String = Stdlib.String
module List = Stdlib.List
open Zconv

let show_instr (i : RV32.instr) : string =
  let (n, ops) = RV32.name_ops i in
  String.trim (string_of_cl n ^ " " ^ String.concat " " (List.map string_of_z ops))

let handle (line : string) : string =
  match String.split_on_char ' ' line with
  | "run" :: n :: pc :: regs :: segs ->
      let tbl : (int, BinNums.coq_Z) Hashtbl.t = Hashtbl.create 64 in
      List.iter (fun sg ->
        if sg <> "" then begin
          let i = String.index sg ':' in
          let a = int_of_string (String.sub sg 0 i) in
          let bytes = unhex (String.sub sg (i + 1) (String.length sg - i - 1)) in
          String.iteri (fun k c -> Hashtbl.replace tbl ((a + k) land 0xffffffff) (z_of_int (Char.code c))) bytes
        end) segs;
      let memf (a : BinNums.coq_Z) : BinNums.coq_Z =
        match Hashtbl.find_opt tbl (int_of_z a) with Some b -> b | None -> BinNums.Z0 in
      let rv = Array.of_list (List.map z_of_string (String.split_on_char ',' regs)) in
      if Array.length rv <> 31 then failwith "need 31 register values";
      let regf (r : BinNums.coq_Z) : BinNums.coq_Z =
        let k = int_of_z r in if k >= 1 && k <= 31 then rv.(k - 1) else BinNums.Z0 in
      let s = ref { Sem.regs = regf; Sem.pc = z_of_string pc; Sem.mem = memf } in
      let trace = ref [] and nw = ref 0 and stuck = ref None in
      let steps = int_of_string n in
      let k = ref 0 in
      while !k < steps && !stuck = None do
        (match Sem.fetch (!s).Sem.mem (!s).Sem.pc with
         | None -> stuck := Some (Printf.sprintf "stuck %d fetch" !k)
         | Some (i, len) ->
             trace := show_instr i :: !trace;
             nw := !nw + List.length (Sem.writes i !s);
             (match Sem.step i len !s with
              | None -> stuck := Some (Printf.sprintf "stuck %d step" !k)
              | Some s' -> s := s'));
        incr k
      done;
      let tr = String.concat " ; " (List.rev !trace) in
      (match !stuck with
       | Some m -> m ^ " | " ^ tr
       | None ->
           let rs = List.init 31 (fun j -> string_of_z (Sem.getr !s (z_of_int (j + 1)))) in
           Printf.sprintf "ok %s %s %d | %s" (string_of_z (Sem.wrap (!s).Sem.pc)) (String.concat "," rs) !nw tr)
  | _ -> "unknown-command " ^ line

let () =
  try
    while true do
      let line = input_line stdin in
      (try print_endline (handle line) with e -> print_endline ("driver-error " ^ Printexc.to_string e))
    done
  with End_of_file -> ()
