let handle (line : string) : string = "unknown-command " ^ line
