(* line-oriented, STATEFUL driver around the extracted DfuSe device SPECIFICATION (Spec/DfuDev.v only).
     init <flash bytes> <idle|error:N> <schedule>      -> ok
     req <bm> <breq> <wValue> <wIndex> out <hex|-> | in <len>   -> bytes <hex> | count <n> | stall
     sleep <microseconds>                              -> ok
     mons | counts | state | sched                     -> monitors fired / "erases sets writes" / state / entries left
     flash <addr> <len>                                -> hex
   The fake usb device of the harness forwards every ctrl_transfer and time.sleep of the REAL dfu.cli_main here. *)
module String = Stdlib.String
module List = Stdlib.List
open Zconv
open DfuDev
open Dfuio

let cur : dev option ref = ref None
let get () = match !cur with Some d -> d | None -> failwith "no device"

let handle (line : string) : string =
  match String.split_on_char ' ' line with
  | ["init"; size; init; sched] -> cur := Some (make_dev size init sched); "ok"
  | "req" :: ws ->
      let (d1, a) = on_request (get ()) (parse_req ws) in
      cur := Some d1; show_resp a
  | ["sleep"; us] -> cur := Some (on_sleep (get ()) (z_of_string us)); "ok"
  | ["mons"] -> show_mons (get ())
  | ["counts"] -> show_counts (get ())
  | ["state"] -> show_state (get ())
  | ["sched"] -> string_of_int (List.length (get ()).d_sched)
  | ["flash"; a; n] -> show_flash (get ()) (int_of_string a) (int_of_string n)
  | ["variants"] ->
      String.concat " " (List.map (fun (c, s) -> string_of_z c ^ ":" ^ string_of_z s) spec_variants)
  | _ -> "driver-error unknown command"

let () =
  try
    while true do
      let line = input_line stdin in
      (try print_endline (handle line) with e -> print_endline ("driver-error " ^ Printexc.to_string e))
    done
  with End_of_file -> ()
