(* line-oriented driver around the extracted SPECIFICATION *)
module String = Stdlib.String
module List = Stdlib.List
open Zconv

let show_ops (l : BinNums.coq_Z list) : string = String.concat " " (List.map string_of_z l)

let handle (line : string) : string =
  match String.split_on_char ' ' line with
  | ["d32"; w] ->
      (match RV32.decode32 (z_of_string w) with
       | Some i -> let (n, ops) = RV32.name_ops i in string_of_cl n ^ " " ^ show_ops ops
       | None -> "none")
  | _ -> Bbspec_ext.handle line

let () =
  try
    while true do
      let line = input_line stdin in
      (try print_endline (handle line) with e -> print_endline ("driver-error " ^ Printexc.to_string e))
    done
  with End_of_file -> ()
