(* line-oriented driver around the extracted SPECIFICATION *)
module String = Stdlib.String
module List = Stdlib.List
open Zconv

let show_ops (l : BinNums.coq_Z list) : string = String.concat " " (List.map string_of_z l)

let handle (line : string) : string =
  match String.split_on_char ' ' line with
  | ["d32"; w] ->
      (match RV32.decode32 (z_of_string w) with
       | Some i -> let (n, ops) = RV32.name_ops i in String.trim (string_of_cl n ^ " " ^ show_ops ops)
       | None -> "none")
  | ["d16"; h] ->
      (match RVC.decode16 (z_of_string h) with
       | Some c -> let (n, ops) = RVC.name_ops16 c in String.trim (string_of_cl n ^ " " ^ show_ops ops)
       | None -> "none")
  | ["x16"; h] ->
      (match RVC.decode16 (z_of_string h) with
       | Some c -> let (n, ops) = RV32.name_ops (RVC.expand_c c) in String.trim (string_of_cl n ^ " " ^ show_ops ops)
       | None -> "none")
  | _ -> Bbspec_ext.handle line

let () =
  try
    while true do
      let line = input_line stdin in
      (try print_endline (handle line) with e -> print_endline ("driver-error " ^ Printexc.to_string e))
    done
  with End_of_file -> ()
