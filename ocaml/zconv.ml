(* conversions between OCaml strings and the extracted Z / string types *)
module String = Stdlib.String
module List = Stdlib.List
open BinNums

let rec pos_of_int (n : int) : positive =
  if n = 1 then Coq_xH
  else if n land 1 = 0 then Coq_xO (pos_of_int (n lsr 1))
  else Coq_xI (pos_of_int (n lsr 1))

let z_of_int (n : int) : coq_Z =
  if n = 0 then Z0 else if n > 0 then Zpos (pos_of_int n) else Zneg (pos_of_int (-n))

let ten = z_of_int 10

(* arbitrary-size decimal *)
let z_of_string (s : string) : coq_Z =
  let neg = Stdlib.String.length s > 0 && s.[0] = '-' in
  let start = if neg then 1 else 0 in
  let acc = ref Z0 in
  for i = start to Stdlib.String.length s - 1 do
    let d = Char.code s.[i] - 48 in
    if d < 0 || d > 9 then failwith ("bad integer: " ^ s);
    acc := BinInt.Z.add (BinInt.Z.mul !acc ten) (z_of_int d)
  done;
  if neg then BinInt.Z.opp !acc else !acc

let rec int_of_pos (p : positive) : int =
  match p with
  | Coq_xH -> 1
  | Coq_xO q -> 2 * int_of_pos q
  | Coq_xI q -> 2 * int_of_pos q + 1

let rec pos_bits (p : positive) : int =
  match p with Coq_xH -> 1 | Coq_xO q | Coq_xI q -> 1 + pos_bits q

let rec string_of_posz (z : coq_Z) : string =
  (* z >= 0 *)
  match z with
  | Z0 -> ""
  | Zpos p when pos_bits p <= 60 -> string_of_int (int_of_pos p)
  | _ ->
    let (q, r) = BinInt.Z.div_eucl z ten in
    let d = (match r with Z0 -> 0 | Zpos p -> int_of_pos p | Zneg _ -> failwith "neg rem") in
    (string_of_posz q) ^ (string_of_int d)

let string_of_z (z : coq_Z) : string =
  match z with
  | Z0 -> "0"
  | Zpos _ -> string_of_posz z
  | Zneg p -> "-" ^ string_of_posz (Zpos p)

let int_of_z (z : coq_Z) : int =
  match z with Z0 -> 0 | Zpos p -> int_of_pos p | Zneg p -> - (int_of_pos p)

(* extracted Coq string = char list (ExtrOcamlString) *)
let cl_of_string (s : string) : char list =
  Stdlib.List.init (Stdlib.String.length s) (fun i -> s.[i])
let string_of_cl (l : char list) : string =
  let b = Buffer.create 16 in Stdlib.List.iter (Buffer.add_char b) l; Buffer.contents b

let unhex (h : string) : string =
  let n = Stdlib.String.length h / 2 in
  Stdlib.String.init n (fun i -> Char.chr (int_of_string ("0x" ^ Stdlib.String.sub h (2*i) 2)))
let hex (s : string) : string =
  let b = Buffer.create 16 in
  Stdlib.String.iter (fun c -> Buffer.add_string b (Printf.sprintf "%02x" (Char.code c))) s; Buffer.contents b
