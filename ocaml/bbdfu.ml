(* line-oriented driver around the extracted DFU HOST MODEL (Gen.Dfu + Model.DfuHost) talking to the Spec device.
     run <fuel> <flash bytes> <idle|error:N> <schedule> <code of sn[serial_index]> <firmware hex|->
        -> <event>;<event>;...|<monitors>|<erases sets writes>|<state>
     consts -> vendor product serial_index page_size c:pages,c:pages,...                                   *)
module String = Stdlib.String
module List = Stdlib.List
open Zconv
open DfuDev
open DfuHost
open Dfuio

let rec nat_of_int (n : int) : Datatypes.nat = if n <= 0 then Datatypes.O else Datatypes.S (nat_of_int (n - 1))

let hexs (l : char list) : string = let s = string_of_cl l in if s = "" then "-" else hex s

let show_event (e : event) : string =
  match e with
  | EReq r -> show_req r
  | ESleep us -> "sleep " ^ zs us
  | EPrint (PLit s) -> "print lit " ^ hexs s
  | EPrint (PKV (k, v)) -> "print kv " ^ hexs k ^ " " ^ zs v
  | EPrint (PProgress (w, a)) -> "print progress " ^ hexs w ^ " " ^ zs a
  | EPrint (PStatusDesc st) -> "print statusdesc " ^ zs st
  | EPrint (PStateDesc st) -> "print statedesc " ^ zs st
  | EPrint PNewline -> "print nl"
  | EExit (c, None) -> "exit " ^ zs c ^ " -"
  | EExit (c, Some st) -> "exit " ^ zs c ^ " " ^ zs st
  | ECrash CAssert -> "crash assert"
  | ECrash CUsbError -> "crash usb"
  | ECrash CStructError -> "crash struct"
  | ECrash CKeyError -> "crash key"
  | ECrash CTypeError -> "crash type"
  | EOutOfFuel -> "outoffuel"

let handle (line : string) : string =
  match String.split_on_char ' ' line with
  | ["run"; fuel; size; init; sched; snc; fw] ->
      let d0 = make_dev size init sched in
      let (d, tr) = cli_main (nat_of_int (int_of_string fuel)) (bytes_of_hex fw) (z_of_string snc) d0 in
      String.concat ";" (List.map show_event tr) ^ "|" ^ show_mons d ^ "|" ^ show_counts d ^ "|" ^ show_state d
  | ["consts"] ->
      Printf.sprintf "%s %s %s %s %s" (zs Dfu.gd32_vendor) (zs Dfu.gd32_product) (zs Dfu.serial_index) (zs Dfu.page_size)
        (String.concat "," (List.map (fun (c, p) -> zs c ^ ":" ^ zs p) Dfu.device_table))
  | _ -> "driver-error unknown command"

let () =
  try
    while true do
      let line = input_line stdin in
      (try print_endline (handle line) with e -> print_endline ("driver-error " ^ Printexc.to_string e))
    done
  with End_of_file -> ()
