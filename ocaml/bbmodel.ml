(* line-oriented driver around the extracted executable model (Gen + Model) *)
module String = Stdlib.String
module List = Stdlib.List
open Zconv
open PyBase

let exn_name = function
  | ValueError -> "ValueError" | KeyError -> "KeyError" | TypeError -> "TypeError"
  | AttributeError -> "AttributeError" | StructError -> "StructError"
  | AssertionError -> "AssertionError" | AssemblerError -> "AssemblerError" | OtherExn -> "OtherExn"

let parse_arg (t : string) : arg =
  let k = Stdlib.String.sub t 0 2 and v = Stdlib.String.sub t 2 (Stdlib.String.length t - 2) in
  if k = "i:" then AInt (z_of_string v)
  else if k = "s:" then AStr (cl_of_string (unhex v))
  else failwith ("bad arg " ^ t)

let show_res = function
  | Ok z -> "ok " ^ string_of_z z
  | Err e -> "err " ^ exn_name e

let handle (line : string) : string =
  match Stdlib.String.split_on_char ' ' line with
  | ["hi"; v] -> string_of_z (Encoders.relocate_hi (z_of_string v))
  | ["lo"; v] -> string_of_z (Encoders.relocate_lo (z_of_string v))
  | ["sx"; v; b] -> string_of_z (Encoders.sign_extend (z_of_string v) (z_of_string b))
  | ["int"; h] ->
      (match py_int_lit (cl_of_string (unhex h)) with Some z -> "some " ^ string_of_z z | None -> "none")
  | ["reg"; a; c] -> show_res (Encoders.lookup_register (parse_arg a) (c = "1"))
  | "enc" :: name :: rest ->
      let pos = ref [] and kw = ref [] in
      Stdlib.List.iter (fun t ->
        if Stdlib.String.length t > 2 && Stdlib.String.sub t 0 2 = "k:" then begin
          let body = Stdlib.String.sub t 2 (Stdlib.String.length t - 2) in
          let i = Stdlib.String.index body '=' in
          kw := (cl_of_string (Stdlib.String.sub body 0 i),
                 parse_arg (Stdlib.String.sub body (i+1) (Stdlib.String.length body - i - 1))) :: !kw
        end else pos := parse_arg t :: !pos) rest;
      (match assoc_str (cl_of_string name) Encoders.coq_INSTRUCTIONS_final with
       | Some f -> show_res (f (Stdlib.List.rev !pos) (Stdlib.List.rev !kw))
       | None -> "err KeyError")
  | _ -> Bbmodel_ext.handle line

let () =
  try
    while true do
      let line = input_line stdin in
      (try print_endline (handle line) with e -> print_endline ("driver-error " ^ Printexc.to_string e))
    done
  with End_of_file -> ()
