From Coq Require Import ZArith List Bool Lia ZifyBool.
Require Import Bits.
Open Scope Z_scope.
Ltac Zify.zify_post_hook ::= Z.to_euclidean_division_equations.

Definition c_uint32 (x:Z) := x mod 2^32.

Definition b_type (rs1 rs2 imm opcode funct3 : Z) : option Z :=
  if (imm <? -4096) || (imm >? 4095) then None else
  if negb (imm mod 2 =? 0) then None else
  let imm := Z.shiftr imm 1 in
  let imm := Z.land (c_uint32 imm) 4095 in
  let imm_12 := Z.land (Z.shiftr imm 11) 1 in
  let imm_11 := Z.land (Z.shiftr imm 10) 1 in
  let imm_10_5 := Z.land (Z.shiftr imm 4) 63 in
  let imm_4_1 := Z.land imm 15 in
  let code := 0 in
  let code := Z.lor code opcode in
  let code := Z.lor code (Z.shiftl imm_11 7) in
  let code := Z.lor code (Z.shiftl imm_4_1 8) in
  let code := Z.lor code (Z.shiftl funct3 12) in
  let code := Z.lor code (Z.shiftl rs1 15) in
  let code := Z.lor code (Z.shiftl rs2 20) in
  let code := Z.lor code (Z.shiftl imm_10_5 25) in
  let code := Z.lor code (Z.shiftl imm_12 31) in
  Some code.

Definition bits (w lo n : Z) := (w / 2^lo) mod 2^n.
Definition sext (v n : Z) := if v <? 2^(n-1) then v else v - 2^n.
Definition dec_b_imm (w:Z) : Z :=
  sext (bits w 31 1 * 4096 + bits w 7 1 * 2048 + bits w 25 6 * 32 + bits w 8 4 * 2) 13.


Lemma bits_low a b k lo n : 0 <= lo -> 0 <= n -> lo + n <= k -> bits (a + b * 2^k) lo n = bits a lo n.
Proof.
  intros Hlo Hn Hk. unfold bits.
  replace (2^k) with (2^lo * 2^n * 2^(k-lo-n)) by (rewrite <- !Z.pow_add_r by lia; f_equal; lia).
  replace (a + b * (2 ^ lo * 2 ^ n * 2 ^ (k - lo - n))) with (a + (b * 2^(k-lo-n) * 2^n) * 2^lo) by ring.
  rewrite Z.div_add by (apply Z.pow_nonzero; lia).
  rewrite Z.mod_add by (apply Z.pow_nonzero; lia). reflexivity.
Qed.
Lemma bits_high a b k lo n : 0 <= k <= lo -> 0 <= a < 2^k -> bits (a + b * 2^k) lo n = bits b (lo - k) n.
Proof.
  intros Hk Ha. unfold bits.
  replace (2^lo) with (2^k * 2^(lo-k)) by (rewrite <- Z.pow_add_r by lia; f_equal; lia).
  rewrite <- Z.div_div by (try apply Z.pow_nonzero; try apply Z.pow_pos_nonneg; lia).
  rewrite Z.div_add by (apply Z.pow_nonzero; lia).
  rewrite (Z.div_small a) by lia. reflexivity.
Qed.
Lemma bits_self v n : 0 <= v < 2^n -> bits v 0 n = v.
Proof. intros. unfold bits. rewrite Z.pow_0_r, Z.div_1_r. apply Z.mod_small; auto. Qed.
Lemma Some_inj {A} (a b:A): Some a = Some b -> a = b. Proof. congruence. Qed.

Lemma b_type_ok rs1 rs2 imm opcode funct3 w :
  0 <= rs1 < 32 -> 0 <= rs2 < 32 -> 0 <= opcode < 128 -> 0 <= funct3 < 8 ->
  b_type rs1 rs2 imm opcode funct3 = Some w ->
  dec_b_imm w = imm /\ bits w 0 7 = opcode /\ bits w 12 3 = funct3 /\ bits w 15 5 = rs1 /\ bits w 20 5 = rs2 /\ 0 <= w < 2^32.
Proof.
  intros Hrs1 Hrs2 Hop Hf3. unfold b_type.
  destruct (_ || _) eqn:E1; [discriminate|].
  destruct (negb _) eqn:E2; [discriminate|].
  intros H; apply Some_inj in H; subst w.
  cbv zeta. unfold c_uint32.
  rewrite Z.lor_0_l.
  repeat match goal with
  | |- context[Z.land ?x 4095] => change (Z.land x 4095) with (Z.land x (2^12-1))
  | |- context[Z.land ?x 1] => change (Z.land x 1) with (Z.land x (2^1-1))
  | |- context[Z.land ?x 63] => change (Z.land x 63) with (Z.land x (2^6-1))
  | |- context[Z.land ?x 15] => change (Z.land x 15) with (Z.land x (2^4-1))
  end.
  rewrite !land_ones_mod by (cbv; congruence).
  rewrite !Z.shiftr_div_pow2 by (cbv; congruence).
  set (u := ((imm / 2 ^ 1) mod 2 ^ 32) mod 2 ^ 12).
  assert (Hu: 0 <= u < 4096) by (subst u; apply Z.mod_pos_bound; lia).
  assert (Huimm: (u < 2048 -> imm = 2*u) /\ (u >= 2048 -> imm = 2*(u-4096))) by (subst u; lia).
  clearbody u.
  set (f1 := (u / 2^10) mod 2^1). set (f2 := u mod 2^4). set (f3 := (u / 2^4) mod 2^6). set (f4 := (u/2^11) mod 2^1).
  assert (0 <= f1 < 2 /\ 0 <= f2 < 16 /\ 0 <= f3 < 64 /\ 0 <= f4 < 2) as (B1 & B2 & B3 & B4) by (subst f1 f2 f3 f4; lia).
  assert (Hg: u = f4 * 2048 + f1 * 1024 + f3 * 16 + f2) by (subst f1 f2 f3 f4; lia).
  clearbody f1 f2 f3 f4.
  Time repeat match goal with
  | |- context[Z.lor ?a (Z.shiftl ?b ?k)] => rewrite (lor_disjoint_add a b k) by lia
  end.
  unfold dec_b_imm.
  Time repeat first [ rewrite bits_low by lia | rewrite bits_high by lia ].
  cbn [Z.sub Z.pos_sub Z.succ_double Z.pred_double Z.double Pos.pred_double Z.opp].
  Time rewrite ?bits_self by lia.
  unfold sext. match goal with |- context[if ?c then _ else _] => destruct c eqn:E3 end; repeat split; lia.
Qed.
Print Assumptions b_type_ok.
