From Coq Require Import ZArith List Bool Lia.
Import ListNotations.
Open Scope Z_scope.
Definition r256 : list Z := map Z.of_nat (seq 0 256).
Definition all16 : list Z := flat_map (fun hi => map (fun lo => hi * 256 + lo) r256) r256.
Definition bits (w lo n : Z) := (w / 2^lo) mod 2^n.
Definition f (h: Z) : Z := bits h 0 2 + bits h 13 3 * 4 + bits h 2 11 * 32.
Definition g (x: Z) : Z := bits x 0 2 + bits x 2 3 * 8192 + bits x 5 11 * 4.
Lemma all16_in h : 0 <= h < 65536 -> In h all16.
Proof.
  intros H. unfold all16. apply in_flat_map. exists (h / 256). split.
  - unfold r256. apply in_map_iff. exists (Z.to_nat (h/256)). split. rewrite Z2Nat.id; auto. apply Z.div_pos; lia.
    apply in_seq. split; [lia|]. simpl. assert (h/256 < 256) by (apply Z.div_lt_upper_bound; lia). lia.
  - apply in_map_iff. exists (h mod 256). split. rewrite Z.mul_comm. symmetry. apply Z.div_mod. lia.
    unfold r256. apply in_map_iff. exists (Z.to_nat (h mod 256)). split. rewrite Z2Nat.id; auto. apply Z.mod_pos_bound; lia.
    apply in_seq. split; [lia|]. simpl. assert (h mod 256 < 256) by (apply Z.mod_pos_bound; lia). lia.
Qed.
Lemma sweep : forallb (fun h => g (f h) =? h) all16 = true.
Proof. Time vm_compute. reflexivity. Time Qed.
Theorem rt h : 0 <= h < 65536 -> g (f h) = h.
Proof. intros. apply Z.eqb_eq. apply (proj1 (forallb_forall _ _) sweep). apply all16_in; auto. Qed.
Print Assumptions rt.
