From Coq Require Import ZArith List Bool Lia ZifyBool.
Open Scope Z_scope.

Lemma land_ones_mod a n : 0 <= n -> Z.land a (2^n - 1) = a mod 2^n.
Proof. intros. replace (2^n - 1) with (Z.ones n) by (rewrite Z.ones_equiv; lia). apply Z.land_ones; auto. Qed.

Lemma testbit_small a k n : 0 <= a < 2^k -> k <= n -> Z.testbit a n = false.
Proof.
  intros [Ha0 Ha] Hkn.
  destruct (Z.eq_dec a 0) as [->|Hne]; [apply Z.bits_0|].
  apply Z.bits_above_log2; [lia|].
  assert (Z.log2 a < k) by (apply Z.log2_lt_pow2; lia). lia.
Qed.

Lemma land_disjoint a b k : 0 <= k -> 0 <= a < 2^k -> Z.land a (Z.shiftl b k) = 0.
Proof.
  intros Hk Ha. apply Z.bits_inj'. intros n Hn.
  rewrite Z.land_spec, Z.bits_0.
  destruct (Z.ltb_spec n k).
  - rewrite Z.shiftl_spec_low by lia. apply andb_false_r.
  - rewrite (testbit_small a k n) by lia. reflexivity.
Qed.

Lemma lor_disjoint_add a b k : 0 <= k -> 0 <= a < 2^k -> Z.lor a (Z.shiftl b k) = a + b * 2^k.
Proof.
  intros Hk Ha.
  rewrite <- Z.lxor_lor by (apply land_disjoint; auto).
  rewrite <- Z.add_nocarry_lxor by (apply land_disjoint; auto).
  rewrite Z.shiftl_mul_pow2 by auto. reflexivity.
Qed.
