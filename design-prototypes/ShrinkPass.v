From Coq Require Import ZArith List Bool Lia String.
Import ListNotations.
Open Scope Z_scope.

Inductive gitem (T:Type) := GLabel (n : string) | GItem (sz : Z) (p : T).
Arguments GLabel {T}. Arguments GItem {T}.

Definition labels := list (string * Z).
Fixpoint lookup (k : string) (ls : labels) : option Z :=
  match ls with [] => None | (k',v)::r => if String.eqb k k' then Some v else lookup k r end.
Definition shrink_after (pos d : Z) (ls : labels) : labels :=
  map (fun kv => if snd kv >? pos then (fst kv, snd kv - d) else kv) ls.

Lemma lookup_shrink k pos d ls :
  lookup k (shrink_after pos d ls) =
  match lookup k ls with Some v => Some (if v >? pos then v - d else v) | None => None end.
Proof.
  induction ls as [|[k' v] r IH]; simpl; auto.
  destruct (v >? pos) eqn:E; simpl; destruct (String.eqb k k'); auto; rewrite E; auto.
Qed.

Section Pass.
Context {T : Type}.
Variable rule : Z -> T -> Z -> labels -> list (Z * T).
Definition total (rs : list (Z * T)) : Z := fold_right (fun r a => fst r + a) 0 rs.
Hypothesis rule_nonneg : forall sz p pos ls, Forall (fun r => 0 <= fst r) (rule sz p pos ls).
Hypothesis rule_shrinks : forall sz p pos ls, total (rule sz p pos ls) <= sz.

Definition emit (rs : list (Z*T)) : list (gitem T) := map (fun r => GItem (fst r) (snd r)) rs.

Fixpoint pass (its : list (gitem T)) (pos : Z) (ls : labels) : list (gitem T) * labels :=
  match its with
  | [] => ([], ls)
  | GLabel n :: r => let '(o, ls') := pass r pos ls in (GLabel n :: o, ls')
  | GItem sz p :: r =>
      let rs := rule sz p pos ls in
      let d := sz - total rs in
      let ls1 := if d >? 0 then shrink_after pos d ls else ls in
      let '(o, ls') := pass r (pos + total rs) ls1 in
      (emit rs ++ o, ls')
  end.

Fixpoint offset_of (L : string) (its : list (gitem T)) : option Z :=
  match its with
  | [] => None
  | GLabel n :: r => if String.eqb L n then Some 0 else offset_of L r
  | GItem sz _ :: r => option_map (Z.add sz) (offset_of L r)
  end.
Fixpoint names (its : list (gitem T)) : list string :=
  match its with [] => [] | GLabel n :: r => n :: names r | GItem _ _ :: r => names r end.
Definition sizes_nonneg (its : list (gitem T)) :=
  Forall (fun i => match i with GItem sz _ => 0 <= sz | _ => True end) its.

Lemma total_nonneg rs : Forall (fun r : Z * T => 0 <= fst r) rs -> 0 <= total rs.
Proof. induction 1; simpl; lia. Qed.

Lemma offset_of_emit L rs o : offset_of L (emit rs ++ o) = option_map (Z.add (total rs)) (offset_of L o).
Proof.
  induction rs as [|r rs IH]; simpl.
  - destruct (offset_of L o); reflexivity.
  - rewrite IH. destruct (offset_of L o); simpl; f_equal; lia.
Qed.
Lemma names_emit rs o : names (emit rs ++ o) = names o.
Proof. induction rs; simpl; auto. Qed.
Lemma offset_of_nonneg L its q : sizes_nonneg its -> offset_of L its = Some q -> 0 <= q.
Proof.
  revert q; induction its as [|[n|sz p] r IH]; intros q Hs H; simpl in H; try discriminate; inversion Hs; subst.
  - destruct (String.eqb L n). inversion H; lia. auto.
  - destruct (offset_of L r) eqn:E; simpl in H; inversion H; subst. specialize (IH _ H3 eq_refl). lia.
Qed.
Lemma offset_of_in L its q : offset_of L its = Some q -> In L (names its).
Proof.
  revert q; induction its as [|[n|sz p] r IH]; intros q H; simpl in *; try discriminate.
  - destruct (String.eqb L n) eqn:E. apply String.eqb_eq in E; auto. right; eauto.
  - destruct (offset_of L r); simpl in H; try discriminate. eauto.
Qed.

Lemma pass_exact its : forall pos ls o ls',
  sizes_nonneg its -> NoDup (names its) ->
  (forall L q, offset_of L its = Some q -> lookup L ls = Some (pos + q)) ->
  pass its pos ls = (o, ls') ->
  (forall L q, offset_of L o = Some q -> lookup L ls' = Some (pos + q)) /\
  (forall L v, ~ In L (names its) -> lookup L ls = Some v -> v <= pos -> lookup L ls' = Some v) /\
  names o = names its.
Proof.
  induction its as [|[n|sz p] r IH]; intros pos ls o ls' Hs Hnd Hinv Hp; simpl in Hp.
  - inversion Hp; subst. repeat split; auto; intros L q H; simpl in H; discriminate.
  - destruct (pass r pos ls) as [o1 ls1] eqn:E. inversion Hp; subst. clear Hp.
    inversion Hs; subst. simpl in Hnd. inversion Hnd; subst.
    assert (Hinv' : forall L q, offset_of L r = Some q -> lookup L ls = Some (pos + q)).
    { intros L q H. apply Hinv. simpl. destruct (String.eqb L n) eqn:En; auto.
      apply String.eqb_eq in En; subst. exfalso. apply H3. eapply offset_of_in; eauto. }
    destruct (IH pos ls o1 ls' H2 H4 Hinv' E) as (A & B & C).
    repeat split.
    + intros L q H. simpl in H. destruct (String.eqb L n) eqn:En.
      * apply String.eqb_eq in En; subst. inversion H; subst.
        apply (B n (pos + 0)); auto; [ | lia]. apply Hinv. simpl. rewrite String.eqb_refl. reflexivity.
      * apply A; auto.
    + intros L v Hn Hl Hv. apply B; auto. intro; apply Hn; simpl; auto.
    + simpl. f_equal; auto.
  - set (rs := rule sz p pos ls) in *. set (d := sz - total rs) in *.
    destruct (pass r (pos + total rs) (if d >? 0 then shrink_after pos d ls else ls)) as [o1 ls1] eqn:E.
    inversion Hp; subst o ls'. clear Hp.
    inversion Hs; subst. simpl in Hnd.
    assert (Ht : 0 <= total rs) by (apply total_nonneg; apply rule_nonneg).
    assert (Hd : 0 <= d) by (subst d rs; specialize (rule_shrinks sz p pos ls); lia).
    assert (Hinv' : forall L q, offset_of L r = Some q ->
              lookup L (if d >? 0 then shrink_after pos d ls else ls) = Some (pos + total rs + q)).
    { intros L q H.
      assert (Hq : 0 <= q) by (eapply offset_of_nonneg; eauto).
      specialize (Hinv L (sz + q)). simpl in Hinv. rewrite H in Hinv. specialize (Hinv eq_refl).
      destruct (d >? 0) eqn:Ed.
      - rewrite lookup_shrink, Hinv.
        assert (Hgt : pos + (sz + q) >? pos = true) by (subst d; lia). rewrite Hgt. f_equal. subst d. lia.
      - rewrite Hinv. f_equal. subst d. lia. }
    destruct (IH _ _ _ _ H2 Hnd Hinv' E) as (A & B & C).
    repeat split.
    + intros L q H. rewrite offset_of_emit in H.
      destruct (offset_of L o1) as [q'|] eqn:Eo; simpl in H; inversion H; subst.
      rewrite (A L q' Eo). f_equal. lia.
    + intros L v Hn Hl Hv. apply B; auto; [ | lia].
      destruct (d >? 0) eqn:Ed; auto. rewrite lookup_shrink, Hl.
      assert (Hng : v >? pos = false) by lia. rewrite Hng. reflexivity.
    + rewrite names_emit. simpl. auto.
Qed.

(* the statement the properties use: start from pessimistic offsets, end at exact offsets *)
Theorem shrink_pass_exact its ls o ls' :
  sizes_nonneg its -> NoDup (names its) ->
  (forall L q, offset_of L its = Some q -> lookup L ls = Some q) ->
  pass its 0 ls = (o, ls') ->
  forall L q, offset_of L o = Some q -> lookup L ls' = Some q.
Proof.
  intros Hs Hnd Hinv Hp L q H.
  assert (Hinv0 : forall L q, offset_of L its = Some q -> lookup L ls = Some (0 + q)) by (intros; simpl; auto).
  destruct (pass_exact its 0 ls o ls' Hs Hnd Hinv0 Hp) as (A & _ & _).
  rewrite (A L q H). reflexivity.
Qed.
End Pass.
Print Assumptions shrink_pass_exact.
